(* Property C14: the http provider with and without preload, with the chosencases filter.
   The machines are those of Model/Provider.v ([http_step] places the filter where the code
   places it); this file adds the two-sided view and the executable specification. *)
From Coq Require Import List Arith Bool.
From PV Require Import Model.Provider.
Import ListNotations.

(* what `deliver preload cfg file` is: the http provider of decoder kind k *)
Definition deliver (k : dkind) (preload : bool) (cf : cfg) (es : list entry)
           (cancel : option nat) (fuel : nat) : result :=
  http_run k preload cf es cancel fuel.

(* the entries the filter keeps, in file order *)
Definition chosen_entries (ch : list nat) (es : list entry) : list entry :=
  filter (fun e => is_chosen (e_tag e) ch) es.

Definition runclass_eqb (a b : runclass) : bool :=
  match a, b with
  | ROk, ROk | RCanceled, RCanceled | RNoAmmo, RNoAmmo | RErr, RErr | RHang, RHang
  | RRefused, RRefused => true
  | _, _ => false
  end.

Definition is_rnoammo (r : runclass) : bool := match r with RNoAmmo => true | _ => false end.
Definition is_rrefused (r : runclass) : bool := match r with RRefused => true | _ => false end.

(* The executable specification of C14 on the IMPLEMENTATION's observations of the two
   providers (S = streaming, P = preload) built from the same file:
   - both observations are equal (sequence, end of ammo seen, class of Run's result);
   - the sequence is the cyclic replay of exactly the chosen entries, in file order, of length
     min of the non-zero bounds among limit and passes * (number of chosen entries)
     (limit counts delivered entries), ending Ok with the sink closed — this is [spec_b] of C08
     over the chosen entries;
   - when nothing matches: nothing is delivered, the sink is closed and Run returns (nil or
     "no ammo"), never spinning; a file without entries may also be refused by the constructor
     (both providers are built by the same constructor). *)
Definition spec14_b (lim pas : nat) (es : list entry) (ch : list nat) (cancel : option nat)
           (obsS obsP : list nat) (clS clP : bool) (rcS rcP : runclass) : bool :=
  list_eqb obsS obsP && Bool.eqb clS clP && runclass_eqb rcS rcP &&
  match chosen_entries ch es with
  | [] => (length obsS =? 0) && clS
          && (is_rok rcS || is_rnoammo rcS || (is_rrefused rcS && match es with [] => true | _ => false end))
  | src => spec_b lim pas src cancel true obsS clS rcS
  end.
