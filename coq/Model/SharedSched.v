(* Property C11, clause "a shared schedule observed by one instance while another instance starts it".

   Fine-grained concurrent semantics of ONE unlimitedSchedule (core/schedule/unlilmited.go +
   start_sync.go) used by any number of instance goroutines: the object the engine shares between
   the instances of a pool with `rps: {type: unlimited}` (never started by the engine, so the first
   Next() of some instance starts it while the other instances evaluate their loop condition
   Waiter.IsFinished -> Left()).

   A method body is a list of [ustmt] - the synchronisation skeleton of the Go source, re-read from
   /repo on every run by harness/cmd/trC11 (coq/Gen/SharedSchedGen.v, bridge Gen/SharedSched_bridge.v):

     NewUnlimited(d): finish = atomic.NewTime(time.Now())          (the construction instant, in the past)
     Next():  s.startOnce.Do(func() { s.finish.Store(time.Now().Add(s.duration)); s.MarkStarted() })
              now := time.Now(); finish := s.finish.Load()
              now < finish ? (now < finish-d ? (finish-d, true) : (now, true)) : (finish, false)
     Start(t): s.startOnce.Do(func() { s.finish.Store(t.Add(s.duration)) }); s.MarkStarted()
     Left():  if !s.IsStarted() || time.Now().Before(s.finish.Load()) { return -1 }; return 0

   Every shared access and every clock reading is its own step of its thread:
     AReadNow           time.Now() into the thread's local
     AStoreFinishLocal  s.finish.Store(local.Add(duration))     (atomic store)
     AStoreFinishArg    s.finish.Store(startAt.Add(duration))
     AMarkStarted       started.Swap(true), panic "schedule is already started" when it was set
     ARetNext           finish := s.finish.Load() and the return of Next computed from local and finish
     ARetLeft           s.finish.Load() and the return of Left (-1 when local < finish, else 0)
   [SRetM1IfNotStarted] = the first disjunct of Left: an atomic load of the started flag, return -1
   when it is not set.  sync.Once ([SOnce body]): a caller that finds the Once done skips it; a caller
   that finds another caller inside has NO step (it waits on the Once's mutex); otherwise it enters
   (the Once records its owner), runs the body action by action (other threads run in between) and,
   at the end, marks the Once done and releases it.

   Executable definitions only. *)
From Coq Require Import List ZArith Bool Arith.
Import ListNotations.
Local Open Scope Z_scope.

Inductive uop : Type := UNext | ULeft | UStart (t : Z).
Inductive ures : Type := RNext (t : Z) (ok : bool) | RLeft (v : Z) | RStart.

Inductive uact : Type :=
| AReadNow | AStoreFinishLocal | AStoreFinishArg | AMarkStarted | ARetNext | ARetLeft.

Inductive ustmt : Type :=
| SAct (a : uact)
| SOnce (body : list uact)
| SRetM1IfNotStarted.

Inductive kont : Type :=
| KAct (a : uact)
| KOnce (body : list uact)
| KOnceExit
| KRetM1IfNotStarted.

Definition compile (s : ustmt) : list kont :=
  match s with
  | SAct a => [KAct a]
  | SOnce b => [KOnce b]
  | SRetM1IfNotStarted => [KRetM1IfNotStarted]
  end.

Record uprogs : Type := { p_next : list ustmt; p_start : list ustmt; p_left : list ustmt }.

(* unlilmited.go as it is *)
Definition unl_next_prog : list ustmt :=
  [SOnce [AReadNow; AStoreFinishLocal; AMarkStarted]; SAct AReadNow; SAct ARetNext].
Definition unl_start_prog : list ustmt := [SOnce [AStoreFinishArg]; SAct AMarkStarted].
Definition unl_left_prog : list ustmt := [SRetM1IfNotStarted; SAct AReadNow; SAct ARetLeft].
Definition unl_progs : uprogs :=
  {| p_next := unl_next_prog; p_start := unl_start_prog; p_left := unl_left_prog |}.

(* the same with "started" published before the finish time (the order doAtSchedule uses for its
   plain start field, which no Left reads): NOT what the source does; kept to show that the theorem
   depends on the order (Properties/C11_sched.v, C11_shared_unl_order_matters) *)
Definition swapped_next_prog : list ustmt :=
  [SOnce [AMarkStarted; AReadNow; AStoreFinishLocal]; SAct AReadNow; SAct ARetNext].
Definition swapped_progs : uprogs :=
  {| p_next := swapped_next_prog; p_start := unl_start_prog; p_left := unl_left_prog |}.

Definition code (P : uprogs) (o : uop) : list kont :=
  flat_map compile (match o with UNext => p_next P | ULeft => p_left P | UStart _ => p_start P end).

(* the Once: fresh, somebody (thread number) inside, done *)
Inductive ost : Type := OFresh | OBusy (owner : nat) | ODone.

(* shared state of the schedule *)
Record ustate : Type := { u_started : bool; u_once : ost; u_finish : Z }.

(* a thread: remaining code of the operation in progress ([] = between operations), the local clock
   reading, the operations still to do, the values returned so far with the clock at the return *)
Record uthread : Type := { t_k : list kont; t_loc : Z; t_todo : list uop; t_hist : list (ures * Z) }.

Inductive sres (A : Type) : Type := SOk (a : A) | SPanic.
Arguments SOk {A} a.
Arguments SPanic {A}.

Definition next_res (d finish now : Z) : ures :=
  if now <? finish then
    (if now <? finish - d then RNext (finish - d) true else RNext now true)
  else RNext finish false.

Definition left_res (finish now : Z) : ures := RLeft (if now <? finish then -1 else 0).

Definition t_ret (th : uthread) (r : ures) (now : Z) : uthread :=
  {| t_k := []; t_loc := 0; t_todo := tl (t_todo th); t_hist := t_hist th ++ [(r, now)] |}.
(* continue with the remaining code; falling off the end of a body is a return without a value *)
Definition t_goto (th : uthread) (loc : Z) (k : list kont) (now : Z) : uthread :=
  match k with
  | [] => t_ret th RStart now
  | _ => {| t_k := k; t_loc := loc; t_todo := t_todo th; t_hist := t_hist th |}
  end.

Definition set_finish (s : ustate) (f : Z) : ustate :=
  {| u_started := u_started s; u_once := u_once s; u_finish := f |}.
Definition set_started (s : ustate) : ustate :=
  {| u_started := true; u_once := u_once s; u_finish := u_finish s |}.
Definition set_once (s : ustate) (o : ost) : ustate :=
  {| u_started := u_started s; u_once := o; u_finish := u_finish s |}.

(* one step of thread number [i] at clock [now]; None = no step (nothing to do / waiting for the
   Once).  Third component: the start instant, in the step that stores the finish time (ghost). *)
Definition ustep (d : Z) (P : uprogs) (now : Z) (i : nat) (s : ustate) (th : uthread)
  : option (sres (ustate * uthread * option Z)) :=
  match t_todo th with
  | [] => None
  | o :: _ =>
      let k := match t_k th with [] => code P o | k => k end in
      match k with
      | [] => Some (SOk (s, t_ret th RStart now, None))
      | KAct AReadNow :: r => Some (SOk (s, t_goto th now r now, None))
      | KAct AStoreFinishLocal :: r =>
          Some (SOk (set_finish s (t_loc th + d), t_goto th (t_loc th) r now, Some (t_loc th)))
      | KAct AStoreFinishArg :: r =>
          let t := match o with UStart t => t | _ => 0 end in
          Some (SOk (set_finish s (t + d), t_goto th (t_loc th) r now, Some t))
      | KAct AMarkStarted :: r =>
          if u_started s then Some SPanic
          else Some (SOk (set_started s, t_goto th (t_loc th) r now, None))
      | KAct ARetNext :: _ => Some (SOk (s, t_ret th (next_res d (u_finish s) (t_loc th)) now, None))
      | KAct ARetLeft :: _ => Some (SOk (s, t_ret th (left_res (u_finish s) (t_loc th)) now, None))
      | KRetM1IfNotStarted :: r =>
          if u_started s then Some (SOk (s, t_goto th (t_loc th) r now, None))
          else Some (SOk (s, t_ret th (RLeft (-1)) now, None))
      | KOnce body :: r =>
          match u_once s with
          | ODone => Some (SOk (s, t_goto th (t_loc th) r now, None))
          | OBusy _ => None
          | OFresh => Some (SOk (set_once s (OBusy i), t_goto th (t_loc th) (map KAct body ++ KOnceExit :: r) now, None))
          end
      | KOnceExit :: r => Some (SOk (set_once s ODone, t_goto th (t_loc th) r now, None))
      end
  end.

(* ---------------------------------------------------------------- the whole system *)
(* [g_start]: the start instant (written only; no step reads it) *)
Record gstate : Type := { g_s : ustate; g_lo : Z; g_threads : list uthread; g_start : option Z }.

Fixpoint lupd {A} (i : nat) (x : A) (l : list A) : list A :=
  match l, i with
  | [], _ => []
  | _ :: r, O => x :: r
  | y :: r, S j => y :: lupd j x r
  end.

Definition g_after (g : gstate) (i : nat) (now : Z) (s' : ustate) (th' : uthread) (e : option Z) : gstate :=
  {| g_s := s'; g_lo := now; g_threads := lupd i th' (g_threads g);
     g_start := match e with Some t => Some t | None => g_start g end |}.

(* any thread that has a step, any clock value not before the last one *)
Inductive gstep (d : Z) (P : uprogs) : gstate -> gstate -> Prop :=
| gstep_intro g i th now s' th' e :
    nth_error (g_threads g) i = Some th -> g_lo g <= now ->
    ustep d P now i (g_s g) th = Some (SOk (s', th', e)) ->
    gstep d P g (g_after g i now s' th' e).

Inductive ureach (d : Z) (P : uprogs) (g0 : gstate) : gstate -> Prop :=
| ureach_refl : ureach d P g0 g0
| ureach_step g g' : ureach d P g0 g -> gstep d P g g' -> ureach d P g0 g'.

(* some thread's next step panics *)
Definition ustuck (d : Z) (P : uprogs) (g : gstate) : Prop :=
  exists i th now, nth_error (g_threads g) i = Some th /\ g_lo g <= now /\
    ustep d P now i (g_s g) th = Some SPanic.

Definition uthread_init (ops : list uop) : uthread := {| t_k := []; t_loc := 0; t_todo := ops; t_hist := [] |}.

(* a schedule constructed at instant [c0] (its finish field holds c0), nobody called Start or Next;
   the instances begin at clock [lo] *)
Definition uinit (c0 lo : Z) (plans : list (list uop)) : gstate :=
  {| g_s := {| u_started := false; u_once := OFresh; u_finish := c0 |};
     g_lo := lo; g_threads := map uthread_init plans; g_start := None |}.

(* executable scheduler: a list of (thread, clock reading); None = that thread has no step there, the
   clock went backwards, or the step panicked *)
Fixpoint urun (d : Z) (P : uprogs) (sch : list (nat * Z)) (g : gstate) : option gstate :=
  match sch with
  | [] => Some g
  | (i, now) :: r =>
      match nth_error (g_threads g) i with
      | None => None
      | Some th =>
          if now <? g_lo g then None else
          match ustep d P now i (g_s g) th with
          | Some (SOk (s', th', e)) => urun d P r (g_after g i now s' th' e)
          | _ => None
          end
      end
  end.

Definition is_start (o : uop) : bool := match o with UStart _ => true | _ => false end.
(* the instances of a pool only call Next and Left (the engine never calls Start) *)
Definition inst_plans (plans : list (list uop)) : bool :=
  forallb (fun p => forallb (fun o => negb (is_start o)) p) plans.

(* ---------------------------------------------------------------- what an instance may see *)
(* result [r] returned at clock [at_] is consistent with the start instant [s0] (None = nobody
   stored a finish time yet) of a schedule of duration [d] *)
Definition res_ok (d : Z) (s0 : option Z) (r : ures) (at_ : Z) : Prop :=
  match r with
  | RLeft v => v = -1 \/ (v = 0 /\ exists s, s0 = Some s /\ s + d <= at_)
  | RNext t true => exists s, s0 = Some s /\ s <= t < s + d /\ t <= at_
  | RNext t false => exists s, s0 = Some s /\ t = s + d /\ t <= at_
  | RStart => True
  end.

(* "the schedule is finished" as an instance gets to know it: Left() = 0 (Waiter.IsFinished, the
   on-finish callback of the engine's wrapper) or Next() = _, false *)
Definition says_finished (r : ures) : bool :=
  match r with
  | RLeft v => v =? 0
  | RNext _ ok => negb ok
  | RStart => false
  end.

(* executable judgment of a run of the real code: [within] = the whole run ended less than the
   schedule's duration after the schedule was constructed; [fin_seen] = some observer was told
   "finished" (Left() = 0 / on-finish callback); [next_false] = some Next returned ok = false *)
Definition shared_seen_ok_b (within fin_seen next_false : bool) : bool :=
  if within then negb fin_seen && negb next_false else true.

(* finite schedules (doAtSchedule leaves: once / const / line / step, and composites of them):
   [total] tokens, [taken] Next calls made so far *)
Definition shared_fin_ok_b (total taken : nat) (fin_seen next_false : bool) : bool :=
  if (taken <? total)%nat then negb fin_seen && negb next_false
  else if (taken =? total)%nat then negb next_false else true.
