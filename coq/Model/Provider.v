(* Model of the ammo providers at the level of the ENTRY LIST (properties C08 and C14).

   An ammo file is a list of entries (tag, id); reading at position [pos < n] yields the
   entry, reading at [pos = n] is end of file.  Every provider kind is a step machine whose
   transitions are copied branch by branch from the Go loops; one step = one iteration of the
   innermost Go loop that is running.  [run_steps] iterates a machine under a fuel budget and
   records what was sent to the sink, how Run ended, whether the sink was closed and how
   many steps were taken.

   The context is an oracle: [cancelled] is a function of the number of items the sink has
   accepted so far ([cancel = Some k]: the context is seen cancelled from the moment k items
   were sent).  A Go [select] between ctx.Done() and a send picks Done when cancelled (the
   other choice is the same history with k+1).

   Executable definitions only; proofs are in Proofs/ProviderProofs.v. *)
From Coq Require Import List Arith Bool.
Import ListNotations.

Record entry := { e_tag : nat; e_id : nat }.
Definition dummy_entry : entry := {| e_tag := 0; e_id := 0 |}.

(* decoders/decoder.go sentinels, context error, wrappers *)
Inductive err :=
| EAmmoLimit          (* ErrAmmoLimit "ammo limit faced" *)
| EPassLimit          (* ErrPassLimit "passes limit faced" *)
| ENoAmmo             (* ErrNoAmmo "no ammo in file" *)
| ECtx                (* context.Canceled *)
| EUnexpected         (* uripost: errors.New("unexpected behavior") *)
| EPanic              (* index out of range / integer divide by zero *)
| ENoAmmoText         (* grpc/json: errors.New("no ammo in file"), not the decoders sentinel *)
| EOpen               (* grpc Provider.Run "failed to open ammo file" / DecodeProvider.Run "data source open failed", see Model/ProviderFrame.v *)
| EScan               (* grpc/json: errors.Wrap(scanner.Err(), "gPRC Provider scan() err") — bufio.ErrTooLong, see Model/ProviderScan.v *)
| ELoad (e : err).    (* fmt.Errorf("cant LoadAmmo, err: %w", e) *)

Inductive outcome := Ok | Failed (e : err) | OutOfFuel.

Record cfg := { limit : nat; passes : nat; chosen : list nat }.

(* lib/confutil/chosen_cases_filter.go IsChosenCase *)
Definition is_chosen (tag : nat) (ch : list nat) : bool :=
  match ch with
  | [] => true
  | _ => existsb (Nat.eqb tag) ch
  end.

(* the specification's cyclic sequence *)
Definition cyc (src : list entry) (a : nat) : entry := nth (a mod length src) src dummy_entry.
Definition cyc_prefix (src : list entry) (k : nat) : list entry := map (cyc src) (seq 0 k).

(* min of the non-zero bounds among limit and passes*n; None = unbounded *)
Definition bound (lim pas n : nat) : option nat :=
  match lim, pas with
  | 0, 0 => None
  | _, 0 => Some lim
  | 0, _ => Some (pas * n)
  | _, _ => Some (Nat.min lim (pas * n))
  end.

(* ------------------------------------------------------------------------------------ *)
(* generic machine runner *)

Inductive sres (St : Type) :=
| Cont (s : St)                          (* internal step, nothing sent *)
| Emit (e : entry) (s : St)             (* one item accepted by the sink *)
| Stop (o : outcome) (closed : bool).   (* Run returned; was the sink closed *)
Arguments Cont {St} s.
Arguments Emit {St} e s.
Arguments Stop {St} o closed.

Record result := mkres { delivered : list entry; out : outcome; closed : bool; steps : nat }.

Definition is_cancelled (cancel : option nat) (sent : nat) : bool :=
  match cancel with Some k => k <=? sent | None => false end.

Definition bump (r : result) : result :=
  mkres (delivered r) (out r) (closed r) (S (steps r)).
Definition push (e : entry) (r : result) : result :=
  mkres (e :: delivered r) (out r) (closed r) (S (steps r)).

Fixpoint run_steps {St : Type} (step : bool -> St -> sres St) (cancel : option nat)
         (fuel sent : nat) (s : St) : result :=
  match fuel with
  | 0 => mkres [] OutOfFuel false 0
  | S f =>
      match step (is_cancelled cancel sent) s with
      | Cont s' => bump (run_steps step cancel f sent s')
      | Emit e s' => push e (run_steps step cancel f (S sent) s')
      | Stop o c => mkres [] o c 1
      end
  end.

(* ------------------------------------------------------------------------------------ *)
(* HTTP decoders: counter logic of Scan, one loop iteration per step.
   [inloop = false]: the next step starts a new call of Scan (limit check first). *)

Record dstate := { ammoNum : nat; passNum : nat; pos : nat; inloop : bool; iter : nat }.
Definition dinit : dstate := {| ammoNum := 0; passNum := 0; pos := 0; inloop := false; iter := 0 |}.

Inductive dres := DAgain (d : dstate) | DAmmo (e : entry) (d : dstate) | DErr (e : err).

Definition nz (x : nat) : bool := negb (x =? 0).

(* `if d.config.Limit != 0 && d.ammoNum >= d.config.Limit { return nil, ErrAmmoLimit }` *)
Definition limit_faced (lim : nat) (d : dstate) : bool := nz lim && (lim <=? ammoNum d).

(* decoders/uri.go uriDecoder.Scan *)
Definition uri_step (c : bool) (lim pas : nat) (es : list entry) (d : dstate) : dres :=
  if negb (inloop d) && limit_faced lim d then DErr EAmmoLimit
  else if c then DErr ECtx                                       (* ctx.Err() != nil *)
  else match nth_error es (pos d) with
       | None =>                                                 (* !scanner.Scan(), Err()==nil *)
           let p := S (passNum d) in                             (* d.passNum++ *)
           if nz pas && (pas <=? p) then DErr EPassLimit
           else if ammoNum d =? 0 then DErr ENoAmmo
           else DAgain {| ammoNum := ammoNum d; passNum := p; pos := 0; inloop := true; iter := 0 |}
       | Some e =>                                               (* a != nil: d.ammoNum++ *)
           DAmmo e {| ammoNum := S (ammoNum d); passNum := passNum d; pos := S (pos d); inloop := false; iter := 0 |}
       end.

(* decoders/raw.go rawDecoder.Scan *)
Definition raw_step (c : bool) (lim pas : nat) (es : list entry) (d : dstate) : dres :=
  if negb (inloop d) && limit_faced lim d then DErr EAmmoLimit
  else if c then DErr ECtx
  else match nth_error es (pos d) with
       | None =>                                                 (* err == io.EOF *)
           let p := S (passNum d) in
           if nz pas && (pas <=? p) then DErr EPassLimit
           else if ammoNum d =? 0 then DErr ENoAmmo
           else DAgain {| ammoNum := ammoNum d; passNum := p; pos := 0; inloop := true; iter := 0 |}
       | Some e =>
           DAmmo e {| ammoNum := S (ammoNum d); passNum := passNum d; pos := S (pos d); inloop := false; iter := 0 |}
       end.

(* decoders/uripost.go uripostDecoder.Scan: `for i := 0; i < 2; i++ { for { readBlock … } seek }` *)
Definition uripost_step (c : bool) (lim pas : nat) (es : list entry) (d : dstate) : dres :=
  if negb (inloop d) && limit_faced lim d then DErr EAmmoLimit
  else
    let i := if inloop d then iter d else 0 in
    if 2 <=? i then DErr EUnexpected                             (* loop left: "unexpected behavior" *)
    else if c then DErr ECtx
    else match nth_error es (pos d) with
         | None =>                                               (* err == io.EOF: break; seek file *)
             let p := S (passNum d) in
             if nz pas && (pas <=? p) then DErr EPassLimit
             else if ammoNum d =? 0 then DErr ENoAmmo
             else DAgain {| ammoNum := ammoNum d; passNum := p; pos := 0; inloop := true; iter := S i |}
         | Some e =>
             DAmmo e {| ammoNum := S (ammoNum d); passNum := passNum d; pos := S (pos d); inloop := false; iter := 0 |}
         end.

(* decoders/jsonline.go jsonlineDecoder.Scan, stream of JSON values (d.ammos == nil) *)
Definition jsonl_step (c : bool) (lim pas : nat) (es : list entry) (d : dstate) : dres :=
  if negb (inloop d) && limit_faced lim d then DErr EAmmoLimit
  else if nz pas && (pas <=? passNum d) then DErr EPassLimit
  else match nth_error es (pos d) with
       | Some e =>                                               (* d.line++; d.ammoNum++ *)
           DAmmo e {| ammoNum := S (ammoNum d); passNum := passNum d; pos := S (pos d); inloop := false; iter := 0 |}
       | None =>                                                 (* io.EOF: go to next pass *)
           if ammoNum d =? 0 then DErr ENoAmmo
           else DAgain {| ammoNum := ammoNum d; passNum := S (passNum d); pos := 0; inloop := true; iter := 0 |}
       end.

(* decoders/jsonline.go scanAmmos (file is one JSON array, read at construction) *)
Definition jsonarr_step (c : bool) (lim pas : nat) (es : list entry) (d : dstate) : dres :=
  if limit_faced lim d then DErr EAmmoLimit
  else
    let len := length es in
    if len =? 0 then DErr ENoAmmo
    else if nz pas && (pas <=? passNum d) then DErr EPassLimit
    else
      let i := ammoNum d mod len in
      match nth_error es i with
      | None => DErr EPanic
      | Some e =>
          let p := if i =? len - 1 then S (passNum d) else passNum d in           (* d.passNum++ *)
          DAmmo e {| ammoNum := S (ammoNum d); passNum := p; pos := 0; inloop := false; iter := 0 |}
      end.

Inductive dkind := DUri | DUripost | DRaw | DJsonl | DJsonArr.

Definition dec_step (k : dkind) : bool -> nat -> nat -> list entry -> dstate -> dres :=
  match k with
  | DUri => uri_step
  | DUripost => uripost_step
  | DRaw => raw_step
  | DJsonl => jsonl_step
  | DJsonArr => jsonarr_step
  end.

(* A decoder driven directly (no provider around it): Scan is called until it returns an error;
   what it produced and that error.  [None]: the fuel ran out first (a decoder without bounds). *)
Fixpoint dec_run (k : dkind) (lim pas : nat) (es : list entry) (fuel : nat) (d : dstate)
  : list entry * option err :=
  match fuel with
  | 0 => ([], None)
  | S f =>
      match dec_step k false lim pas es d with
      | DAgain d' => dec_run k lim pas es f d'
      | DAmmo e d' => let '(l, r) := dec_run k lim pas es f d' in (e :: l, r)
      | DErr e => ([], Some e)
      end
  end.

(* ------------------------------------------------------------------------------------ *)
(* components/providers/http/provider/provider.go *)

Inductive hstate :=
| HStream (d : dstate) (dl : nat)               (* runFullScan, dl = delivered *)
| HLoad (d : dstate) (acc : list entry)         (* loadAmmo -> Decoder.LoadAmmo *)
| HPre (ammos : list entry) (a : nat).          (* runPreloaded, a = ammoNum *)

Definition is_limit_err (e : err) : bool :=
  match e with EAmmoLimit | EPassLimit => true | _ => false end.

(* what Provider.Run hands back for the error of runFullScan / runPreloaded.
   runFullScan: the sentinels become nil — or ErrNoAmmo when nothing was delivered (the
   ChosenCases filter matched nothing in all passes) *)
Definition fullscan_result (dl : nat) (e : err) : outcome :=
  if is_limit_err e then (if dl =? 0 then Failed ENoAmmo else Ok) else Failed e.
Definition preloaded_result (e : err) : outcome := if is_limit_err e then Ok else Failed e.

Definition http_step (k : dkind) (cf : cfg) (es : list entry) (c : bool) (s : hstate) : sres hstate :=
  match s with
  | HStream d dl =>
      if negb (inloop d) && c then Stop (Failed ECtx) true          (* ctx.Err() at the loop top *)
      else if negb (inloop d) && nz (limit cf) && (limit cf <=? dl)
      then Stop Ok true                          (* `if p.Limit != 0 && delivered >= p.Limit { return nil }` *)
      else
        (* the decoder is built with Limit = 0 (http.NewProvider): Limit counts delivered ammo *)
        match dec_step k c 0 (passes cf) es d with
        | DAgain d' => Cont (HStream d' dl)
        | DErr e => Stop (fullscan_result dl e) true
        | DAmmo e d' =>
            if negb (is_chosen (e_tag e) (chosen cf)) then
              (* nothing delivered and the decoder has been through the whole file: ErrNoAmmo *)
              if (dl =? 0) && (1 <=? passNum d') then Stop (Failed ENoAmmo) true
              else Cont (HStream d' dl)                             (* continue *)
            else if c then Stop (Failed ECtx) true                  (* select: <-ctx.Done() *)
            else Emit e (HStream d' (S dl))                         (* select: p.Sink <- ammo; delivered++ *)
        end
  | HLoad d acc =>
      (* protoDecoder.LoadAmmo: Passes = 1, Limit = 0, scan until an error *)
      match dec_step k c 0 1 es d with
      | DAgain d' => Cont (HLoad d' acc)
      | DAmmo e d' => Cont (HLoad d' (acc ++ [e]))
      | DErr EPassLimit =>
          let ammos := filter (fun e => is_chosen (e_tag e) (chosen cf)) acc in
          match ammos with
          | [] => Stop (preloaded_result ENoAmmo) true              (* runPreloaded: length == 0 *)
          | _ => Cont (HPre ammos 0)
          end
      | DErr e => Stop (Failed (ELoad e)) true
      end
  | HPre ammos a =>
      if c then Stop (Failed ECtx) true
      else
        match length ammos with
        | 0 => Stop (Failed EPanic) true
        | S _ =>
            let i := a mod length ammos in
            let p := a / length ammos in
            if nz (passes cf) && (passes cf <=? p) then Stop (preloaded_result EPassLimit) true
            else if nz (limit cf) && (limit cf <=? a) then Stop (preloaded_result EAmmoLimit) true
            else match nth_error ammos i with
                 | None => Stop (Failed EPanic) true
                 | Some e => Emit e (HPre ammos (S a))
                 end
        end
  end.

Definition http_init (preload : bool) : hstate :=
  if preload then HLoad dinit [] else HStream dinit 0.

Definition http_run (k : dkind) (preload : bool) (cf : cfg) (es : list entry)
           (cancel : option nat) (fuel : nat) : result :=
  run_steps (http_step k cf es) cancel fuel 0 (http_init preload).

(* ------------------------------------------------------------------------------------ *)
(* components/providers/scenario/provider.go Provider.Run: cyclic index; `defer close(p.sink)` *)

Definition scen_step (cf : cfg) (es : list entry) (c : bool) (a : nat) : sres nat :=
  match length es with
  | 0 => Stop (Failed ENoAmmo) true
  | S _ =>
      if c then Stop (Failed ECtx) true
      else
        let i := a mod length es in
        let p := a / length es in
        if nz (passes cf) && (passes cf <=? p) then Stop Ok true          (* return nil *)
        else if nz (limit cf) && (limit cf <=? a) then Stop Ok true       (* return nil *)
        else match nth_error es i with
             | None => Stop (Failed EPanic) true
             | Some e => Emit e (S a)
             end
  end.

Definition scen_run (cf : cfg) (es : list entry) (cancel : option nat) (fuel : nat) : result :=
  run_steps (scen_step cf es) cancel fuel 0 0.

(* ------------------------------------------------------------------------------------ *)
(* components/providers/grpc/grpcjson/provider.go start (sink closed by grpc Provider.Run) *)

Record gstate := { g_ammo : nat; g_pass : nat; g_pos : nat; g_inner : bool }.
Definition ginit : gstate := {| g_ammo := 0; g_pass := 0; g_pos := 0; g_inner := false |}.

(* after the inner loop: scanner.Err(); `if ammoNum == 0 { return errors.New("no ammo in file") }`;
   `if p.Limit != 0 && ammoNum >= p.Limit { break }`;
   `if p.Passes != 0 && passNum >= p.Passes { break }`; Seek *)
Definition g_after (cf : cfg) (g : gstate) : sres gstate :=
  if g_ammo g =? 0 then Stop (Failed ENoAmmoText) true     (* a whole pass delivered nothing *)
  else if nz (limit cf) && (limit cf <=? g_ammo g) then Stop Ok true
  else if nz (passes cf) && (passes cf <=? g_pass g) then Stop Ok true
  else Cont {| g_ammo := g_ammo g; g_pass := g_pass g; g_pos := 0; g_inner := false |}.

Definition grpcjson_step (cf : cfg) (es : list entry) (c : bool) (g : gstate) : sres gstate :=
  if negb (g_inner g) then
    (* outer loop head: passNum++, new scanner *)
    Cont {| g_ammo := g_ammo g; g_pass := S (g_pass g); g_pos := g_pos g; g_inner := true |}
  else
    (* `for line := 1; scanner.Scan() && (p.Limit == 0 || ammoNum < p.Limit); line++` *)
    match nth_error es (g_pos g) with
    | None => g_after cf g
    | Some e =>
        let g1 := {| g_ammo := g_ammo g; g_pass := g_pass g; g_pos := S (g_pos g); g_inner := true |} in
        if (limit cf =? 0) || (g_ammo g <? limit cf) then
          if negb (is_chosen (e_tag e) (chosen cf)) then Cont g1
          else if c then Stop Ok true                               (* case <-ctx.Done(): return nil *)
          else Emit e {| g_ammo := S (g_ammo g); g_pass := g_pass g; g_pos := S (g_pos g); g_inner := true |}
        else g_after cf g1
    end.

Definition grpcjson_run (cf : cfg) (es : list entry) (cancel : option nat) (fuel : nat) : result :=
  run_steps (grpcjson_step cf es) cancel fuel 0 ginit.

(* ------------------------------------------------------------------------------------ *)
(* core/provider/decoder.go DecodeProvider.Run over lib/ioutil2 MultiPassReader *)

Record pstate := { p_ammo : nat; p_passes : nat; p_pos : nat }.
Definition pinit : pstate := {| p_ammo := 0; p_passes := 0; p_pos := 0 |}.

Definition decode_step (cf : cfg) (es : list entry) (c : bool) (p : pstate) : sres pstate :=
  (* `for ; p.conf.Limit <= 0 || ammoNum < p.conf.Limit; ammoNum++` *)
  if nz (limit cf) && (limit cf <=? p_ammo p) then Stop Ok true   (* "Ammo limit is reached" *)
  else
    match nth_error es (p_pos p) with
    | Some e =>
        if c then Stop Ok true                                     (* case <-ctx.Done(): return nil *)
        else Emit e {| p_ammo := S (p_ammo p); p_passes := p_passes p; p_pos := S (p_pos p) |}
    | None =>
        (* the source reports io.EOF *)
        if passes cf =? 1 then Stop Ok true                        (* NewMultiPassReader returns r itself *)
        else
          let k := S (p_passes p) in                               (* r.passesCount++ *)
          if p_pos p =? 0 then Stop Ok true       (* nothing read / nothing decoded in the pass (passGuard): io.EOF, "Ammo finished" *)
          else if (passes cf =? 0) || (k <? passes cf)
          then Cont {| p_ammo := p_ammo p; p_passes := k; p_pos := 0 |}   (* Seek(0); Read returns (0, nil) *)
          else Stop Ok true                                        (* io.EOF reaches the decoder: "Ammo finished" *)
    end.

Definition decode_run (cf : cfg) (es : list entry) (cancel : option nat) (fuel : nat) : result :=
  run_steps (decode_step cf es) cancel fuel 0 pinit.

(* ------------------------------------------------------------------------------------ *)
(* all provider kinds of the property *)

Inductive pkind :=
| KHttp (k : dkind) (preload : bool)
| KScenario          (* http/scenario and grpc/scenario share scenario.Provider[A].Run *)
| KGrpcJson
| KDecode.           (* provider.NewJSONProvider / DecodeProvider *)

Definition run (k : pkind) (cf : cfg) (es : list entry) (cancel : option nat) (fuel : nat) : result :=
  match k with
  | KHttp d pre => http_run d pre cf es cancel fuel
  | KScenario => scen_run cf es cancel fuel
  | KGrpcJson => grpcjson_run cf es cancel fuel
  | KDecode => decode_run cf es cancel fuel
  end.

(* The specification, executable: what C08 demands of a run with bound [b] that was not
   cancelled, given the observation (count, outcome, closed). *)
Definition min_opt (a : option nat) (b : option nat) : option nat :=
  match a, b with
  | None, x => x
  | x, None => x
  | Some x, Some y => Some (Nat.min x y)
  end.

(* ------------------------------------------------------------------------------------ *)
(* The executable specification of C08, evaluated on the IMPLEMENTATION's observation:
   [obs] = ids of the acquired entries (in order when one consumer took them, as a multiset
   otherwise), [cl] = Acquire reported end of ammo afterwards, [rc] = class of Run's result.
   [cancel = Some m]: the harness cancelled the context after m items had been taken. *)

Definition ids (l : list entry) : list nat := map e_id l.

Fixpoint list_eqb (a b : list nat) : bool :=
  match a, b with
  | [], [] => true
  | x :: a', y :: b' => (x =? y) && list_eqb a' b'
  | _, _ => false
  end.

Definition count_id (i : nat) (l : list nat) : nat := length (filter (Nat.eqb i) l).

Definition same_seq (ordered : bool) (n : nat) (a b : list nat) : bool :=
  if ordered then list_eqb a b
  else (length a =? length b) && forallb (fun i => count_id i a =? count_id i b) (seq 0 n).

Inductive runclass := ROk | RCanceled | RNoAmmo | RErr | RHang | RRefused (* the constructor refused the file *).
Definition is_rok (r : runclass) : bool := match r with ROk => true | _ => false end.
Definition is_rok_or_canceled (r : runclass) : bool :=
  match r with ROk | RCanceled => true | _ => false end.
Definition is_rhang (r : runclass) : bool := match r with RHang => true | _ => false end.

(* newJsonlineDecoder peeks at the first JSON token (isArray): a jsonline file without any JSON
   value is refused by the constructor (io.EOF), there is no provider to run *)
Definition constructor_refuses (k : pkind) (es : list entry) : bool :=
  match k, es with
  | KHttp DJsonl _, [] => true
  | _, _ => false
  end.

(* after a cancellation the provider may only have produced what its sink could buffer:
   the largest sink is grpc's (128) *)
Definition slack : nat := 200.

Definition spec_b (lim pas : nat) (es : list entry) (cancel : option nat) (ordered : bool)
           (obs : list nat) (cl : bool) (rc : runclass) : bool :=
  let n := length es in
  let k := length obs in
  match es with
  | [] =>
      (* a source without entries is outside C08's quantifier (C13 decides how it is rejected);
         what C08 still demands: nothing delivered, consumers not kept blocked, Run returns *)
      (k =? 0) && cl && negb (is_rhang rc)
  | _ =>
  same_seq ordered n obs (ids (cyc_prefix es k)) && cl &&
  match cancel, bound lim pas n with
  | None, Some b => (k =? b) && is_rok rc
  | None, None => false                     (* an unbounded run that is not cancelled never ends *)
  | Some m, Some b =>
      if b <? m then (k =? b) && is_rok rc
      else (m <=? k) && (k <=? b) && (k <=? m + slack) && is_rok_or_canceled rc
  | Some m, None => (m <=? k) && (k <=? m + slack) && is_rok_or_canceled rc
  end
  end.

(* a decoder driven directly, [max] = how many items the harness takes at most: the cyclic prefix
   of length min(bound, max) in order; with a bound below max the decoder then reports one of its
   two sentinels ([sentinel]), without a bound it is still producing *)
Definition spec_dec (lim pas : nat) (es : list entry) (max : nat) (obs : list nat) (sentinel ended : bool) : bool :=
  let n := length es in
  match es with
  | [] => (length obs =? 0) && ended
  | _ =>
    list_eqb obs (ids (cyc_prefix es (length obs))) &&
    match bound lim pas n with
    | Some b => if b <? max then (length obs =? b) && sentinel else (length obs =? max) && negb ended
    | None => (length obs =? max) && negb ended
    end
  end.

(* The provider under the engine, the engine's context cancelled inside shot number [m] (0: before
   Engine.Run): [shots] = the ids shot by [inst] instances (a multiset).  An instance that was
   cancelled between Acquire and Shoot holds an item that was never shot, so the shots are the
   acquired cyclic prefix minus at most one item per instance; the instances stop within [slack]
   shots, never beyond a bound; Engine.Run is back with nil or the context's error and
   Engine.Wait returns (no instance is left blocked in Acquire). *)
Definition spec_engine_cancel (lim pas : nat) (es : list entry) (m inst : nat) (shots : list nat)
           (waited : bool) (rc : runclass) : bool :=
  let n := length es in
  let k := length shots in
  waited && is_rok_or_canceled rc && (m <=? k) && (k <=? m + slack)
  && match bound lim pas n with Some b => k <=? b | None => true end
  && forallb (fun i => i <? n) shots
  && existsb (fun extra =>
                forallb (fun i => count_id i shots <=? count_id i (ids (cyc_prefix es (k + extra)))) (seq 0 n))
             (seq 0 (S inst)).

(* The consumer side: what the next Acquire of any instance does once the provider is done
   and the sink is drained (receive from a closed channel returns !ok; from an open empty
   channel it blocks). *)
Inductive acq := AcqEndOfAmmo | AcqBlocked.
Definition acquire_after (r : result) : acq := if closed r then AcqEndOfAmmo else AcqBlocked.
