(* The Waiter's lateness bookkeeping under the start loop (Model/StartLoop.v).

   core/coreutil/waiter.go keeps, besides the cached clock reading, [overdueDuration]: how late the
   event it handed out last was (0 after a timer wait, after a cancelled or finished Wait).  It exists
   for IsSlowDown (property C04); the start loop never asks IsSlowDown, and Wait itself must not let
   it influence WHEN a token is released: a token is released only when a clock reading shows that
   its instant has come.

       waitFor := next.Sub(w.lastNow)
       if waitFor <= 0 { overdue = -waitFor; if overdue < Max { lastNow = now; overdue = now - next }; return true }
       w.lastNow = time.Now(); waitFor = next.Sub(w.lastNow)
       if waitFor <= 0 { overdue = -waitFor; return true }          <- the release rule
       overdue = 0; sleep on the timer / ctx.Done

   [wlstep catchup]: the loop step with the overdue bookkeeping made explicit.  [catchup = false] is
   the code.  [catchup = true] is the variant whose release rule is [waitFor <= overdue] ("a token due
   sooner than the previous one was late is handed out at once"); it is used only to show that the
   theorems tell the two apart.

   Executable definitions only; proofs are in Proofs/StartWaiterProofs.v. *)
From Coq Require Import List ZArith Bool Arith.
From PV Require Import Model.StartLoop.
Import ListNotations.
Local Open Scope Z_scope.

Definition wlstate := (sstate * Z)%type.   (* loop state, overdueDuration *)

Definition wlinit (toks : list Z) (t0 : Z) : wlstate := (sinit toks t0, 0).

Definition release_now (catchup : bool) (wait_for ov : Z) : bool :=
  if catchup then wait_for <=? ov else wait_for <=? 0.

Definition wlstep (catchup : bool) (a : saction) (w : wlstate) : option wlstate :=
  let (s, ov) := w in
  match a with
  | SLoop fail prefer_cancel =>
      match spc s with
      | LEntry =>
          match cancelled s with
          | Some c => Some (set_spc s (LEnd (ECancelled c)), 0)
          | None => Some (set_spc s LNext, ov)
          end
      | LNext =>
          match rest s with
          | [] => Some (set_spc s (LEnd EExhausted), 0)
          | tk :: r => Some (mkSS (LHave tk) r (started s) (lastNow s) (clock s) (cancelled s), ov)
          end
      | LHave tk =>
          let reread :=
            let wait_for := tk - clock s in
            if release_now catchup wait_for ov
            then (mkSS (LCreate tk) (rest s) (started s) (Some (clock s)) (clock s) (cancelled s), 0 - wait_for)
            else (mkSS (LSleep tk) (rest s) (started s) (Some (clock s)) (clock s) (cancelled s), 0) in
          match lastNow s with
          | Some ln =>
              if tk - ln <=? 0 then
                if ln - tk <? max_overdue_ns
                then Some (mkSS (LCreate tk) (rest s) (started s) (Some (clock s)) (clock s) (cancelled s), clock s - tk)
                else Some (set_spc s (LCreate tk), ln - tk)
              else Some reread
          | None => Some reread
          end
      | _ => match sstep a s with Some s' => Some (s', ov) | None => None end
      end
  | _ => match sstep a s with Some s' => Some (s', ov) | None => None end
  end.

Fixpoint wlrun (catchup : bool) (l : list saction) (w : wlstate) : option wlstate :=
  match l with
  | [] => Some w
  | a :: r => match wlstep catchup a w with Some w' => wlrun catchup r w' | None => None end
  end.

(* Canonical complete run for the correspondence driver (`wait` cases): the caller spends [d_i]
   between the return of the i-th successful Wait and the next call (the creation of an instance,
   the work between two events); no token is waited for longer than necessary; never cancelled.
   [works]: the d_i, consumed one per created instance. *)
Definition wldrive_action (works : list Z) (s : sstate) : saction * list Z :=
  match spc s with
  | LSleep tk => (if tk <=? clock s then SLoop false true else STick (tk - clock s), works)
  | LEntry =>
      match started s, works with
      | _ :: _, d :: r => if 0 <? d then (STick d, 0 :: r) else (SLoop false true, r)
      | _, _ => (SLoop false true, works)
      end
  | _ => (SLoop false true, works)
  end.

Fixpoint wldrive (catchup : bool) (fuel : nat) (works : list Z) (w : wlstate) : wlstate :=
  match fuel with
  | O => w
  | S f =>
      let (a, works') := wldrive_action works (fst w) in
      match wlstep catchup a w with
      | Some w' => wldrive catchup f works' w'
      | None => w
      end
  end.

(* per-instant inequality of a state's own history, evaluated at every creation instant *)
Definition not_ahead_b (toks : list Z) (s : sstate) : bool :=
  forallb (fun ic => (started_by (snd ic) s <=? released_by (snd ic) toks)%nat) (creations s).
