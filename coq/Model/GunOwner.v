(* Engine-level ownership model for property C11 (a): who creates, binds and shoots which gun.
   core/engine/engine.go (warmUpGun, startInstances, runNewInstance) and instance.go
   (newInstance: gun := newGun(); gun.Bind(...); Run: i.gun.Shoot(ammo) in the instance's own
   goroutine).  Self-contained; executable definitions only.

   Observable events (what a recording gun factory sees):
     OMake g     the pool's gun factory returned object g (for the warm-up or for an instance)
     OBind i g   newInstance bound gun g for instance i
     OStart r g  goroutine r entered  g.Shoot
     OEnd r g    goroutine r returned from g.Shoot
   The model is the product of the instance programs  Make; Bind; (Start; End)*  over a shared
   supply of fresh objects; any interleaving is a list of events accepted by [orun]. *)
From Coq Require Import List NArith Bool Arith.
Import ListNotations.

Inductive oev :=
| OMake (g : nat)
| OBind (i g : nat)
| OStart (r g : nat)
| OEnd (r g : nat).

Record inst := mkInst { in_id : nat; in_gun : nat; in_owner : option nat; in_busy : bool }.

Record ost := mkOst {
  o_next : nat;              (* objects handed out so far: the next fresh gun *)
  o_unbound : list nat;      (* made, not (yet) bound: in flight between newGun and Bind, or the warm-up gun *)
  o_insts : list inst        (* instances holding a bound gun *)
}.

Definition oinit : ost := mkOst 0 [] [].

Fixpoint mem_nat (x : nat) (l : list nat) : bool :=
  match l with [] => false | y :: r => Nat.eqb x y || mem_nat x r end.

Fixpoint remove_nat (x : nat) (l : list nat) : list nat :=
  match l with [] => [] | y :: r => if Nat.eqb x y then r else y :: remove_nat x r end.

Fixpoint find_gun (g : nat) (l : list inst) : option inst :=
  match l with
  | [] => None
  | x :: r => if Nat.eqb (in_gun x) g then Some x else find_gun g r
  end.

Fixpoint has_id (i : nat) (l : list inst) : bool :=
  match l with [] => false | x :: r => Nat.eqb (in_id x) i || has_id i r end.

Fixpoint owns_other (r g : nat) (l : list inst) : bool :=
  match l with
  | [] => false
  | x :: rest =>
      (match in_owner x with Some r' => Nat.eqb r' r && negb (Nat.eqb (in_gun x) g) | None => false end)
      || owns_other r g rest
  end.

Fixpoint update_gun (g : nat) (f : inst -> inst) (l : list inst) : list inst :=
  match l with
  | [] => []
  | x :: r => if Nat.eqb (in_gun x) g then f x :: r else x :: update_gun g f r
  end.

Definition ostep (st : ost) (e : oev) : option ost :=
  match e with
  | OMake g =>
      if Nat.eqb g (o_next st) then Some (mkOst (S (o_next st)) (g :: o_unbound st) (o_insts st)) else None
  | OBind i g =>
      if mem_nat g (o_unbound st) && negb (has_id i (o_insts st))
      then Some (mkOst (o_next st) (remove_nat g (o_unbound st)) (mkInst i g None false :: o_insts st))
      else None
  | OStart r g =>
      match find_gun g (o_insts st) with
      | Some x =>
          if in_busy x then None
          else
            match in_owner x with
            | Some r' =>
                if Nat.eqb r' r
                then Some (mkOst (o_next st) (o_unbound st)
                                 (update_gun g (fun y => mkInst (in_id y) (in_gun y) (in_owner y) true) (o_insts st)))
                else None
            | None =>
                if owns_other r g (o_insts st) then None
                else Some (mkOst (o_next st) (o_unbound st)
                                 (update_gun g (fun y => mkInst (in_id y) (in_gun y) (Some r) true) (o_insts st)))
            end
      | None => None
      end
  | OEnd r g =>
      match find_gun g (o_insts st) with
      | Some x =>
          if in_busy x then
            match in_owner x with
            | Some r' =>
                if Nat.eqb r' r
                then Some (mkOst (o_next st) (o_unbound st)
                                 (update_gun g (fun y => mkInst (in_id y) (in_gun y) (in_owner y) false) (o_insts st)))
                else None
            | None => None
            end
          else None
      | None => None
      end
  end.

Fixpoint orun (st : ost) (tr : list oev) : option ost :=
  match tr with
  | [] => Some st
  | e :: r => match ostep st e with Some st' => orun st' r | None => None end
  end.

(* index of the first event the model cannot take (for the replay message) *)
Fixpoint orun_stuck (st : ost) (tr : list oev) (k : nat) : option nat :=
  match tr with
  | [] => None
  | e :: r => match ostep st e with Some st' => orun_stuck st' r (S k) | None => Some k end
  end.

(* ---------- the specification, as an executable check of a trace ---------- *)

(* Shoot calls on gun g never overlap: Start and End alternate, beginning with Start.
   [alt_run g busy tr] = Some (busy at the end), None when two calls overlap or an End has no Start *)
Fixpoint alt_run (g : nat) (busy : bool) (tr : list oev) : option bool :=
  match tr with
  | [] => Some busy
  | OStart _ g' :: r => if Nat.eqb g' g then (if busy then None else alt_run g true r) else alt_run g busy r
  | OEnd _ g' :: r => if Nat.eqb g' g then (if busy then alt_run g false r else None) else alt_run g busy r
  | _ :: r => alt_run g busy r
  end.

Definition alternates (g : nat) (busy : bool) (tr : list oev) : bool :=
  match alt_run g busy tr with Some _ => true | None => false end.

Definition guns_of (tr : list oev) : list nat :=
  flat_map (fun e => match e with OStart _ g | OEnd _ g | OMake g | OBind _ g => [g] end) tr.

Fixpoint starts_of (tr : list oev) : list (nat * nat) :=
  match tr with
  | [] => []
  | OStart r g :: t => (r, g) :: starts_of t
  | _ :: t => starts_of t
  end.

Fixpoint binds_of (tr : list oev) : list (nat * nat) :=
  match tr with
  | [] => []
  | OBind i g :: t => (i, g) :: binds_of t
  | _ :: t => binds_of t
  end.

Fixpoint makes_of (tr : list oev) : list nat :=
  match tr with
  | [] => []
  | OMake g :: t => g :: makes_of t
  | _ :: t => makes_of t
  end.

(* functional both ways: a relation given as a list of pairs is a partial injection *)
Definition pairs_injective (l : list (nat * nat)) : bool :=
  forallb (fun p => forallb (fun q =>
     (negb (Nat.eqb (fst p) (fst q)) || Nat.eqb (snd p) (snd q)) &&
     (negb (Nat.eqb (snd p) (snd q)) || Nat.eqb (fst p) (fst q))) l) l.

Fixpoint nodup_nat (l : list nat) : bool :=
  match l with [] => true | x :: r => negb (mem_nat x r) && nodup_nat r end.

Definition exclusive_b (tr : list oev) : bool :=
  nodup_nat (makes_of tr)                                   (* the factory never hands out an object twice *)
  && nodup_nat (map fst (binds_of tr)) && nodup_nat (map snd (binds_of tr))   (* one gun per instance, one instance per gun *)
  && forallb (fun p => mem_nat (snd p) (map snd (binds_of tr))) (starts_of tr) (* only bound guns are shot *)
  && pairs_injective (starts_of tr)                         (* one goroutine per gun, one gun per goroutine *)
  && forallb (fun g => alternates g false tr) (guns_of tr).  (* Shoot calls on a gun never overlap *)
