(* Shared pieces of the http ammo decoder models (C07/C13): outcomes with explicit
   Err/Panic/OutOfFuel, in-file header lines (util.DecodeHeader + http.Header.Set), entries,
   request materialisation (Ammo.BuildRequest + util.EnrichRequestWithHeaders).
   Third-party parsers are parameters (Section variables). Definitions only. *)
From Coq Require Import List NArith ZArith Bool.
From PV Require Import Lib.AmmoBytes Lib.AmmoDecimal Lib.AmmoLines.
Import ListNotations.
Local Open Scope N_scope.

Inductive err :=
| EHeaderFormat      (* util.ErrHeaderFormat *)
| EEmptyKey          (* util.ErrEmptyKey *)
| EUrlParse          (* url.Parse failed *)
| EBadMethod         (* Ammo.Setup: invalid HTTP method *)
| ETooLong           (* bufio.Scanner: token too long *)
| EAmmoFormat        (* uripost.ErrAmmoFormat *)
| EWrongSize         (* uripost.ErrWrongSize / raw "invalid payload size line" *)
| EBadSize           (* size rejected by the decoder (negative) *)
| EShortRead         (* io.ReadFull: EOF / unexpected EOF *)
| EUnexpected        (* uripost: "unexpected behavior" *)
| EJson.             (* encoding/json error *)

(* result of one Decoder.Scan call *)
Inductive sres (E : Type) :=
| SDeliver (e : E)
| SErr (e : err)
| SPanic
| SNoAmmo | SPassLimit | SAmmoLimit
| SOutOfFuel.
Arguments SDeliver {E} e.
Arguments SErr {E} e.
Arguments SPanic {E}.
Arguments SNoAmmo {E}.
Arguments SPassLimit {E}.
Arguments SAmmoLimit {E}.
Arguments SOutOfFuel {E}.

Definition is_deliver {E} (r : sres E) : bool := match r with SDeliver _ => true | _ => false end.

(* decoder configuration: Limit and Passes (0 = unlimited) *)
Record dcfg := { c_limit : N; c_passes : N }.
Definition cfg0 : dcfg := {| c_limit := 0; c_passes := 0 |}.

Definition limit_hit (c : dcfg) (ammo_num : N) : bool :=
  negb (N.eqb (c_limit c) 0) && N.leb (c_limit c) ammo_num.
Definition passes_hit (c : dcfg) (pass_num : N) : bool :=
  negb (N.eqb (c_passes c) 0) && N.leb (c_passes c) pass_num.

(* ---------- header lines ---------- *)
Definition headers := list (bytes * bytes).

(* http.Header.Set on an (already canonical) key: replace or add *)
Fixpoint hset (k v : bytes) (h : headers) : headers :=
  match h with
  | [] => [(k, v)]
  | (k', v') :: r => if beq k k' then (k, v) :: r else (k', v') :: hset k v r
  end.

(* util.DecodeHeader on a trimmed line *)
Definition decode_header (h : bytes) : bytes * bytes + err :=
  match h with
  | a :: r =>
      if negb (N.ltb (nlen h) 3) && N.eqb a LBR && N.eqb (last_byte h) RBR then
        let inner := removelast r in
        let '(k, v, found) := cut COLON inner in
        if found then
          let k' := trim k in
          if is_nil k' then inr EEmptyKey else inl (k', trim v)
        else inr EHeaderFormat
      else inr EHeaderFormat
  | [] => inr EHeaderFormat
  end.

(* commonHeader.Set(key, val) *)
Definition header_set (k v : bytes) (h : headers) : headers := hset (canon_key k) v h.

(* ---------- decoders.readBody(reader, size) ----------
   Reads exactly [size] bytes of a body whose size was read from the input. A negative size is
   an error. Memory: min(size, maxBodyPrealloc) is reserved up front, the buffer then grows
   only with the data actually read; the amount is an explicit effect of [AOk]/[AShort]. *)
Inductive ares :=
| AOk (buf rest : bytes) (alloc : N)
| AShort (alloc : N)             (* io.EOF / io.ErrUnexpectedEOF: fewer than size bytes left *)
| AErr (e : err)
| APanic.

Definition max_prealloc : N := 1048576.
(* the theorems still carry this bound on body sizes (2^48, the former makeslice limit) *)
Definition max_alloc : Z := 281474976710656.

Definition alloc_of (n avail : N) : N := N.max (N.min n max_prealloc) (N.min n avail).

Definition alloc_read (size : Z) (rest : bytes) : ares :=
  if Z.ltb size 0 then AErr EBadSize
  else
    let n := Z.to_N size in
    let a := alloc_of n (nlen rest) in
    match read_full n rest with
    | Some (b, r) => AOk b r a
    | None => AShort a
    end.

(* ---------- rendering of lines ---------- *)
Definition header_text (kl k kt vl v vt : bytes) : bytes :=
  LBR :: (kl ++ k ++ kt) ++ COLON :: (vl ++ v ++ vt) ++ [RBR].


(* layout of one line: the blanks around it and the CR flag *)
Record lay := { l_lead : bytes; l_trail : bytes; l_cr : bool }.


Definition wrap_line (l : lay) (text : bytes) : bytes :=
  l_lead l ++ text ++ l_trail l ++ (if l_cr l then [CR] else []).

Definition wf_lay (l : lay) : bool := lblank (l_lead l) && lblank (l_trail l).

(* header keys and values that survive the trip: no surrounding white space, no LF, no ':'
   in the key *)
Definition wf_key (k : bytes) : bool := tight k && negb (has COLON k) && nolf k.
Definition wf_val (v : bytes) : bool := (is_nil v || tight v) && nolf v.

(* ---------- entries ---------- *)
Record entry := {
  e_method : bytes;
  e_url : bytes;       (* the string handed to http.NewRequest *)
  e_body : bytes;
  e_tag : bytes;
  e_headers : headers  (* effective in-file / in-entity headers, canonical keys *)
}.

(* what the harness prints for one delivered request *)
Record reqsum := {
  r_method : bytes;
  r_url : bytes;       (* req.URL.String() *)
  r_host : bytes;      (* req.Host *)
  r_headers : headers; (* req.Header, sorted by the printer *)
  r_body : bytes;
  r_tag : bytes
}.

Definition GET : bytes := [71; 69; 84].
Definition POST : bytes := [80; 79; 83; 84].
Definition HOST : bytes := [72; 111; 115; 116].

(* netutil.ValidHTTPMethod / net/http validMethod: "" means GET, otherwise a token *)
Definition valid_method (m : bytes) : bool :=
  match m with [] => true | _ => forallb token_byte m end.

Section Oracles.
  (* net/url.Parse: None on error, otherwise (URL.String(), URL.Host) *)
  Variable url_parse : bytes -> option (bytes * bytes).

  Definition url_ok (u : bytes) : bool :=
    match url_parse u with Some _ => true | None => false end.

  (* Ammo.Setup(method, url, body, header, tag) *)
  Definition setup (m u body : bytes) (h : headers) (tag : bytes) : entry + err :=
    if negb (valid_method m) then inr EBadMethod
    else if negb (url_ok u) then inr EUrlParse
    else inl {| e_method := m; e_url := u; e_body := body; e_tag := tag; e_headers := h |}.

  (* util.EnrichRequestWithHeaders on a request whose Header is empty: every key is
     canonicalised again; "Host" fills req.Host when that is empty, is dropped otherwise *)
  Fixpoint enrich (host : bytes) (hs : headers) (acc : headers) : bytes * headers :=
    match hs with
    | [] => (host, acc)
    | (k, v) :: r =>
        let k' := canon_key k in
        if beq k' HOST
        then enrich (if is_nil host then v else host) r acc
        else enrich host r (hset k' v acc)
    end.

  (* Ammo.BuildRequest: http.NewRequest(method, url, body) + EnrichRequestWithHeaders.
     None = Acquire reports the ammo as unusable *)
  Definition build (e : entry) : option reqsum :=
    match url_parse (e_url e) with
    | None => None
    | Some (ustr, uhost) =>
        if negb (valid_method (e_method e)) then None
        else
          let '(host, hs) := enrich uhost (e_headers e) [] in
          Some {| r_method := match e_method e with [] => GET | m => m end;
                  r_url := ustr; r_host := host; r_headers := hs;
                  r_body := e_body e; r_tag := e_tag e |}
    end.
End Oracles.
