(* Multi-line strings of a scenario description (property C16): the YAML literal block scalar (`body: |`) and the HCL
   heredoc (`body = <<EOF`), as functions of the TEXT of the file.

   A literal block scalar is literal: its text -- the lines of the file from the one after the header up to the next
   node or THE END OF THE FILE, indentation removed -- is the string, except for the line breaks at its end, whose
   fate the chomping indicator of the header decides (YAML 1.1/1.2 "block chomping indicator"; libyaml
   yaml_parser_scan_block_scalar): `|-` strip: none is kept; `|` clip: the break that ends the last non-blank line is
   kept, blank lines after it are not; `|+` keep: all are kept.  A heredoc is its lines, each with its break.
   The parsers themselves are oracles of the check; this is what the documented syntaxes say a text denotes, and what
   the layout printer of the harness is held to (ocaml/C16: every block it writes is read back by read_block).
   Executable definitions only. *)
From Coq Require Import List NArith Bool.
From PV Require Import Model.ConfigDecode.
Import ListNotations.
Local Open Scope N_scope.

Definition nl : N := 10.
Definition breaks (n : nat) : str := repeat nl n.

(* the text without the line breaks at its end, and how many there were *)
Fixpoint chop (t : str) : str * nat :=
  match t with
  | [] => ([], O)
  | c :: t' =>
      let (r, n) := chop t' in
      match r with
      | [] => if N.eqb c nl then ([], S n) else ([c], n)
      | _ => (c :: r, n)
      end
  end.

Inductive chomp := Strip | Clip | Keep.

Definition read_block (c : chomp) (t : str) : str :=
  let (r, n) := chop t in
  match c with
  | Strip => r
  | Clip => match r, n with
            | [], _ => []
            | _, O => r              (* the file ends right after the last character: there is no break to keep *)
            | _, S _ => r ++ [nl]
            end
  | Keep => r ++ breaks n
  end.

(* the header under which the text of the scalar is the string itself *)
Definition chomp_for (x : str) : chomp :=
  let (r, n) := chop x in
  match n with
  | O => Strip
  | S O => match r with [] => Keep | _ => Clip end
  | _ => Keep
  end.

(* `<<EOF`, the lines, `EOF`: every line, the last one included, ends with its break *)
Definition unlines (ls : list str) : str := flat_map (fun l => l ++ [nl]) ls.

Definition heredoc_value (t : str) : option str :=
  match t with
  | [] => Some []
  | _ => match snd (chop t) with O => None | _ => Some t end
  end.
