(* Instances firing under the start loop: the cancel source "out of ammo" grounded in what the
   provider really answered (on top of Model/StartAsync.v).

   core/engine/instance.go instance.Run:

       for !waiter.IsFinished(ctx) {
           ammo, ok := i.provider.Acquire()
           if !ok { return outOfAmmoErr }          <- the only way an instance reports "out of ammo"
           ... Wait, Shoot(ammo) / discard, Release(ammo)
       }
       return ctx.Err()

   core/engine/engine.go awaitRun:  res.Err == outOfAmmoErr && start not finished -> instanceStartCancel()

   The VALUE of an ammo item is the provider's business: providers for guns that need no ammo
   (core/provider.Dummy, registered as `dummy`) hand out (nil, true) - an item whose value is nil,
   not the end of the ammo.  [ammo_val = option nat], None being the nil interface value.

   In Model/StartLoop.v and Model/StartAsync.v the cancel source OutOfAmmo is a free label.  Here it
   is produced by the system itself: an instance in its shooting loop calls Acquire (FAcquire); the
   provider pops an item or answers !ok; [is_out rule] is instance.Run's test; an instance that
   returned outOfAmmoErr is received by awaitRun (FAwaitOut), which cancels the start context.  The
   free label SCancel OutOfAmmo is NOT an action of this system.  The other ways an instance leaves
   its loop (its RPS profile exhausted, the run cancelled) stay labelled (FLeave; properties C03/C05).

   [rule = OnlyNotOk] is the code.  [NilToo] is the variant that also takes a nil item for the end of
   the ammo; it is used only to show that the theorems tell the two apart.

   Executable definitions only; proofs are in Proofs/StartFireProofs.v. *)
From Coq Require Import List ZArith Bool Arith.
From PV Require Import Model.StartLoop Model.StartAsync.
Import ListNotations.
Local Open Scope Z_scope.

Definition ammo_val := option nat.

Inductive out_rule := OnlyNotOk | NilToo.

Definition is_nil (v : ammo_val) : bool := match v with None => true | Some _ => false end.

(* instance.Run's test after Acquire *)
Definition is_out (r : out_rule) (v : ammo_val) (ok : bool) : bool :=
  match r with
  | OnlyNotOk => negb ok
  | NilToo => negb ok || is_nil v
  end.

Inductive ileave := LvAmmo | LvOther.  (* returned outOfAmmoErr | nil / ctx.Err() *)

Record fstate := mkFS {
  fa : astate;                     (* start loop + asynchronous creation *)
  items : list ammo_val;           (* what the provider still has *)
  said_no : bool;                  (* the provider has answered !ok *)
  firing : list nat;               (* ids of the instances in their shooting loop *)
  outq : list nat;                 (* returned outOfAmmoErr, result not yet received by awaitRun *)
  gone : list (nat * ileave);      (* finished and received *)
  shots : list (nat * ammo_val)    (* (instance, item) fired or discarded, newest first *)
}.

Inductive faction :=
| FBase (x : aaction)     (* loop section / time / labelled cancel source other than OutOfAmmo / creation results *)
| FAcquire (id : nat)     (* instance id calls provider.Acquire and acts on the answer *)
| FLeave (id : nat)       (* instance id finds its RPS profile exhausted or the run cancelled *)
| FAwaitOut (id : nat).   (* awaitRun receives outOfAmmoErr of instance id *)

Definition finit (toks : list Z) (t0 : Z) (its : list ammo_val) : fstate :=
  mkFS (ainit toks t0) its false [] [] [] [].

Definition is_free_ammo_label (x : aaction) : bool :=
  match x with ABase (SCancel OutOfAmmo) => true | _ => false end.

Definition set_base (a : astate) (s : sstate) : astate := mkAS s (pend a) (live a) (failq a) (failed a).

Definition fstep (r : out_rule) (x : faction) (f : fstate) : option fstate :=
  match x with
  | FBase y =>
      if is_free_ammo_label y then None else
      match astep y (fa f) with
      | None => None
      | Some a' =>
          (* an instance that has just come to exist enters its shooting loop *)
          let fr := match live a' with
                    | (id, _) :: _ => if (length (live a') =? S (length (live (fa f))))%nat then id :: firing f else firing f
                    | [] => firing f
                    end in
          Some (mkFS a' (items f) (said_no f) fr (outq f) (gone f) (shots f))
      end
  | FAcquire id =>
      if mem_nat id (firing f) then
        match items f with
        | [] =>   (* Acquire answers (nil, false) *)
            if is_out r None false
            then Some (mkFS (fa f) [] true (remove_nat id (firing f)) (id :: outq f) (gone f) (shots f))
            else Some (mkFS (fa f) [] true (firing f) (outq f) (gone f) (shots f))
        | v :: rest =>   (* Acquire answers (v, true) *)
            if is_out r v true
            then Some (mkFS (fa f) rest (said_no f) (remove_nat id (firing f)) (id :: outq f) (gone f) (shots f))
            else Some (mkFS (fa f) rest (said_no f) (firing f) (outq f) (gone f) ((id, v) :: shots f))
        end
      else None
  | FLeave id =>
      if mem_nat id (firing f)
      then Some (mkFS (fa f) (items f) (said_no f) (remove_nat id (firing f)) (outq f) ((id, LvOther) :: gone f) (shots f))
      else None
  | FAwaitOut id =>
      if mem_nat id (outq f) then
        match sstep (SCancel OutOfAmmo) (base (fa f)) with
        | Some s' => Some (mkFS (set_base (fa f) s') (items f) (said_no f) (firing f) (remove_nat id (outq f))
                                ((id, LvAmmo) :: gone f) (shots f))
        | None => None
        end
      else None
  end.

Fixpoint frun (r : out_rule) (l : list faction) (f : fstate) : option fstate :=
  match l with
  | [] => Some f
  | x :: t => match fstep r x f with Some f' => frun r t f' | None => None end
  end.

(* what the asynchronous start model sees of a trace *)
Definition fproj (x : faction) : list aaction :=
  match x with
  | FBase y => [y]
  | FAwaitOut _ => [ABase (SCancel OutOfAmmo)]
  | _ => []
  end.
