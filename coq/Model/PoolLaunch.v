(* What a pool has launched and what of it is still executing (property C05, "all started
   instances, providers and aggregators stop ... and waiting for the engine's background tasks
   returns"):  core/engine/engine.go  instancePool.runAsync / instancePool.Run / Engine.Wait.

   Model/Pool.v treats `warmUpGun + runAsync` as one step (PvPre).  Here runAsync is opened up:
   it is a straight-line sequence of statements, one of which (buildNewInstanceSchedule) can
   fail and make runAsync return early; the others launch the goroutines whose results the
   await loop has to collect.  instancePool.Run releases the engine's WaitGroup at once
   (`p.onWaitDone(); return err`) when runAsync returns an error, so what matters is what had
   been launched BEFORE the failing statement.

   Executable definitions only. *)
From Coq Require Import List Arith Bool.
From PV Require Import Model.Pool.
Import ListNotations.

(* the goroutines runAsync launches; each delivers exactly one result to the await loop *)
Inductive producer :=
| PrProv     (* go func() { providerErr <- p.Provider.Run(runCtx, deps) }() *)
| PrAggr     (* go func() { aggregatorErr <- p.Aggregator.Run(runCtx, deps) }() *)
| PrStart.   (* go func() { started, err := p.startInstances(...); startRes <- ... }() *)

Definition producer_eqb (a b : producer) : bool :=
  match a, b with PrProv, PrProv | PrAggr, PrAggr | PrStart, PrStart => true | _, _ => false end.

(* the statements of runAsync that matter, in program order *)
Inductive ra_stmt :=
| RaBuildSchedule        (* newInstanceSchedule, err := p.buildNewInstanceSchedule(...); if err != nil { return nil, err } *)
| RaGo (pr : producer).  (* go func() { <chan> <- <component>.Run(...) }() *)

(* runAsync as it is in the tree (re-read from the source by the translator `runasync`,
   Gen/RunAsync_bridge.v) *)
Definition run_async_prog : list ra_stmt := [RaBuildSchedule; RaGo PrProv; RaGo PrAggr; RaGo PrStart].

(* Execute the statements: [sched_ok] = NewRPSSchedule succeeds.  Result: what has been launched
   (most recent first) and whether runAsync returned a handle (true) or the error (false). *)
Fixpoint ra_exec (prog : list ra_stmt) (sched_ok : bool) (launched : list producer) : list producer * bool :=
  match prog with
  | [] => (launched, true)
  | RaBuildSchedule :: r => if sched_ok then ra_exec r sched_ok launched else (launched, false)
  | RaGo pr :: r => ra_exec r sched_ok (pr :: launched)
  end.

(* what the pre-start step of Model/Pool.v leaves running *)
Definition pre_launched (prog : list ra_stmt) (o : pre_outcome) : list producer :=
  match o with
  | PreOk => fst (ra_exec prog true [])
  | PreSchedFail => fst (ra_exec prog false [])
  | PreGunFail | PreWarmFail => []      (* warmUpGun failed: runAsync is not reached *)
  end.

Definition count_pr (pr : producer) (l : list producer) : nat := length (filter (producer_eqb pr) l).

(* ---------------------------------------------------------------------------------------- *)
(* On the pool state of Model/Pool.v *)

Definition bnat (b : bool) : nat := if b then 1 else 0.

(* the pool got past runAsync: provider, aggregator and start loop were launched *)
Definition launched (s : pstate) : bool :=
  match ph s with PhAwait | PhDone => true | PhInit | PhPreFailed => false end.

(* Provider.Run / Aggregator.Run calls made so far by this pool *)
Definition comp_runs (s : pstate) : nat := if launched s then 2 else 0.

(* what this pool launched (or, for instances, is still going to launch in this run: the start
   loop starts [n_inst] of them) and whose result the await loop has not received yet *)
Definition outstanding (n_inst : nat) (s : pstate) : nat :=
  if launched s then
    bnat (prov_pending (aw s)) + bnat (aggr_pending (aw s)) + bnat (start_pending (aw s)) + (n_inst - awaited (aw s))
  else 0.

Fixpoint total_outstanding (cfg : list nat) (ps : list pstate) : nat :=
  match cfg, ps with
  | n :: cr, s :: pr => outstanding n s + total_outstanding cr pr
  | _, _ => 0
  end.

Definition total_comp_runs (g : gstate) : nat := sum_by comp_runs (pools g).

(* Replay a history; at the first moment at which Engine.Wait() can return (every pool has
   called onWaitDone) report how much of what the pools launched is still outstanding.
   None: Wait never returns along this history (or the history is not possible). *)
Fixpoint outstanding_at_wait (v : variant) (cfg : list nat) (g : gstate) (tr : list gevent) : option nat :=
  if wait_returns g then Some (total_outstanding cfg (pools g))
  else match tr with
       | [] => None
       | e :: r => match gstep v cfg g e with
                   | Some g' => outstanding_at_wait v cfg g' r
                   | None => None
                   end
       end.

(* the executable specification on the observation: nothing the run started (Provider.Run,
   Aggregator.Run, Gun.Shoot calls) is still executing when Engine.Wait returns *)
Definition spec_stopped_b (still_executing_at_wait : nat) : bool := still_executing_at_wait =? 0.
