(* Model of TIME in a gRPC shot (property C20: "the server receives a call … within the configured
   timeout"): the clock of an instance, the think time of scenario steps (`sleep(N)` / `name(1,N)` in the
   requests list = Call.Sleep), a target that takes its own time to answer (its latency is its decision,
   like its status), and the deadline of the context a call is issued under.
   components/guns/grpc/scenario/core.go shootStep (and components/guns/grpc/core.go shoot) create
   context.WithTimeout(context.Background(), timeout) in the function that calls InvokeRpc: the deadline
   of a call is  issue time + timeout  [PerCall].  A deadline created once per scenario shot and handed
   down [PerShot] is the other reading of the same words; the model has both, the theorems are about the
   first, the bridge Gen/GrpcDial_bridge.v re-reads from the source which one pandora has.
   Executable definitions only. *)
From Coq Require Import List NArith ZArith Bool.
From PV Require Import Model.GrpcCall Model.GrpcWire.
Import ListNotations.
Local Open Scope Z_scope.

(* where the deadline context is created *)
Inductive dscope := PerCall | PerShot.

(* codes.DeadlineExceeded *)
Definition st_deadline : N := 4%N.

(* ---------- the model's reading of the source, compared with Gen/GrpcDialGen.v by the bridge ---------- *)

Definition fn_shoot : gbytes := [115;104;111;111;116]%N.                                   (* shoot *)
Definition fn_shoot_step : gbytes := [115;104;111;111;116;83;116;101;112]%N.               (* shootStep *)
Definition fn_connect : gbytes := [77;97;107;101;71;82;80;67;67;111;110;110;101;99;116]%N. (* MakeGRPCConnect *)
Definition ctx_background : gbytes :=
  [99;111;110;116;101;120;116;46;66;97;99;107;103;114;111;117;110;100;40;41]%N.           (* context.Background() *)

(* a deadline site: (enclosing function, parent context expression, duration expression) *)
Definition dsite := (gbytes * gbytes * gbytes)%type.

(* a function that calls InvokeRpc issues it PerCall when the deadline context is created in that very
   function from context.Background(); any other arrangement (deadline handed down by a caller, derived
   from another context, no deadline) is outside PerCall *)
Definition site_in (f : gbytes) (sites : list dsite) : bool :=
  existsb (fun x => gbytes_eqb (fst (fst x)) f && gbytes_eqb (snd (fst x)) ctx_background) sites.

Definition deadline_scope (sites : list dsite) (invokers : list gbytes) : option dscope :=
  if forallb (fun f => site_in f sites) invokers
     && forallb (fun x : dsite => gbytes_eqb (snd (fst x)) ctx_background
                          && (existsb (gbytes_eqb (fst (fst x))) invokers || gbytes_eqb (fst (fst x)) fn_connect)) sites
  then Some PerCall else None.

(* the deadline contexts of both guns as the model reads them: Gun.shoot (grpc/json entry), the dial
   timeout of MakeGRPCConnect (not a call), Gun.shootStep (scenario step) *)
Definition dur_timeout : gbytes := [116;105;109;101;111;117;116]%N.   (* timeout *)
Definition model_timeout_sites : list dsite :=
  [ (fn_shoot, ctx_background, dur_timeout); (fn_connect, ctx_background, dur_timeout);
    (fn_shoot_step, ctx_background, dur_timeout) ].

(* forget the clock of a result *)
Definition drop_clock {A B : Type} (x : Z * A * B) : A * B := (snd (fst x), snd x).

Section Timed.
  Variable msg : Type.
  Variable code_of_status : N -> N.                       (* ConvertGrpcStatus *)
  (* the target: its answer to a call and how long it takes to give it (ns), both depending on everything
     it has received before — neither is pandora's to choose *)
  Variable target : list (sent msg) -> sent msg -> N.
  Variable latency : list (sent msg) -> sent msg -> Z.

  (* what the target sees of a call: the call, the time it is given to answer (the deadline it receives,
     counted from arrival; transit time is not modelled) and the status it ends with *)
  Record arrival := mkArr { a_call : sent msg; a_budget : Z; a_status : N }.

  (* result of one step: sample code, and what arrived at the target (None: nothing was sent) *)
  Definition tstep := (N * option arrival)%type.

  (* InvokeRpc under a context with deadline [dl], issued at [now]: an expired context fails on the
     client and nothing is sent; otherwise the call arrives with the remaining time as its budget, and
     the caller sees the target's answer if it comes within the budget, DeadlineExceeded at the deadline
     if not *)
  Definition timed_call (dl now : Z) (hist : list (sent msg)) (s : sent msg) : Z * list (sent msg) * tstep :=
    let b := dl - now in
    if b <=? 0 then (now, hist, (code_of_status st_deadline, None))
    else
      let l := latency hist s in
      if l <? b
      then (now + Z.max 0 l, hist ++ [s], (code_of_status (target hist s), Some (mkArr s b (target hist s))))
      else (now + b, hist ++ [s], (code_of_status st_deadline, Some (mkArr s b st_deadline))).

  Definition step_deadline (sc : dscope) (shot_dl now : Z) (s : sent msg) : Z :=
    match sc with PerCall => now + s_timeout s | PerShot => shot_dl end.

  Definition local_code (o : outcome msg) : N :=
    match o with BadPayload => 400%N | _ => 0%N end.

  (* the steps of one shot: (outcome the gun decided, think time after the step); time.Sleep is taken
     only when positive *)
  Fixpoint timed_steps (sc : dscope) (shot_dl now : Z) (hist : list (sent msg)) (steps : list (outcome msg * Z))
    : Z * list (sent msg) * list tstep :=
    match steps with
    | [] => (now, hist, [])
    | (Sent s, sl) :: r =>
        let '(now1, h1, x) := timed_call (step_deadline sc shot_dl now s) now hist s in
        let '(now2, h2, xs) := timed_steps sc shot_dl (now1 + Z.max 0 sl) h1 r in
        (now2, h2, x :: xs)
    | (o, _) :: r =>
        let '(now2, h2, xs) := timed_steps sc shot_dl now hist r in
        (now2, h2, (local_code o, None) :: xs)
    end.

  (* shots one after another; [shot_budget] = the timeout a PerShot deadline would be created with *)
  Fixpoint timed_shots (sc : dscope) (shot_budget now : Z) (hist : list (sent msg))
           (shots : list (list (outcome msg * Z))) : Z * list (sent msg) * list (list tstep) :=
    match shots with
    | [] => (now, hist, [])
    | steps :: r =>
        let '(now1, h1, xs) := timed_steps sc (now + shot_budget) now hist steps in
        let '(now2, h2, xss) := timed_shots sc shot_budget now1 h1 r in
        (now2, h2, xs :: xss)
    end.

  (* SPECIFICATION — no clock, no think time: every call that is to be sent arrives with its whole
     configured timeout as budget; answered within it -> the conversion of the target's answer, not
     answered within it -> DeadlineExceeded for THAT call *)
  Definition spec_call (hist : list (sent msg)) (s : sent msg) : list (sent msg) * tstep :=
    let b := s_timeout s in
    if b <=? 0 then (hist, (code_of_status st_deadline, None))
    else if latency hist s <? b
         then (hist ++ [s], (code_of_status (target hist s), Some (mkArr s b (target hist s))))
         else (hist ++ [s], (code_of_status st_deadline, Some (mkArr s b st_deadline))).

  Fixpoint spec_timed (hist : list (sent msg)) (os : list (outcome msg)) : list (sent msg) * list tstep :=
    match os with
    | [] => (hist, [])
    | Sent s :: r =>
        let '(h1, x) := spec_call hist s in
        let '(h2, xs) := spec_timed h1 r in (h2, x :: xs)
    | o :: r => let '(h2, xs) := spec_timed hist r in (h2, (local_code o, None) :: xs)
    end.

  Fixpoint spec_timed_shots (hist : list (sent msg)) (shots : list (list (outcome msg)))
    : list (sent msg) * list (list tstep) :=
    match shots with
    | [] => (hist, [])
    | os :: r =>
        let '(h1, xs) := spec_timed hist os in
        let '(h2, xss) := spec_timed_shots h1 r in (h2, xs :: xss)
    end.

End Timed.
Arguments mkArr {msg}.
Arguments a_call {msg}.
Arguments a_budget {msg}.
Arguments a_status {msg}.
