(* Model of the RPS schedules of core/schedule (property C01): const.go, line.go, step.go,
   once.go, do_at.go, and the sequential meaning of the composite step.go builds.
   Exact arithmetic: rates are rationals (Q, requests per second), time is Z nanoseconds.
   Executable definitions only; lemmas live in Proofs/Sched*.v.

   Two sides are defined here:
     - the SPECIFICATION: [cum p x], the integral of the configured rate over [0,x] ns, written
       directly from the meaning docs/eng/load-profile.md gives to const and line;
     - the CODE's formulas (NewConst, constDoAt, NewLine, lineDoAt, NewStep loop, NewOnce,
       doAtSchedule.Next/Left) evaluated in exact arithmetic instead of float64.  *)
From Coq Require Import ZArith QArith Qround List Bool.
Import ListNotations.
Local Open Scope Z_scope.

Definition ns_per_s : Z := 1000000000.
Definition min_dur : Z := 1000000.          (* validate:"min-time=1ms" *)
Definition qz (z : Z) : Q := inject_Z z.

Inductive profile :=
| PConst (ops : Q) (D : Z)                  (* ops requests/s during D ns *)
| PLine (from to : Q) (D : Z)               (* rate goes linearly from -> to during D ns *)
| PStep (from to : Q) (st : Z) (D : Z)      (* levels from, from+st, ... <= to; D ns each *)
| POnce (n : Z).                            (* n operations at the start instant *)

(* what config validation accepts (struct tags of ConstConfig, LineConfig, StepConfig, OnceConfig) *)
Definition valid (p : profile) : Prop :=
  match p with
  | PConst ops D => (0 <= ops)%Q /\ min_dur <= D
  | PLine f t D => (0 <= f)%Q /\ (0 <= t)%Q /\ min_dur <= D
  | PStep f t st D => (0 <= f)%Q /\ (0 <= t)%Q /\ 1 <= st /\ min_dur <= D
  | POnce n => 1 <= n
  end.

(* ------------------------------------------------------------------------------------ *)
(* Specification: the integral of the configured rate.                                    *)

(* rate (requests per second) x ns after the start of a const / line profile *)
Definition rate_const (ops : Q) (x : Z) : Q := ops.
Definition rate_line (f t : Q) (D x : Z) : Q := (f + (t - f) * qz x / qz D)%Q.

(* integral over [0, x] ns (x in ns, rates per second, hence the division by 10^9) *)
Definition cum_const (ops : Q) (x : Z) : Q := (ops * qz x / qz ns_per_s)%Q.
Definition cum_line (f t : Q) (D x : Z) : Q :=
  ((f * qz x + (t - f) * qz (x * x) / qz (2 * D)) / qz ns_per_s)%Q.

(* ------------------------------------------------------------------------------------ *)
(* The code, in exact arithmetic.                                                         *)

(* Go's float64 -> int64 / time.Duration conversion truncates toward zero *)
Definition Qtrunc (q : Q) : Z := Z.quot (Qnum q) (Zpos (Qden q)).

(* xn := float64(duration) / 1e9 *)
Definition secs (D : Z) : Q := (qz D / qz ns_per_s)%Q.

(* NewConst: if ops < 0 { ops = 0 } *)
Definition clamp0 (ops : Q) : Q := if Qle_bool 0 ops then ops else 0%Q.

(* NewConst: n := int64(ops * xn) *)
Definition const_n (ops : Q) (D : Z) : Z := Qtrunc (ops * secs D).

(* constDoAt: billionDivOps := 1e9 / ops ; Duration(float64(i) * billionDivOps).
   (ops = 0 gives +Inf in Go and 0 here; it is never evaluated because n = 0 then.) *)
Definition const_at (ops : Q) (k : Z) : Z := Qtrunc (qz k * (qz ns_per_s / ops)).

(* NewLine (after the fix of the slope): a := (to - from) / (float64(duration) / 1e9) *)
Definition line_a (f t : Q) (D : Z) : Q := ((t - f) / secs D)%Q.

(* NewLine: n := int64(a*xn*xn/2 + b*xn) *)
Definition line_n (f t : Q) (D : Z) : Z :=
  let a := line_a f t D in
  let xn := secs D in
  Qtrunc (a * xn * xn / (2 # 1) + f * xn).

(* lineDoAt: Duration((math.Sqrt(2*a*i + b*b) - b) * (1e9 / a)).
   With from = fn/M, to = tn/M (common denominator M), a = (tn-fn)*10^9/(M*D), b = fn/M:
       2*a*i + b*b = (fn^2 D^2 + (tn-fn) * K) / (M D)^2,   K = i * 2 D M 10^9
       (sqrt(..) - b) * 10^9 / a = (sqrt(fn^2 D^2 + (tn-fn) K) - fn D) / (tn - fn)
   and the truncation of that real number is computed below with the integer square root
   (rounded down for an increasing line, up for a decreasing one because it is subtracted).
   Proofs/SchedReal.v proves that this is the truncation of the real-number expression.
   A negative radicand is math.Sqrt -> NaN in Go: explicit outcome None. *)
Definition csqrt (R : Z) : Z := let s := Z.sqrt R in if s * s =? R then s else s + 1.

Definition rn_from (f t : Q) : Z := Qnum f * Zpos (Qden t).
Definition rn_to (f t : Q) : Z := Qnum t * Zpos (Qden f).
Definition rn_den (f t : Q) : Z := Zpos (Qden f * Qden t).
(* the formula over integers: rates fn/M -> tn/M, duration D ns, operation k *)
Definition line_scale_z (M D : Z) : Z := 2 * D * M * ns_per_s.
Definition line_radicand_z (fn tn M D k : Z) : Z :=
  fn * fn * D * D + (tn - fn) * (k * line_scale_z M D).
Definition line_at_z (fn tn M D k : Z) : option Z :=
  let R := line_radicand_z fn tn M D k in
  if R <? 0 then None
  else if fn <? tn then Some ((Z.sqrt R - fn * D) / (tn - fn))
  else Some ((fn * D - csqrt R) / (fn - tn)).

Definition line_scale (f t : Q) (D : Z) : Z := line_scale_z (rn_den f t) D.
Definition line_radicand (f t : Q) (D k : Z) : Z :=
  line_radicand_z (rn_from f t) (rn_to f t) (rn_den f t) D k.
Definition line_at (f t : Q) (D k : Z) : option Z :=
  line_at_z (rn_from f t) (rn_to f t) (rn_den f t) D k.

(* do_at.go: a schedule is (duration, n, doAt) *)
Record leaf := { l_n : Z; l_dur : Z; l_at : Z -> option Z }.

Definition leaf_const (ops : Q) (D : Z) : leaf :=
  let o := clamp0 ops in
  {| l_n := const_n o D; l_dur := D; l_at := fun k => Some (const_at o k) |}.

(* NewLine: if from == to { return NewConst(from, duration) } *)
Definition leaf_line (f t : Q) (D : Z) : leaf :=
  if Qeq_bool f t then leaf_const f D
  else {| l_n := line_n f t D; l_dur := D; l_at := line_at f t D |}.

(* NewOnce: NewDoAtSchedule(0, n, func(i) { return 0 }) *)
Definition leaf_once (n : Z) : leaf := {| l_n := n; l_dur := 0; l_at := fun _ => Some 0 |}.

(* doAtSchedule.Next for the i-th call (i = value of the atomic counter before the
   increment), as an offset from the start instant *)
Definition leaf_next (l : leaf) (i : Z) : option Z * bool :=
  if i <? l_n l then (l_at l i, true) else (Some (l_dur l), false).

(* doAtSchedule.Left after i calls of Next *)
Definition leaf_left (l : leaf) (i : Z) : Z := Z.max 0 (l_n l - i).

Definition leaf_tokens (l : leaf) : list (option Z) :=
  map (fun i => l_at l (Z.of_nat i)) (seq 0 (Z.to_nat (l_n l))).

(* NewStep: for i := from; i <= to; i += float64(step) { NewConst(i, duration) }.
   The loop runs on fuel; None = out of fuel (excluded by SchedProofs.step_levels_some). *)
Fixpoint levels_loop (fuel : nat) (i t : Q) (st : Z) : option (list Q) :=
  match fuel with
  | O => None
  | S fuel' =>
      if Qle_bool i t then
        match levels_loop fuel' (i + qz st) t st with
        | Some r => Some (i :: r)
        | None => None
        end
      else Some []
  end.

Definition step_fuel (f t : Q) : nat := Z.to_nat (Qfloor (t - f)) + 2.

Definition step_levels (f t : Q) (st : Z) : option (list Q) :=
  if Qeq_bool f t then Some [f] else levels_loop (step_fuel f t) f t st.

(* composite.go, sequentially: children run one after another, each started at the finish
   instant of the previous one; NewComposite() of nothing is NewOnce(0). *)
Definition shift (s : Z) (x : option Z) : option Z := option_map (Z.add s) x.

Fixpoint comp_tokens (ls : list leaf) (start : Z) : list (option Z) :=
  match ls with
  | [] => []
  | l :: r => map (shift start) (leaf_tokens l) ++ comp_tokens r (start + l_dur l)
  end.

Fixpoint comp_finish (ls : list leaf) (start : Z) : Z :=
  match ls with
  | [] => start
  | l :: r => comp_finish r (start + l_dur l)
  end.

Fixpoint comp_left (ls : list leaf) : Z :=
  match ls with
  | [] => 0
  | l :: r => leaf_left l 0 + comp_left r
  end.

Definition leaves (p : profile) : option (list leaf) :=
  match p with
  | PConst ops D => Some [leaf_const ops D]
  | PLine f t D => Some [leaf_line f t D]
  | PStep f t st D => option_map (map (fun r => leaf_const r D)) (step_levels f t st)
  | POnce n => Some [leaf_once n]
  end.

(* What draining the schedule after Start(t0) shows, as offsets from t0:
   Left() before the first Next, the ok tokens in order, the instant reported once exhausted. *)
Record drained := { d_left : Z; d_tokens : list (option Z); d_finish : Z }.

Definition drain (p : profile) : option drained :=
  match leaves p with
  | Some ls => Some {| d_left := comp_left ls; d_tokens := comp_tokens ls 0; d_finish := comp_finish ls 0 |}
  | None => None
  end.

(* accessors for const / line profiles (single leaf) *)
Definition the_leaf (p : profile) : leaf :=
  match p with
  | PConst ops D => leaf_const ops D
  | PLine f t D => leaf_line f t D
  | PStep f _ _ D => leaf_const f D
  | POnce n => leaf_once n
  end.
Definition count (p : profile) : Z := l_n (the_leaf p).
Definition at_ (p : profile) (k : Z) : option Z := l_at (the_leaf p) k.
Definition dur (p : profile) : Z := l_dur (the_leaf p).
Definition cum (p : profile) (x : Z) : Q :=
  match p with
  | PConst ops _ => cum_const ops x
  | PLine f t D => cum_line f t D x
  | PStep f _ _ _ => cum_const f x
  | POnce _ => 0%Q
  end.
Definition is_rate (p : profile) : bool :=
  match p with PConst _ _ | PLine _ _ _ => true | _ => false end.

(* ------------------------------------------------------------------------------------ *)
(* Executable specification evaluated on OBSERVED token offsets (of the implementation).
   tol = time tolerance in ns, eps = relative tolerance on the integral (both 0 = exact;
   the correspondence driver passes the tolerance of DESIGN.md section 3 because the
   implementation computes in float64). *)

Definition Qlt_bool (a b : Q) : bool := negb (Qle_bool b a).

(* token k observed at offset x of a rate profile with integral c over duration D *)
Definition tok_ok (c : Z -> Q) (D tol k x : Z) : bool :=
  (0 <=? x) && (x <=? D)
  && Qle_bool (c (Z.max 0 (x - tol))) (qz k)
  && ((D <=? x + 1 + tol) || Qlt_bool (qz k) (c (x + 1 + tol))).

Fixpoint toks_ok (c : Z -> Q) (D tol : Z) (k : Z) (prev : Z) (xs : list Z) : bool :=
  match xs with
  | [] => true
  | x :: r => tok_ok c D tol k x && (prev <=? x) && toks_ok c D tol (k + 1) x r
  end.

(* the number of operations is the integral over the whole duration rounded down; with
   eps > 0 the integral may be off by the relative amount eps before rounding *)
Definition count_ok (total eps : Q) (n : Z) : bool :=
  (Qfloor (total * (1 - eps)) <=? n) && (n <=? Qfloor (total * (1 + eps))).

Definition rate_spec_b (c : Z -> Q) (D tol : Z) (eps : Q) (xs : list Z) : bool :=
  count_ok (c D) eps (Z.of_nat (length xs)) && toks_ok c D tol 0 0 xs.

(* split the observed stream at an instant *)
Fixpoint take_before (lim : Z) (xs : list Z) : list Z * list Z :=
  match xs with
  | [] => ([], [])
  | x :: r => if x <? lim then let (a, b) := take_before lim r in (x :: a, b) else ([], xs)
  end.

(* step: level j occupies [j*D, (j+1)*D) and must be a const profile of its rate *)
Fixpoint step_spec_b (levels : list Q) (D tol : Z) (eps : Q) (start : Z) (xs : list Z) : bool :=
  match levels with
  | [] => match xs with [] => true | _ => false end
  | r :: rest =>
      let (a, b) := take_before (start + D) xs in
      rate_spec_b (cum_const r) D tol eps (map (fun x => x - start) a)
      && step_spec_b rest D tol eps (start + D) b
  end.

(* the documented levels of a step profile: from, from+st, ..., while <= to *)
Definition spec_levels (f t : Q) (st : Z) : list Q :=
  if Qle_bool f t then map (fun j => (f + qz (Z.of_nat j * st))%Q) (seq 0 (Z.to_nat (Qfloor ((t - f) / qz st)) + 1))
  else [].

Definition spec_finish (p : profile) : Z :=
  match p with
  | PConst _ D | PLine _ _ D => D
  | PStep f t st D => Z.of_nat (length (spec_levels f t st)) * D
  | POnce _ => 0
  end.

(* observation: Left() before start, ok token offsets, finish offset *)
Definition spec_b (p : profile) (tol : Z) (eps : Q) (left : Z) (xs : list Z) (finish : Z) : bool :=
  (left =? Z.of_nat (length xs)) && (finish =? spec_finish p)
  && match p with
     | PConst ops D => rate_spec_b (cum_const ops) D tol eps xs
     | PLine f t D => rate_spec_b (cum_line f t D) D tol eps xs
     | PStep f t st D => step_spec_b (spec_levels f t st) D tol eps 0 xs
     | POnce n => (Z.of_nat (length xs) =? n) && forallb (Z.eqb 0) xs
     end.
