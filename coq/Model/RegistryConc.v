(* Property C18, concurrent products: several creations of the same registered plugin constructor
   (Registry.New, or calls of a factory made from a plugin constructor that takes a config) run at
   the same time - the engine calls the gun factory from one goroutine per instance.

   One creation ("round") is cut into its atomic steps: the default-config function is invoked
   (shared invocation counter), a fresh addressable config is allocated in the shared heap and
   initialised with the default, a decoder is made whose result is THAT config (the fill of
   pluginconfig: config.DecodeAndValidate(confData, conf) - decoder options, result included, are
   values of the one Decode call), the decoder overlays the user's settings on what its result
   holds, the constructor is called with the config.  A schedule (list of thread numbers) says
   which round takes its next step; any interleaving is a schedule.

   Executable definitions only. *)
From Coq Require Import List Arith Bool NArith.
From PV Require Import Model.Registry.
Import ListNotations.

Inductive cpc := PcDefault | PcAlloc | PcDecoder | PcWrite | PcCtor | PcDone.

(* what is fixed about a round: the settings its own section holds (as a function of what the
   decoder finds in its result), and whether it is the trial config of a factory creation (made
   and decoded, then dropped: no constructor call) *)
Record tdesc := mkTD { td_fill : cfgv -> cfgv; td_trial : bool }.

Record cthread := mkT {
  ct_pc : cpc;
  ct_def : option nat;     (* which invocation of the default function this round made *)
  ct_base : cfgv;          (* what it returned (zero value: none registered / nil pointer) *)
  ct_tgt : nat;            (* identity of the config this round allocated *)
  ct_res : nat;            (* the result its decoder writes to *)
  ct_arg : carg            (* what its constructor received *)
}.
Definition thread0 : cthread := mkT PcDefault None vzero 0 0 ANone.

(* shared: allocation counter, default-invocation counter, the configs *)
Record cstate := mkCS { cs_alloc : nat; cs_def : nat; cs_heap : nat -> cfgv }.
Definition cstate0 : cstate := mkCS 0 0 (fun _ => vzero).

Definition upd {A : Type} (f : nat -> A) (t : nat) (v : A) : nat -> A :=
  fun x => if Nat.eqb x t then v else f x.

(* thread [t] takes its next step *)
Definition cstep (sh : shape) (o : oracle) (d : nat -> tdesc) (t : nat) (G : cstate) (T : nat -> cthread)
  : cstate * (nat -> cthread) :=
  let th := T t in
  match ct_pc th with
  | PcDefault =>
      match sh_def sh with
      | DefNone => (G, upd T t (mkT PcAlloc None vzero (ct_tgt th) (ct_res th) (ct_arg th)))
      | DefVal =>
          let n := cs_def G in
          (mkCS (cs_alloc G) (S n) (cs_heap G),
           upd T t (mkT PcAlloc (Some n) (o_dflt o n) (ct_tgt th) (ct_res th) (ct_arg th)))
      | DefNil =>
          let n := cs_def G in
          (mkCS (cs_alloc G) (S n) (cs_heap G),
           upd T t (mkT PcAlloc (Some n) vzero (ct_tgt th) (ct_res th) (ct_arg th)))
      end
  | PcAlloc =>
      let id := cs_alloc G in
      (mkCS (S id) (cs_def G) (upd (cs_heap G) id (ct_base th)),
       upd T t (mkT PcDecoder (ct_def th) (ct_base th) id (ct_res th) (ct_arg th)))
  | PcDecoder =>
      (G, upd T t (mkT PcWrite (ct_def th) (ct_base th) (ct_tgt th) (ct_tgt th) (ct_arg th)))
  | PcWrite =>
      let r := ct_res th in
      (mkCS (cs_alloc G) (cs_def G) (upd (cs_heap G) r (td_fill (d t) (cs_heap G r))),
       upd T t (mkT PcCtor (ct_def th) (ct_base th) (ct_tgt th) r (ct_arg th)))
  | PcCtor =>
      (G, upd T t (mkT PcDone (ct_def th) (ct_base th) (ct_tgt th) (ct_res th)
                       (if td_trial (d t) then ANone else mk_arg (sh_cfg sh) (ct_tgt th) (cs_heap G (ct_tgt th)))))
  | PcDone => (G, T)
  end.

Fixpoint run_sched (sh : shape) (o : oracle) (d : nat -> tdesc) (sched : list nat) (S : cstate) (T : nat -> cthread)
  : cstate * (nat -> cthread) :=
  match sched with
  | [] => (S, T)
  | t :: r => let '(S1, T1) := cstep sh o d t S T in run_sched sh o d r S1 T1
  end.

(* ---------- observation: the finished rounds that constructed something ---------- *)

Record crec := mkCR { cr_tid : nat; cr_def : option nat; cr_arg : carg }.

Definition is_done (p : cpc) : bool := match p with PcDone => true | _ => false end.

Definition observe_conc (d : nat -> tdesc) (m : nat) (T : nat -> cthread) : list crec :=
  flat_map (fun t => if is_done (ct_pc (T t)) && negb (td_trial (d t))
                     then [mkCR t (ct_def (T t)) (ct_arg (T t))] else []) (seq 0 m).

(* ---------- specification (looks at the records only) ---------- *)

(* the config round [t] must be built from: the value of the default invocation it made (zero
   value without default function / for a nil default) overlaid by the settings of its OWN section *)
Definition conc_want (sh : shape) (o : oracle) (d : nat -> tdesc) (r : crec) : option cfgv :=
  match sh_def sh, cr_def r with
  | DefVal, Some n => Some (td_fill (d (cr_tid r)) (o_dflt o n))
  | DefNil, Some _ => Some (td_fill (d (cr_tid r)) vzero)
  | DefNone, None => Some (td_fill (d (cr_tid r)) vzero)
  | _, _ => None
  end.

Definition crec_ok (sh : shape) (o : oracle) (d : nat -> tdesc) (r : crec) : bool :=
  match conc_want sh o d r with
  | None => false
  | Some w =>
      match sh_cfg sh, cr_arg r with
      | CStruct, AVal v => cfgv_eqb v w
      | CPtr, AConf c => cfgv_eqb (c_val c) w
      | _, _ => false
      end
  end.

Definition rec_defs (l : list crec) : list nat :=
  flat_map (fun r => match cr_def r with Some n => [n] | None => [] end) l.
Definition rec_ids (l : list crec) : list nat :=
  flat_map (fun r => match cr_arg r with AConf c => [c_id c] | _ => [] end) l.

(* every product from its own config; no default value and no config shared by two products *)
Definition conc_b (sh : shape) (o : oracle) (d : nat -> tdesc) (l : list crec) : bool :=
  forallb (crec_ok sh o d) l && nat_nodup_b (rec_defs l) && nat_nodup_b (rec_ids l).

(* a schedule that lets the rounds make their default invocations in the order [order] and then
   runs each of them to completion (used by the driver to replay an observed order) *)
Definition sched_of_order (order : list nat) : list nat :=
  order ++ flat_map (fun t => [t; t; t; t; t]) order.
