(* Deliveries as objects handed to concurrently running instances (round 5).
   The engine's instances loop  Acquire ; shoot ; Release  against one provider.  What Acquire hands
   out is a request whose immediate fields (method, URL, headers, tag) are values, and whose body is
   read later, when the gun sends the request, from a reader object living in the heap
   (bytes.Reader behind Ammo.BuildRequest; for the raw format the bufio.Reader that
   raw.DecodeRequest gave to http.ReadRequest).  Between the Acquire and the shoot of one instance the
   other instances acquire and shoot.
   A schedule is a list of instance ids: an event of instance i is an Acquire when i holds nothing,
   otherwise the shoot (+ Release) of what i holds; at the end what is still held is shot in
   acquisition order.  The observation lists, in acquisition order, the immediate part and the body
   as read at shoot time.
   [Fresh] is what the decoders do: a new reader object per delivered request.  [Pooled] recycles
   reader objects through a free list, putting the reader back when the decoding function returns
   (the request handed out still reads from it): kept as the counter-model that the theorem
   excludes (Properties/C07.v, C07_pooled_reader_refuted).  Definitions only. *)
From Coq Require Import List NArith Bool Arith.
From PV Require Import Lib.AmmoBytes.
Import ListNotations.

Inductive rpolicy := Fresh | Pooled.

Section Sched.
  Variable A : Type.     (* the immediate part of a delivery *)

  Record held := { h_inst : nat; h_idx : nat; h_imm : A; h_addr : nat }.

  Definition heap_get (heap : list bytes) (a : nat) : bytes := nth a heap [].

  Fixpoint upd {X} (j : nat) (v : X) (l : list X) : list X :=
    match l, j with
    | [], _ => []
    | _ :: t, O => v :: t
    | x :: t, S j' => x :: upd j' v t
    end.

  (* a reader object for [body]: (address, heap, free list) *)
  Definition alloc (pol : rpolicy) (heap : list bytes) (pool : list nat) (body : bytes)
    : nat * list bytes * list nat :=
    match pol, pool with
    | Pooled, a :: p => (a, upd a body heap, a :: p)            (* Get; Reset(body); deferred Put *)
    | Pooled, [] => (length heap, heap ++ [body], [length heap])
    | Fresh, _ => (length heap, heap ++ [body], pool)
    end.

  (* the first thing held by instance i, and the rest *)
  Fixpoint take_inst (i : nat) (hs : list held) : option (held * list held) :=
    match hs with
    | [] => None
    | h :: t =>
        if Nat.eqb (h_inst h) i then Some (h, t)
        else match take_inst i t with
             | Some (x, t') => Some (x, h :: t')
             | None => None
             end
    end.

  Record sst := {
    s_heap : list bytes;
    s_pool : list nat;
    s_held : list held;
    s_slots : list (option (A * bytes));     (* by acquisition index; None = not shot yet *)
    s_todo : list (A * bytes)                (* what the provider delivers next *)
  }.

  Definition shoot (heap : list bytes) (h : held) (slots : list (option (A * bytes))) :=
    upd (h_idx h) (Some (h_imm h, heap_get heap (h_addr h))) slots.

  Definition sched_step (pol : rpolicy) (st : sst) (i : nat) : sst :=
    match take_inst i (s_held st) with
    | Some (h, rest) =>
        {| s_heap := s_heap st; s_pool := s_pool st; s_held := rest;
           s_slots := shoot (s_heap st) h (s_slots st); s_todo := s_todo st |}
    | None =>
        match s_todo st with
        | [] => st                                       (* the provider has nothing more: no-op *)
        | (imm, body) :: todo =>
            let '(a, heap', pool') := alloc pol (s_heap st) (s_pool st) body in
            {| s_heap := heap'; s_pool := pool';
               s_held := s_held st ++ [{| h_inst := i; h_idx := length (s_slots st); h_imm := imm; h_addr := a |}];
               s_slots := s_slots st ++ [None]; s_todo := todo |}
        end
    end.

  Definition sched_init (ds : list (A * bytes)) : sst :=
    {| s_heap := []; s_pool := []; s_held := []; s_slots := []; s_todo := ds |}.

  Definition flush (heap : list bytes) (hs : list held) (slots : list (option (A * bytes))) :=
    fold_left (fun sl h => shoot heap h sl) hs slots.

  (* the observation of a schedule over the deliveries ds *)
  Definition sched_obs (pol : rpolicy) (evs : list nat) (ds : list (A * bytes)) : list (option (A * bytes)) :=
    let st := fold_left (sched_step pol) evs (sched_init ds) in
    flush (s_heap st) (s_held st) (s_slots st).

End Sched.

Arguments sched_obs {A} pol evs ds.
