(* The wire model (Model/GrpcWire.v) instantiated for the example service: the replays the C20
   correspondence driver runs.  Executable definitions only. *)
From Coq Require Import List NArith ZArith Bool.
From PV Require Import Model.GrpcCall Model.GrpcExample Model.GrpcWire.
Import ListNotations.

(* the specification with the known float64 family factored out: payloads whose integer literals are
   all exactly representable are taken as written, the others as the provider/gun re-encode them *)
Definition reencode_guarded (sd : Z -> option Z) (fs : fields) : fields :=
  if fields_small fs then fs else reencode_c sd fs.

Section JsonWire.
  Variable shortest_dec : Z -> option Z.
  Variable code_of_status : N -> N.
  Variable target : list (sent msg_c) -> sent msg_c -> N.

  (* code-shaped: warm-up with reflect_metadata [rm], n bound guns, entry j shot by gun j mod n,
     connection policy [p] *)
  Definition json_session (p : policy) (ninst : nat) (timeout : Z) (rm : gmeta) (es : list entry_c)
    : list (wevent msg_c) * list res_c :=
    session desc_c msg_c fields (reencode_c shortest_dec) interp code_of_status target p
      (mkWConf timeout rm) example_table ninst (round_robin ninst 0 es).

  (* specification; [re] = how the payload is read (identity = as written) *)
  Definition json_session_spec (re : fields -> fields) (timeout : Z) (rm : gmeta) (es : list entry_c)
    : list (wevent msg_c) * list res_c :=
    session_spec desc_c msg_c fields re interp code_of_status target (mkWConf timeout rm) example_table es.
End JsonWire.

Section ScenWire.
  Variable code_of_status : N -> N.
  Variable target : list (sent msg_c) -> sent msg_c -> N.

  (* sample codes of the shots of a scenario replay, calls delivered in shot order *)
  Definition scen_codes (p : policy) (shots : list outs) : list (sent msg_c) * list (list N) :=
    deliver_shots msg_c code_of_status target p [] shots.
  Definition scen_codes_spec (shots : list outs) : list (list N) :=
    spec_codes_shots msg_c code_of_status target [] shots.

  (* the scenario gun's WarmUp is the grpc gun's *)
  Definition scen_warm_up (timeout : Z) (rm : gmeta) : list (wevent msg_c) :=
    fst (warm_up desc_c msg_c (mkWConf timeout rm) example_table).
End ScenWire.
