(* Where the result lines go (property C06): which destination an aggregator configuration
   denotes, what that destination holds when the aggregator starts to write, and what it
   holds in a state of the queue model (Model/Aggregator.v).
     core/aggregator/netsample/phout.go  NewPhout: `if filename != ""` fs.Create(filename), else os.Stdout
     core/datasink/file.go               NewFile: OpenFile(O_WRONLY|O_CREATE|O_TRUNC); NewStdout / NewStderr
     core/import/import.go               sink: file | stdout | stderr
   Executable definitions only. *)
From Coq Require Import List NArith Bool.
From PV Require Import Model.Phout Model.Aggregator.
Import ListNotations.
Local Open Scope N_scope.

Inductive dest :=
| DFile       (* a named file the aggregator creates (truncates) itself *)
| DStream.    (* a stream the process already has open and shares with whatever wrote to it
                 before: os.Stdout, os.Stderr *)

(* phout: PhoutConfig.Destination, "" (the zero value, DefaultPhoutConfig) = standard output *)
Definition phout_dest (destination : list N) : dest :=
  match destination with [] => DStream | _ :: _ => DFile end.

(* encoder aggregators (jsonlines, ...): the `sink` of the configuration *)
Inductive sink_conf :=
| SinkFile (path : list N) | SinkStdout | SinkStderr
| SinkBuffer.   (* datasink.NewBuffer(): a bytes.Buffer that is appended to and never closed *)
Definition sink_dest (c : sink_conf) : dest :=
  match c with SinkFile _ => DFile | SinkStdout | SinkStderr | SinkBuffer => DStream end.

(* what the destination holds when the aggregator starts writing, [old] = what was there before *)
Definition opened (d : dest) (old : list N) : list N :=
  match d with DFile => [] | DStream => old end.

(* the destination in a state of the queue model *)
Definition content {A : Type} (d : dest) (old : list N) (s : st A) : list N := opened d old ++ sink s.

(* ---- specification side: the part of an OBSERVED destination that belongs to this run ---- *)
Fixpoint strip_prefix (p l : list N) : option (list N) :=
  match p, l with
  | [], _ => Some l
  | _ :: _, [] => None
  | x :: p', y :: l' => if x =? y then strip_prefix p' l' else None
  end.

(* a file must consist of this run's bytes only; a stream must still begin with what it held *)
Definition this_run (d : dest) (old observed : list N) : option (list N) :=
  match d with DFile => Some observed | DStream => strip_prefix old observed end.

(* the phout aggregator's encoder: handle() = appendPhout + LF into the bufio buffer *)
Definition phout_enc (withid : bool) (s : psample) : option (list N) :=
  match render_phout withid s with Ok l => Some (l ++ [LF]) | Panic => None end.

(* ---- a destination that fails ----
   It accepts [n] bytes and then fails every write (disk full, closed pipe). The writers in front of
   it (bufio.Writer, the jsoniter stream) hand their bytes over in order and keep the first error, so
   the destination holds the first n bytes of everything that was written through. *)
Definition failing (n : nat) (written : list N) : list N := firstn n written.

(* specification side: [p] is a prefix of [l] *)
Fixpoint prefix_b (p l : list N) : bool :=
  match p, l with
  | [], _ => true
  | _ :: _, [] => false
  | x :: p', y :: l' => (x =? y) && prefix_b p' l'
  end.
