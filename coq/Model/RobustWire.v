(* Model for property C19, second layer: what the target ANNOUNCES about a body versus what ARRIVES.
   Model/Robust.v abstracts a body to "reading it to EOF succeeds or fails" (rs_body_ok).  Here the wire is
   explicit: the announced length (Content-Length, any value net/http accepts: 0 .. 2^63-1, or none for chunked /
   until-close bodies), the bytes that really arrive before the stream ends, and whether the stream ends the way
   the framing demands.  Reading the body asks the Go runtime for memory; [go_make] is Go's partial `make([]byte, n)`:
   a recoverable panic beyond maxAlloc, an UNRECOVERABLE process death ("fatal error: out of memory") beyond what
   the machine has.  The code reads with io.Copy(io.Discard, body) (fixed pooled buffer) or io.ReadAll(body)
   (buffer grown as data arrives) - the requests depend on what arrived, never on the announced number.
   Executable definitions only. *)
From Coq Require Import List ZArith Bool String.
From PV Require Import Model.Robust.
Import ListNotations.
Local Open Scope Z_scope.

Record body_wire := {
  bw_announced : option Z;   (* Content-Length: n; None = chunked or delimited by connection close *)
  bw_arrives : Z;            (* body bytes the target really sends before the stream ends (for a chunked body: the
                                payload bytes of well-formed chunks) *)
  bw_clean_end : bool        (* None-framing only: final chunk present / orderly close; false = cut short or bad framing *)
}.

(* bytes the body reader hands out before it reports EOF or an error (net/http limits the reader to the announced size) *)
Definition delivered (w : body_wire) : Z :=
  match bw_announced w with
  | Some n => Z.min n (bw_arrives w)
  | None => bw_arrives w
  end.

(* reading to the end succeeds: everything announced arrived / the unannounced stream ended properly *)
Definition body_complete (w : body_wire) : bool :=
  match bw_announced w with
  | Some n => n <=? bw_arrives w
  | None => bw_clean_end w
  end.

(* Go's make([]byte, n) as a partial operation.  [mem] = bytes the process can still obtain. *)
Definition max_alloc : Z := 2 ^ 48.
Inductive alloc_res := AllocOk | AllocPanic | AllocFatal.
Definition go_make (mem n : Z) : alloc_res :=
  if (n <? 0) || (max_alloc <? n) then AllocPanic      (* panic: makeslice: len out of range *)
  else if mem <? n then AllocFatal                     (* fatal error: runtime: out of memory (cannot be recovered) *)
  else AllocOk.

(* how the body is consumed *)
Inductive body_sink :=
| SinkDiscard      (* io.Copy(io.Discard, body): one pooled buffer of fixed size *)
| SinkReadAll.     (* io.ReadAll(body): starts with 512 bytes, grows (at most doubling) when full *)

(* what harness/cmd/translate bodysinks finds in the source: one of the two modelled sinks, or something else *)
Inductive sink_use :=
| UseSink (k : body_sink)
| UseHeaders                 (* httputil.DumpResponse(res, false): status line and headers, the body is not touched *)
| UseOther (callee : string).

Definition discard_buf : Z := 32768.

(* capacity io.ReadAll ends with after [d] bytes were delivered: it grows while len = cap, so the final capacity is
   the first of 512, 1024, 2048 ... that is larger than d.  (append's real growth factor is <= 2; doubling is the
   upper bound of every request.) *)
Definition readall_cap (d : Z) : Z := if d <? 512 then 512 else 2 ^ (Z.log2 d + 1).

(* the largest single request the sink makes *)
Definition sink_request (k : body_sink) (w : body_wire) : Z :=
  match k with
  | SinkDiscard => discard_buf
  | SinkReadAll => readall_cap (delivered w)
  end.

Inductive body_res := BodyRead (complete : bool) | BodyPanic | BodyFatal.

Definition read_body (mem : Z) (k : body_sink) (w : body_wire) : body_res :=
  match go_make mem (sink_request k w) with
  | AllocOk => BodyRead (body_complete w)
  | AllocPanic => BodyPanic
  | AllocFatal => BodyFatal
  end.

(* a reader that sizes its buffer by the ANNOUNCED length (not what the code does; kept as the contrast the
   theorems are about: Properties/C19_wire.v shows it panics / dies on a lie) *)
Definition read_body_announced (mem : Z) (w : body_wire) : body_res :=
  match bw_announced w with
  | Some n => if 0 <? n then
                match go_make mem n with
                | AllocOk => BodyRead (body_complete w)
                | AllocPanic => BodyPanic
                | AllocFatal => BodyFatal
                end
              else read_body mem SinkReadAll w
  | None => read_body mem SinkReadAll w
  end.

(* ---------- the guns over a wire ---------- *)
Definition with_body_ok (r : response) (b : bool) : response :=
  {| rs_conn := rs_conn r; rs_status := rs_status r; rs_body_ok := b; rs_h2 := rs_h2 r |}.

Inductive wire_shot := WShot (s : shot) | WCrash.       (* WCrash: the process died, nothing recovers that *)

(* BaseGun.Shoot reaches the body read when the gun is bound, Connect did not fail, the ammo is valid, the
   http2 check passed, no option branch panicked and Client.Do returned a response.  The body is drained into memory
   first when httptrace.dump (httputil.DumpResponse), debug logging (verboseLogging: ioutil.ReadAll) or an applicable
   answlog filter (answLogging: DumpResponse) is on; what is left is discarded *)
Definition base_sink (c : base_cfg) (r : response) : body_sink :=
  if go_dump (bc_opts c) || go_debug (bc_opts c) then SinkReadAll
  else match go_answlog (bc_opts c) with
       | Some f => if answ_applies f (rs_status r) then SinkReadAll else SinkDiscard
       | None => SinkDiscard
       end.

Definition base_reaches_body (c : base_cfg) (invalid_ammo : bool) (r : response) : bool :=
  bc_bound c && negb (match bc_connect c with Some false => true | _ => false end) && negb invalid_ammo &&
  negb (bc_http2 c && negb (rs_h2 r) && conn_ok (rs_conn r)) &&
  negb (is_panic (side_branches (bc_opts c) r)) && conn_ok (rs_conn r).

Definition base_shoot_wire (mem : Z) (c : base_cfg) (invalid_ammo : bool) (r : response) (w : body_wire) : wire_shot :=
  if base_reaches_body c invalid_ammo r then
    match read_body mem (base_sink c r) w with
    | BodyRead ok => WShot (base_shoot c invalid_ammo (with_body_ok r ok))
    | BodyPanic => WShot (ShotPanic [{| sm_code := rs_status r; sm_err := false |}])
    | BodyFatal => WCrash
    end
  else WShot (base_shoot c invalid_ammo r).

(* ScenarioGun.shootStep: the body is read into memory when answlog or debug logging is on or the step has
   postprocessors, otherwise discarded *)
Definition step_sink (s : step_in) : body_sink :=
  match go_answlog (si_opts s), go_debug (si_opts s), si_pps s with
  | None, false, [] => SinkDiscard
  | _, _, _ => SinkReadAll
  end.

Definition step_reaches_body (s : step_in) : bool :=
  match si_pre s with Done _ => true | _ => false end && si_tmpl_ok s && si_prep_ok s &&
  negb (is_panic (side_branches (si_opts s) (si_resp s))) && conn_ok (rs_conn (si_resp s)).

Definition step_with_body (s : step_in) (b : bool) : step_in :=
  {| si_opts := si_opts s; si_pre := si_pre s; si_tmpl_ok := si_tmpl_ok s; si_prep_ok := si_prep_ok s;
     si_resp := with_body_ok (si_resp s) b; si_pps := si_pps s |}.

Inductive wire_step_out := WStep (o : step_out) | WStepCrash.

Definition shoot_step_wire (mem : Z) (s : step_in) (w : body_wire) : wire_step_out :=
  if step_reaches_body s then
    match read_body mem (step_sink s) w with
    | BodyRead ok => WStep (shoot_step (step_with_body s ok))
    | BodyPanic => WStep StepPanic
    | BodyFatal => WStepCrash
    end
  else WStep (shoot_step s).
