(* Model of HTTP scenario construction and execution (property C15).  Executable
   definitions only (no proofs here).

   Anchors:
     lib/str/string.go ParseStringFunc, scenario/config/decode.go ParseShootName, SpreadNames
     lib/math/gcd_lcm.go GCD, GCDM
     scenario/http/decode.go decodeAmmo, convertScenarioToAmmo
     scenario/provider.go Provider.Run (cyclic delivery)
     guns/http_scenario/gun.go shoot, shootStep, reportErr
     scenario/http/preprocessor, postprocessor/{var_jsonpath,var_header,assert_response}
     lib/mp/map.go GetMapValue / calcIndex (paths used by preprocessors)

   Conventions: byte strings are [list N]; Go ints are Z; partial Go operations are explicit
   outcomes (errors, panics, out-of-fuel).  Modelling restriction: strings.TrimSpace is
   modelled for ASCII blanks only (Go also trims the UTF-8 encodings of U+0085, U+00A0, ... ;
   the model never treats a byte >= 128 as a blank). *)
From Coq Require Import List NArith ZArith Bool.
From PV Require Import Model.Iterator.
Import ListNotations.

Definition bytes := list N.

Definition beq (a b : bytes) : bool := seg_eqb a b.

(* ------------------------------------------------------------------------------------ *)
(** * 1. The request-list grammar: ParseStringFunc + ParseShootName *)

Definition c_open : N := 40.   (* '(' *)
Definition c_close : N := 41.  (* ')' *)
Definition c_comma : N := 44.  (* ',' *)

(* Go: asciiSpace = \t \n \v \f \r ' ' *)
Definition is_space (c : N) : bool := (N.eqb c 32 || (N.leb 9 c && N.leb c 13))%bool.

Fixpoint trim_left (s : bytes) : bytes :=
  match s with
  | c :: r => if is_space c then trim_left r else s
  | [] => []
  end.
Definition trim_right (s : bytes) : bytes := rev (trim_left (rev s)).
Definition trim (s : bytes) : bytes := trim_right (trim_left s).

(* strings.IndexRune for an ASCII rune, as a split: (text before the first c, text after it) *)
Fixpoint break_at (c : N) (s : bytes) : option (bytes * bytes) :=
  match s with
  | [] => None
  | x :: r =>
      if N.eqb x c then Some ([], r)
      else match break_at c r with
           | Some (a, b) => Some (x :: a, b)
           | None => None
           end
  end.

(* strings.Split(s, sep) for a one-byte separator: always at least one piece *)
Fixpoint split (sep : N) (s : bytes) : list bytes :=
  match s with
  | [] => [[]]
  | c :: r =>
      if N.eqb c sep then [] :: split sep r
      else match split sep r with
           | h :: t => (c :: h) :: t
           | [] => [[c]]
           end
  end.

Inductive psf := PsfErr | PsfOk (name : bytes) (args : option (list bytes)).

Definition parse_string_func (s : bytes) : psf :=
  match break_at c_open s with
  | None =>
      match break_at c_close s with
      | Some _ => PsfErr                       (* "invalid close bracket position" *)
      | None => PsfOk s None                   (* NB: not trimmed *)
      end
  | Some (pre, rest) =>
      let name := trim pre in
      let arg := trim rest in
      match break_at c_close arg with
      | None => PsfErr
      | Some (inner, after) =>
          match after with
          | [] => PsfOk name (Some (map trim (split c_comma (trim inner))))
          | _ => PsfErr                        (* closeIdx != len(arg)-1 *)
          end
      end
  end.

(* strconv.Atoi on 64-bit: optional sign, at least one digit, digits only, int64 range *)
Definition is_digit (c : N) : bool := (N.leb 48 c && N.leb c 57)%bool.

Fixpoint digits_val (acc : Z) (s : bytes) : option Z :=
  match s with
  | [] => Some acc
  | c :: r => if is_digit c then digits_val (acc * 10 + Z.of_N (c - 48))%Z r else None
  end.

Definition int64_min : Z := (-9223372036854775808)%Z.
Definition int64_max : Z := 9223372036854775807%Z.

Definition sign_split (s : bytes) : bool * bytes :=
  match s with
  | c :: r => if N.eqb c 43 then (false, r) else if N.eqb c 45 then (true, r) else (false, s)
  | [] => (false, [])
  end.

Definition atoi (s : bytes) : option Z :=
  let '(neg, ds) := sign_split s in
  match ds with
  | [] => None
  | _ => match digits_val 0 ds with
         | None => None
         | Some v => let z := if neg then (- v)%Z else v in
                     if (Z.leb int64_min z && Z.leb z int64_max)%bool then Some z else None
         end
  end.

Inductive pshoot := ShErr | ShOk (name : bytes) (cnt sleep : Z).

Definition arg_int (dflt : Z) (a : option bytes) : option Z :=
  match a with
  | None => Some dflt
  | Some [] => Some dflt
  | Some s => atoi s
  end.

Definition parse_shoot (s : bytes) : pshoot :=
  match parse_string_func s with
  | PsfErr => ShErr
  | PsfOk name args =>
      let l := match args with None => [] | Some l => l end in
      match arg_int 1 (nth_error l 0) with
      | None => ShErr
      | Some cnt =>
          match arg_int 0 (nth_error l 1) with
          | None => ShErr
          | Some sl => ShOk name cnt sl
          end
      end
  end.

(* Printers of the three documented forms; b0..b6 are runs of blanks, n and s are integer
   literals (optional sign + digits, or empty = default). *)
Definition print_bare (name : bytes) : bytes := name.
Definition print_n (b0 name b1 b2 n b3 b6 : bytes) : bytes :=
  b0 ++ name ++ b1 ++ c_open :: b2 ++ n ++ b3 ++ c_close :: b6.
Definition print_ns (b0 name b1 b2 n b3 b4 s b5 b6 : bytes) : bytes :=
  b0 ++ name ++ b1 ++ c_open :: b2 ++ n ++ b3 ++ c_comma :: b4 ++ s ++ b5 ++ c_close :: b6.

(* ------------------------------------------------------------------------------------ *)
(** * 2. Expansion of a scenario's request list: convertScenarioToAmmo *)

Definition sleep_name : bytes := [115; 108; 101; 101; 112]%N.   (* "sleep" *)

Inductive exp_err := EParse | ELeadingSleep | ENotFound.

Section Expand.
  Variable R : Type.

  (* reqRegistry[req.Name] = req : the last definition of a name wins *)
  Fixpoint lookup_last (reqs : list (bytes * R)) (name : bytes) : option R :=
    match reqs with
    | [] => None
    | (k, v) :: r =>
        match lookup_last r name with
        | Some x => Some x
        | None => if beq k name then Some v else None
        end
    end.

  (* result.Requests[len-1].Sleep += ms ; on an empty list Go indexes [-1]: that is the
     construction panic owned by C13; it is an explicit error outcome here. *)
  Fixpoint add_last (ms : Z) (l : list (R * Z)) : option (list (R * Z)) :=
    match l with
    | [] => None
    | [(r, s)] => Some [(r, (s + ms)%Z)]
    | x :: t => match add_last ms t with
                | Some t' => Some (x :: t')
                | None => None
                end
    end.

  Inductive exp_res := ExpErr (e : exp_err) | ExpOk (l : list (R * Z)).

  (* the loop of convertScenarioToAmmo, accumulator = result.Requests (pause in ms) *)
  Fixpoint expand_go (reqs : list (bytes * R)) (shoots : list bytes) (acc : list (R * Z)) : exp_res :=
    match shoots with
    | [] => ExpOk acc
    | sh :: rest =>
        match parse_shoot sh with
        | ShErr => ExpErr EParse
        | ShOk name cnt sl =>
            if beq name sleep_name then
              match add_last cnt acc with
              | None => ExpErr ELeadingSleep
              | Some acc' => expand_go reqs rest acc'
              end
            else
              match lookup_last reqs name with
              | None => ExpErr ENotFound
              | Some r =>
                  let pause := if (0 <? sl)%Z then sl else 0%Z in
                  expand_go reqs rest (acc ++ repeat (r, pause) (Z.to_nat cnt))
              end
        end
    end.

  Definition expand (reqs : list (bytes * R)) (shoots : list bytes) : exp_res :=
    expand_go reqs shoots [].

  (* Specification side: the list as the documentation describes it.  Items are the parsed
     entries; every request entry is followed by the sleeps that belong to it. *)
  Inductive item := IReq (r : R) (n : nat) (pause : Z) | ISleep (ms : Z).

  (* n >= 1 copies; the sleeps that follow go to the last copy only *)
  Definition copies (r : R) (n : nat) (pause extra : Z) : list (R * Z) :=
    match n with
    | O => []
    | S k => repeat (r, pause) k ++ [(r, (pause + extra)%Z)]
    end.

  (* right to left: (sum of the sleeps at the front of l, expansion of the rest) *)
  Fixpoint spec_exp (l : list item) : Z * list (R * Z) :=
    match l with
    | [] => (0%Z, [])
    | ISleep ms :: t => let '(e, out) := spec_exp t in ((ms + e)%Z, out)
    | IReq r n p :: t => let '(e, out) := spec_exp t in (0%Z, copies r n p e ++ out)
    end.
  Definition spec_expand (l : list item) : list (R * Z) := snd (spec_exp l).

  (* one entry of the list, read as the documentation reads it *)
  Definition item_of (reqs : list (bytes * R)) (sh : bytes) : option item :=
    match parse_shoot sh with
    | ShErr => None
    | ShOk name cnt sl =>
        if beq name sleep_name then Some (ISleep cnt)
        else match lookup_last reqs name with
             | None => None
             | Some r => Some (IReq r (Z.to_nat cnt) (if (0 <? sl)%Z then sl else 0%Z))
             end
    end.
End Expand.

Arguments ExpErr {R} _.
Arguments ExpOk {R} _.
Arguments IReq {R} _ _ _.
Arguments ISleep {R} _.

(* ------------------------------------------------------------------------------------ *)
(** * 3. Weights: GCD, GCDM, SpreadNames, the ring of decodeAmmo, cyclic delivery *)

(* func GCD(a, b int64): for a > 0 && b > 0 { if a >= b { a = a % b } else { b = b % a } };
   if a > b { return a }; return b.       None = out of fuel. *)
Fixpoint gcd_loop (fuel : nat) (a b : Z) : option Z :=
  if ((0 <? a) && (0 <? b))%Z%bool then
    match fuel with
    | O => None
    | S f => if (b <=? a)%Z then gcd_loop f (Z.rem a b) b else gcd_loop f a (Z.rem b a)
    end
  else Some (if (b <? a)%Z then a else b).

(* min(a,b) strictly decreases at every iteration *)
Definition gcd_go (a b : Z) : option Z := gcd_loop (S (Z.to_nat (Z.min a b))) a b.

(* func GCDM(weights ...int64), on the reversed slice (last element first) *)
Fixpoint gcdm_rev (rw : list Z) : option Z :=
  match rw with
  | z :: ((y :: rest') as rest) =>
      match gcd_go y z with
      | None => None
      | Some res =>
          match rest' with
          | [] => Some res
          | _ => match gcdm_rev rest with
                 | None => None
                 | Some g => gcd_go g res
                 end
          end
      end
  | _ => Some 0%Z
  end.
Definition gcdm_go (ws : list Z) : option Z := gcdm_rev (rev ws).

Definition norm_w (w : Z) : Z := if (w =? 0)%Z then 1%Z else w.

Inductive spread_res := SpOutOfFuel | SpPanic | SpOk (counts : list (bytes * Z)) (total : Z).

(* SpreadNames: name -> count (a Go map: later duplicates overwrite), and the total *)
Definition spread (scs : list (bytes * Z)) : spread_res :=
  match scs with
  | [] => SpOk [] 0%Z
  | [(n, _)] => SpOk [(n, 1%Z)] 1%Z
  | _ =>
      match gcdm_go (map (fun p => norm_w (snd p)) scs) with
      | None => SpOutOfFuel
      | Some d =>
          if (d =? 0)%Z then SpPanic     (* integer divide by zero *)
          else
            let counts := map (fun p => (fst p, Z.quot (norm_w (snd p)) d)) scs in
            SpOk counts (fold_left Z.add (map snd counts) 0%Z)
      end
  end.

Definition lookup_count (counts : list (bytes * Z)) (name : bytes) : option Z :=
  lookup_last Z counts name.

Inductive ring_res := RingOutOfFuel | RingPanic | RingOk (ring : list nat).

Fixpoint ring_go (counts : list (bytes * Z)) (names : list bytes) (i : nat) : list nat :=
  match names with
  | [] => []
  | n :: rest =>
      let c := match lookup_count counts n with Some c => c | None => 0%Z end in
      repeat i (Z.to_nat c) ++ ring_go counts rest (S i)
  end.

(* decodeAmmo: make([]*Scenario, 0, size) panics for size < 0; then scenario i (by position)
   is appended names[sc.Name] times *)
Definition ring_of (scs : list (bytes * Z)) : ring_res :=
  match spread scs with
  | SpOutOfFuel => RingOutOfFuel
  | SpPanic => RingPanic
  | SpOk counts total =>
      if (total <? 0)%Z then RingPanic
      else RingOk (ring_go counts (map fst scs) 0)
  end.

(* Specification side: weight w_i / gcd of all weights copies of i, in listed order *)
Definition gcd_list (ws : list Z) : Z := fold_right Z.gcd 0%Z ws.
Fixpoint spec_ring_go (g : Z) (ws : list Z) (i : nat) : list nat :=
  match ws with
  | [] => []
  | w :: rest => repeat i (Z.to_nat (norm_w w / g)) ++ spec_ring_go g rest (S i)
  end.
Definition spec_ring (ws : list Z) : list nat :=
  match ws with
  | [_] => [O]
  | _ => spec_ring_go (gcd_list (map norm_w ws)) ws 0
  end.

(* Provider.Run: the k-th delivered ammo (k = 0,1,...) is ammos[k % len] *)
Definition deliver (ring : list nat) (k : nat) : option nat :=
  match ring with
  | [] => None                                   (* ErrNoAmmo *)
  | _ => nth_error ring (Nat.modulo k (length ring))
  end.

Fixpoint count_nat (x : nat) (l : list nat) : nat :=
  match l with
  | [] => O
  | y :: r => (if Nat.eqb x y then 1 else 0) + count_nat x r
  end.

(* deliveries number a, a+1, ..., a+len-1 *)
Definition window (ring : list nat) (a len : nat) : list (option nat) :=
  map (deliver ring) (seq a len).

Fixpoint count_opt (x : nat) (l : list (option nat)) : nat :=
  match l with
  | [] => O
  | Some y :: r => (if Nat.eqb x y then 1 else 0) + count_opt x r
  | None :: r => count_opt x r
  end.

(* ------------------------------------------------------------------------------------ *)
(** * 4. One shot: the step loop of ScenarioGun.shoot / shootStep, oracles abstract *)

Inductive fail_kind := FPre | FRender | FTransport | FPost.

(* was the request handed to the HTTP client before the step failed? *)
Definition fk_sent (k : fail_kind) : bool :=
  match k with FPre | FRender => false | FTransport | FPost => true end.

(* Executable specification of one shot's observation.  steps: (name, id) of the scenario's
   expanded steps; sent: ids the target received; samples: (step name, success?) in report
   order.  True iff: samples are one per step for a prefix of the steps, in order; every
   sample but the last is a success and its request was received; if the last is a failure
   nothing follows it and its request was received at most once; if all are successes every
   step was executed; nothing else was received. *)
Fixpoint order_stop_b (steps : list (bytes * N)) (sent : list N) (samples : list (bytes * bool)) : bool :=
  match samples with
  | [] => match steps with [] => (match sent with [] => true | _ => false end) | _ => false end
  | (nm, ok) :: srest =>
      match steps with
      | [] => false
      | (snm, sid) :: steps' =>
          beq nm snm &&
          (if ok then
             match sent with
             | id :: sent' => N.eqb id sid && order_stop_b steps' sent' srest
             | [] => false
             end
           else
             match srest with
             | [] => match sent with
                     | [] => true
                     | [id] => N.eqb id sid
                     | _ => false
                     end
             | _ => false
             end)
      end
  end.

Section Shot.
  Variables (W Src Req Rend Resp V : Type).

  Definition vars := list (bytes * V).
  (* requestVars[name] = stepVars ; stepVars["preprocessor"], stepVars["postprocessor"] *)
  Record stepvars := { sv_pre : option vars; sv_post : option vars }.
  Definition reqmap := list (bytes * stepvars).
  Record tree := { t_src : Src; t_req : reqmap }.

  Fixpoint rm_get (m : reqmap) (name : bytes) : option stepvars :=
    match m with
    | [] => None
    | (k, v) :: r => if beq k name then Some v else rm_get r name
    end.
  Fixpoint rm_set (m : reqmap) (name : bytes) (v : stepvars) : reqmap :=
    match m with
    | [] => [(name, v)]
    | (k, x) :: r => if beq k name then (k, v) :: r else (k, x) :: rm_set r name v
    end.
  Definition t_set (t : tree) (name : bytes) (v : stepvars) : tree :=
    {| t_src := t_src t; t_req := rm_set (t_req t) name v |}.

  Variable rname : Req -> bytes.
  (* the oracles: the world W carries whatever they consult or change (iterator counters,
     the target's history, random sources, other instances' interference) *)
  Variable o_pre : Req -> tree -> W -> W * option vars.          (* Preprocessor.Process *)
  Variable o_render : Req -> tree -> W -> W * option Rend.       (* Templater.Apply + prepareRequest *)
  Variable o_exec : Rend -> W -> W * option Resp.                (* Client.Do + reading the body *)
  Variable o_post : Req -> Resp -> W -> W * option vars.         (* all postprocessors, merged *)
  Variable o_status : Resp -> Z.

  (* what the earlier steps of this shot produced, newest first:
     (step name, preprocessor vars, postprocessor vars) — ghost state, only recorded *)
  Definition history := list (bytes * vars * vars).

  Inductive event :=
  | EvRender (j : nat) (name : bytes) (t : tree) (h : history) (pv : vars)
      (* ghost: the tree handed to the templater, the history so far, the step's own preprocessor output *)
  | EvSend (j : nat) (r : Rend)
  | EvSampleOk (j : nat) (name : bytes) (status : Z)
  | EvSampleFail (j : nat) (name : bytes) (k : fail_kind)
  | EvPause (j : nat) (ms : Z).

  Inductive outcome := Done | FailedAt (j : nat) (k : fail_kind).

  Definition step (j : nat) (rq : Req) (sl : Z) (t : tree) (h : history) (w : W)
    : list event * W * (tree * history + fail_kind) :=
    let nm := rname rq in
    let t0 := t_set t nm {| sv_pre := None; sv_post := None |} in
    let '(w1, p) := o_pre rq t0 w in
    match p with
    | None => ([EvSampleFail j nm FPre], w1, inr FPre)
    | Some pv =>
        let t1 := t_set t0 nm {| sv_pre := Some pv; sv_post := None |} in
        let '(w2, r) := o_render rq t1 w1 in
        match r with
        | None => ([EvRender j nm t1 h pv; EvSampleFail j nm FRender], w2, inr FRender)
        | Some rend =>
            let '(w3, x) := o_exec rend w2 in
            match x with
            | None => ([EvRender j nm t1 h pv; EvSend j rend; EvSampleFail j nm FTransport], w3, inr FTransport)
            | Some resp =>
                let '(w4, q) := o_post rq resp w3 in
                match q with
                | None => ([EvRender j nm t1 h pv; EvSend j rend; EvSampleFail j nm FPost], w4, inr FPost)
                | Some pov =>
                    let t2 := t_set t1 nm {| sv_pre := Some pv; sv_post := Some pov |} in
                    (EvRender j nm t1 h pv :: EvSend j rend :: EvSampleOk j nm (o_status resp)
                       :: (if (0 <? sl)%Z then [EvPause j sl] else []),
                     w4, inl (t2, (nm, pv, pov) :: h))
                end
            end
        end
    end.

  (* for _, req := range ammo.Requests { ... if err != nil { reportErr; return err } } *)
  Fixpoint run (j : nat) (steps : list (Req * Z)) (t : tree) (h : history) (w : W)
    : list event * W * outcome :=
    match steps with
    | [] => ([], w, Done)
    | (rq, sl) :: rest =>
        let '(ev, w1, ot) := step j rq sl t h w in
        match ot with
        | inr k => (ev, w1, FailedAt j k)
        | inl (t1, h1) =>
            let '(ev2, w2, o) := run (S j) rest t1 h1 w1 in
            (ev ++ ev2, w2, o)
        end
    end.

  (* templateVars = {"source": ..., "request": {}} is fresh in every Shoot *)
  Definition shoot (src : Src) (steps : list (Req * Z)) (w : W) : list event * W * outcome :=
    run 0 steps {| t_src := src; t_req := [] |} [] w.

  (* The scenario-level pause min_waiting_time.  ScenarioGun.shoot: startAt := time.Now() before
     the first step; after the LAST step succeeded: spent := time.Since(startAt);
     if ammo.MinWaitingTime > spent { time.Sleep(ammo.MinWaitingTime - spent) }.
     A failing step returns before this point.  The clock is an oracle of the world. *)
  Variable o_elapsed : W -> Z.                       (* time.Since(startAt) when the loop is done *)

  Definition min_wait_sleep (minw spent : Z) : Z :=
    if (spent <? minw)%Z then (minw - spent)%Z else 0%Z.

  Definition shoot_timed (src : Src) (steps : list (Req * Z)) (minw : Z) (w : W)
    : list event * W * outcome * Z :=
    let '(evs, w1, out) := shoot src steps w in
    (evs, w1, out,
     match out with
     | Done => min_wait_sleep minw (o_elapsed w1)
     | FailedAt _ _ => 0%Z
     end).

  (* ---- observation helpers ---- *)
  Definition ev_index (e : event) : nat :=
    match e with
    | EvRender j _ _ _ _ | EvSend j _ | EvSampleOk j _ _ | EvSampleFail j _ _ | EvPause j _ => j
    end.
  Definition ev_rank (e : event) : nat :=
    match e with
    | EvRender _ _ _ _ _ => 0 | EvSend _ _ => 1
    | EvSampleOk _ _ _ => 2 | EvSampleFail _ _ _ => 2 | EvPause _ _ => 3
    end.
  (* position of an event in the shot: steps in order, within a step render < send < sample < pause *)
  Definition ev_key (e : event) : nat := 4 * ev_index e + ev_rank e.

  Definition sends (evs : list event) : list nat :=
    flat_map (fun e => match e with EvSend j _ => [j] | _ => [] end) evs.
  Definition samples (evs : list event) : list (nat * option Z) :=
    flat_map (fun e => match e with
                       | EvSampleOk j _ s => [(j, Some s)]
                       | EvSampleFail j _ _ => [(j, None)]
                       | _ => [] end) evs.
  Definition pauses (evs : list event) : list (nat * Z) :=
    flat_map (fun e => match e with EvPause j ms => [(j, ms)] | _ => [] end) evs.

  (* ---- executable specification of "order, stop at the first failure", evaluated on an
          observation: ids of the requests the target received (in order) and, per reported
          sample, the step name and whether it is a success ---- *)
  Variable rid : Req -> N.
  Variable rend_id : Rend -> N.

  Definition send_ids (evs : list event) : list N :=
    flat_map (fun e => match e with EvSend _ r => [rend_id r] | _ => [] end) evs.
  Definition sample_obs (evs : list event) : list (bytes * bool) :=
    flat_map (fun e => match e with
                       | EvSampleOk _ nm _ => [(nm, true)]
                       | EvSampleFail _ nm _ => [(nm, false)]
                       | _ => [] end) evs.
  Definition step_obs (steps : list (Req * Z)) : list (bytes * N) :=
    map (fun p => (rname (fst p), rid (fst p))) steps.

  (* ---- specification of variable visibility ---- *)
  Fixpoint latest (h : history) (name : bytes) : option (vars * vars) :=
    match h with
    | [] => None
    | (k, a, b) :: r => if beq k name then Some (a, b) else latest r name
    end.

  (* the entry of request [name] that a step called [cur], whose own preprocessor produced
     [pv], may see, given the history [h] of the earlier steps of this shot *)
  Definition visible (h : history) (cur : bytes) (pv : vars) (name : bytes) : option stepvars :=
    if beq cur name then Some {| sv_pre := Some pv; sv_post := None |}
    else match latest h name with
         | Some (a, b) => Some {| sv_pre := Some a; sv_post := Some b |}
         | None => None
         end.

  (* pauses the documentation promises for an executed prefix of the steps *)
  Fixpoint pauses_spec (j : nat) (steps : list (Req * Z)) : list (nat * Z) :=
    match steps with
    | [] => []
    | (_, sl) :: rest => (if (0 <? sl)%Z then [(j, sl)] else []) ++ pauses_spec (S j) rest
    end.
End Shot.

Arguments sv_pre {V} _.
Arguments sv_post {V} _.
Arguments Build_stepvars {V} _ _.
Arguments t_src {Src V} _.
Arguments t_req {Src V} _.
Arguments Build_tree {Src V} _ _.
Arguments rm_get {V} _ _.
Arguments rm_set {V} _ _ _.
Arguments EvRender {Src Rend V} _ _ _ _ _.
Arguments EvSend {Src Rend V} _ _.
Arguments EvSampleOk {Src Rend V} _ _ _.
Arguments EvSampleFail {Src Rend V} _ _ _.
Arguments EvPause {Src Rend V} _ _.

(* ------------------------------------------------------------------------------------ *)
(** * 5. The concrete instance used by the correspondence run *)

(* data sources: named row tables (file/csv: []map[string]string), one `variables`
   source named "g" (map of scalars) and further `variables` sources holding list variables
   (source -> list name -> elements); the same list name may occur under several sources *)
Record csrc := { cs_tables : list (bytes * list (list (bytes * bytes)));
                 cs_glob : list (bytes * bytes);
                 cs_vlists : list (bytes * list (bytes * list bytes)) }.

(* the path expressions the generated preprocessors use (lib/mp GetMapValue) *)
Inductive pexpr :=
| PNext (src field : bytes)          (* source.<src>[next].<field> *)
| PLast (src field : bytes)          (* source.<src>[last].<field> *)
| PIdx (src : bytes) (i : Z) (field : bytes)   (* source.<src>[<i>].<field> *)
| PGlob (key : bytes)                (* source.g.<key> *)
| PVNext (src lst : bytes)           (* source.<src>.<lst>[next]  (list variable of a variables source) *)
| PPost (req var : bytes)            (* request.<req>.postprocessor.<var> *)
| PPre (req var : bytes)             (* request.<req>.preprocessor.<var> *)
| PCall (v : option bytes).          (* a template function written as the mapping's value, e.g.
                                        randInt(source.g.k7, source.g.k7): its arguments name source
                                        variables without [next] (or are literals); the function's
                                        result is an oracle carried by the expression:
                                        Some text, or None = the function returned an error *)

Inductive cpost :=
| CJson (var field : bytes)          (* var/jsonpath  var: $.field *)
| CHeader (var : bytes)              (* var/header    var: X-Tok *)
| CStatus (code : Z)                 (* assert/response status_code *)
| CBody                              (* assert/response body: ["\"ok\""] *)
| CBroken.                           (* a postprocessor that fails on every response: var/header whose
                                        value has a malformed modifier (X-Tok|lower( ) *)

(* what the request's templates do beyond the standard parts (URI with source variables, the dump
   of .request in a header and in the body):
     TNone            nothing more
     TBad             one of the templates (URI, a header or the body) fails at execution on every
                      tree (a field of a string), possibly after it has produced output
     TRef r           header X-Ref: {{.request.<r>.postprocessor.tok}}   (never fails)
     TRefBad r        header X-Ref: v={{.request.<r>.postprocessor.tok.id}}: a field of the captured
                      value; fails exactly when <r> has run in this shot and captured tok (a string);
                      while nothing is captured the chain runs through missing keys: "no value" *)
Inductive ctmpl := TNone | TBad | TRef (req : bytes) | TRefBad (req : bytes).

(* cq_iter: which NextIterator the request's preprocessor ends up holding.  decodeAmmo creates
   one iterator per scenario and convertConfigToRequest calls InitIterator on the request
   definition's (shared, pointer) preprocessor for every mention of the request, so the
   iterator of the LAST scenario that mentions the request wins; [build] computes it. *)
Record creq := { cq_name : bytes; cq_id : N; cq_iter : N;
                 cq_pre : list (bytes * pexpr); cq_post : list cpost; cq_tmpl : ctmpl;
                 cq_html : bool }.                  (* templater: type: html *)

(* what the scripted target answers to the k-th request it receives; None = garbage on the
   wire (transport error) *)
Record cresp := { rs_status : Z; rs_json : bool; rs_fields : list (bytes * bytes);
                  rs_hdr : option bytes; rs_okbody : bool }.

Record cworld := { w_arr : nat;                       (* requests the target has received *)
                   w_script : list (option cresp);    (* answers by arrival number *)
                   w_dflt : nat -> cresp;             (* answer when the script has no entry *)
                   w_iter : iter_state }.             (* all NextIterators (keys carry the iterator number) *)

Definition ctree := tree csrc bytes.

Fixpoint assoc (l : list (bytes * bytes)) (k : bytes) : option bytes :=
  match l with
  | [] => None
  | (a, b) :: r => if beq a k then Some b else assoc r k
  end.

Fixpoint assoc_table (l : list (bytes * list (list (bytes * bytes)))) (k : bytes) :=
  match l with
  | [] => None
  | (a, b) :: r => if beq a k then Some b else assoc_table r k
  end.

Definition seg_next (own : N) (src : bytes) : seg :=
  (* ".source.<src>[next]" in iterator number [own] *)
  own :: [46;115;111;117;114;99;101;46]%N ++ src ++ [91;110;101;120;116;93]%N.

Definition seg_vnext (own : N) (src lst : bytes) : seg :=
  (* ".source.<src>.<lst>[next]" in iterator number [own]: the WHOLE path walked so far is the
     key (Model/MapPath.v), so lists of the same name under different sources do not share it *)
  own :: [46;115;111;117;114;99;101;46]%N ++ src ++ [46]%N ++ lst ++ [91;110;101;120;116;93]%N.

Fixpoint assoc_vsrc (l : list (bytes * list (bytes * list bytes))) (k : bytes) :=
  match l with
  | [] => None
  | (a, b) :: r => if beq a k then Some b else assoc_vsrc r k
  end.

Fixpoint assoc_vlist (l : list (bytes * list bytes)) (k : bytes) :=
  match l with
  | [] => None
  | (a, b) :: r => if beq a k then Some b else assoc_vlist r k
  end.

Definition with_iter (w : cworld) (st : iter_state) : cworld :=
  {| w_arr := w_arr w; w_script := w_script w; w_dflt := w_dflt w; w_iter := st |}.
Definition with_arr (w : cworld) (a : nat) : cworld :=
  {| w_arr := a; w_script := w_script w; w_dflt := w_dflt w; w_iter := w_iter w |}.

Definition row_field (rows : list (list (bytes * bytes))) (i : nat) (field : bytes) : option bytes :=
  match nth_error rows i with
  | Some row => assoc row field
  | None => None
  end.

(* Evaluation of one mapping.  Outer None = Go panics (empty table, counter beyond int) —
   outside this model's domain, the caller reports the case as unmodelled; inner None = error. *)
Definition eval_pexpr (own : N) (e : pexpr) (t : ctree) (w : cworld) : option (cworld * option bytes) :=
  match e with
  | PNext src field =>
      match assoc_table (cs_tables (t_src t)) src with
      | None => Some (w, None)
      | Some rows =>
          let '(v, st) := it_next (w_iter w) (seg_next own src) in
          match next_row (length rows) v with
          | NxPanic => None
          | NxRow i => Some (with_iter w st, row_field rows i field)
          end
      end
  | PLast src field =>
      match assoc_table (cs_tables (t_src t)) src with
      | None => Some (w, None)
      | Some rows => match rows with
                     | [] => None
                     | _ => Some (w, row_field rows (length rows - 1) field)
                     end
      end
  | PIdx src i field =>
      match assoc_table (cs_tables (t_src t)) src with
      | None => Some (w, None)
      | Some rows => match rows with
                     | [] => None
                     | _ => Some (w, row_field rows (Z.to_nat (Z.modulo i (Z.of_nat (length rows)))) field)
                     end
      end
  | PGlob key => Some (w, assoc (cs_glob (t_src t)) key)
  | PVNext src lst =>
      match assoc_vsrc (cs_vlists (t_src t)) src with
      | None => Some (w, None)
      | Some ls =>
          match assoc_vlist ls lst with
          | None => Some (w, None)
          | Some [] => Some (w, None)            (* calcIndex: empty list -> error *)
          | Some elems =>
              let '(v, st) := it_next (w_iter w) (seg_vnext own src lst) in
              match next_row (length elems) v with
              | NxPanic => None
              | NxRow i => Some (with_iter w st, nth_error elems i)
              end
          end
      end
  | PPost req var =>
      Some (w, match rm_get (t_req t) req with
               | Some sv => match sv_post sv with Some m => assoc m var | None => None end
               | None => None
               end)
  | PPre req var =>
      Some (w, match rm_get (t_req t) req with
               | Some sv => match sv_pre sv with Some m => assoc m var | None => None end
               | None => None
               end)
  | PCall v => Some (w, v)
  end.

Inductive pre_res := PrePanic | PreRes (w : cworld) (r : option (list (bytes * bytes))).

Fixpoint eval_mappings (own : N) (ms : list (bytes * pexpr)) (t : ctree) (w : cworld) (acc : list (bytes * bytes)) : pre_res :=
  match ms with
  | [] => PreRes w (Some acc)
  | (k, e) :: rest =>
      match eval_pexpr own e t w with
      | None => PrePanic
      | Some (w1, None) => PreRes w1 None
      | Some (w1, Some v) => eval_mappings own rest t w1 (acc ++ [(k, v)])
      end
  end.

(* the panic cases are outside the modelled domain: [case_wf] below excludes them, the
   oracle maps them to a failure so that it is total *)
Definition c_pre (rq : creq) (t : ctree) (w : cworld) : cworld * option (list (bytes * bytes)) :=
  match eval_mappings (cq_iter rq) (cq_pre rq) t w [] with
  | PrePanic => (w, None)
  | PreRes w1 r => (w1, r)
  end.

(* what the target will see of the rendered request *)
Record crend := { rd_id : N; rd_name : bytes; rd_vars : reqmap bytes;
                  rd_ref : option (option bytes); rd_a : option bytes;
                  rd_html : bool }.     (* rendered by the html templater: "no value" prints as nothing *)

(* the value request <r> captured as tok in this shot, as the template sees it *)
Definition c_captured_tok (t : ctree) (r : bytes) : option bytes :=
  match rm_get (t_req t) r with
  | Some sv => match sv_post sv with
               | Some m => assoc m [116;111;107]%N
               | None => None end
  | None => None
  end.

Definition c_novalue : bytes := [60;110;111;32;118;97;108;117;101;62]%N.   (* <no value> *)

Definition c_render (rq : creq) (t : ctree) (w : cworld) : cworld * option crend :=
  let ok ref :=
    (w, Some {| rd_id := cq_id rq; rd_name := cq_name rq; rd_vars := t_req t;
                rd_ref := ref; rd_a := assoc (cs_glob (t_src t)) [97]%N; rd_html := cq_html rq |}) in
  match cq_tmpl rq with
  | TBad => (w, None)
  | TNone => ok None
  | TRef r => ok (Some (c_captured_tok t r))
  | TRefBad r =>
      match c_captured_tok t r with
      | Some _ => (w, None)
      | None => ok (Some (Some ([118;61]%N ++ (if cq_html rq then [] else c_novalue))))
      end
  end.

Definition c_exec (r : crend) (w : cworld) : cworld * option cresp :=
  let k := w_arr w in
  let a := match nth_error (w_script w) k with
           | Some x => x
           | None => Some (w_dflt w k)
           end in
  (with_arr w (S k), a).

Fixpoint set_assoc (l : list (bytes * bytes)) (k v : bytes) : list (bytes * bytes) :=
  match l with
  | [] => [(k, v)]
  | (a, b) :: r => if beq a k then (a, v) :: r else (a, b) :: set_assoc r k v
  end.

Fixpoint c_post_go (ps : list cpost) (resp : cresp) (acc : list (bytes * bytes)) : option (list (bytes * bytes)) :=
  match ps with
  | [] => Some acc
  | CJson var field :: rest =>
      if rs_json resp then
        match assoc (rs_fields resp) field with
        | Some v => c_post_go rest resp (set_assoc acc var v)
        | None => None
        end
      else None
  | CHeader var :: rest =>
      match rs_hdr resp with
      | Some v => c_post_go rest resp (set_assoc acc var v)
      | None => c_post_go rest resp acc
      end
  | CStatus code :: rest =>
      if ((code =? 0) || (code =? rs_status resp))%Z%bool then c_post_go rest resp acc else None
  | CBody :: rest =>
      if rs_okbody resp then c_post_go rest resp acc else None
  | CBroken :: _ => None
  end.

Definition c_post (rq : creq) (resp : cresp) (w : cworld) : cworld * option (list (bytes * bytes)) :=
  (w, c_post_go (cq_post rq) resp []).

Definition c_send_ids := send_ids csrc crend bytes rd_id.
Definition c_sample_obs := sample_obs csrc crend bytes.
Definition c_step_obs := step_obs creq cq_name cq_id.
Definition c_shoot := shoot cworld csrc creq crend cresp bytes cq_name c_pre c_render c_exec c_post rs_status.

Definition cevent := event csrc crend bytes.

(* ---- construction of the provider's ammo: decodeAmmo ---- *)
Record cscen := { sc_name : bytes; sc_weight : Z; sc_shoots : list bytes;
                  sc_minwait : Z }.                  (* min_waiting_time, ms *)

(* MinWaitingTime of the ammo the gun receives for scenario number si: convertScenarioToAmmo
   sets it, Scenario.Clone (called by Provider.Acquire) copies it *)
Definition ammo_minwait (scs : list cscen) (si : nat) : Z :=
  nth si (map sc_minwait scs) 0%Z.

Inductive build_res :=
| BuildPanic
| BuildOutOfFuel
| BuildErr (i : nat) (e : exp_err)                 (* scenario i could not be converted *)
| BuildOk (exps : list (list (creq * Z))) (ring : list nat).

Fixpoint expand_all (reqs : list (bytes * creq)) (scs : list cscen) (i : nat)
  : nat * exp_err + list (list (creq * Z)) :=
  match scs with
  | [] => inr []
  | sc :: rest =>
      match expand creq reqs (sc_shoots sc) with
      | ExpErr e => inl (i, e)
      | ExpOk l => match expand_all reqs rest (S i) with
                   | inl x => inl x
                   | inr ls => inr (l :: ls)
                   end
      end
  end.

(* names of the requests a scenario mentions (any multiplicity, also 0) *)
Definition mentions (sc : cscen) : list bytes :=
  flat_map (fun sh => match parse_shoot sh with
                      | ShOk n _ _ => if beq n sleep_name then [] else [n]
                      | ShErr => []
                      end) (sc_shoots sc).

(* number of the last scenario that mentions [name] *)
Fixpoint owner_go (scs : list cscen) (name : bytes) (i : nat) (cur : N) : N :=
  match scs with
  | [] => cur
  | sc :: rest =>
      owner_go rest name (S i) (if existsb (beq name) (mentions sc) then N.of_nat i else cur)
  end.

Definition set_owner (scs : list cscen) (r : creq) : creq :=
  {| cq_name := cq_name r; cq_id := cq_id r; cq_iter := owner_go scs (cq_name r) 0 0%N;
     cq_pre := cq_pre r; cq_post := cq_post r; cq_tmpl := cq_tmpl r; cq_html := cq_html r |}.

Definition build (reqs : list creq) (scs : list cscen) : build_res :=
  match ring_of (map (fun s => (sc_name s, sc_weight s)) scs) with
  | RingOutOfFuel => BuildOutOfFuel
  | RingPanic => BuildPanic
  | RingOk ring =>
      match expand_all (map (fun r => (cq_name r, set_owner scs r)) reqs) scs 0 with
      | inl (i, e) => BuildErr i e
      | inr exps => BuildOk exps ring
      end
  end.

(* ---- a sequence of shots by one instance: shot s fires the s-th delivered scenario ---- *)
Record shot_res := { sr_scen : nat; sr_events : list cevent; sr_out : outcome }.

(* all iterators live side by side in one iter_state (keys carry the iterator number), so the
   world is simply threaded through *)
Fixpoint run_shots (src : csrc) (exps : list (list (creq * Z))) (ring : list nat)
         (k n : nat) (w : cworld) : list shot_res :=
  match n with
  | O => []
  | S n' =>
      match deliver ring k with
      | None => []
      | Some si =>
          let steps := nth si exps [] in
          let '(evs, w1, o) := c_shoot src steps w in
          {| sr_scen := si; sr_events := evs; sr_out := o |} :: run_shots src exps ring (S k) n' w1
      end
  end.

(* guards of the specification-side functions, as booleans for the driver *)
Definition weights_ok_b (scs : list cscen) : bool :=
  forallb (fun s => (0 <=? sc_weight s)%Z) scs.

(* the documented reading of a whole request list; None when an entry does not read, a
   multiplicity is 0 or the list starts with a sleep (C15_expand does not apply) *)
Fixpoint items_all (reqs : list (bytes * creq)) (shoots : list bytes) : option (list (item creq)) :=
  match shoots with
  | [] => Some []
  | sh :: rest =>
      match item_of creq reqs sh, items_all reqs rest with
      | Some (IReq r n p), Some l => if Nat.eqb n 0 then None else Some (IReq r n p :: l)
      | Some (ISleep ms), Some l => Some (ISleep ms :: l)
      | _, _ => None
      end
  end.
Definition items_of (reqs : list creq) (scs : list cscen) (sc : cscen) : option (list (item creq)) :=
  match items_all (map (fun r => (cq_name r, set_owner scs r)) reqs) (sc_shoots sc) with
  | Some (ISleep _ :: _) => None
  | x => x
  end.

(* well-formedness of a case for the concrete instance: every table has at least one row *)
Definition src_wf (s : csrc) : bool :=
  forallb (fun p => match snd p with [] => false | _ => true end) (cs_tables s).
