(* Model of components/providers/http/decoders/uri.go (uriDecoder.Scan/readLine) and the
   renderer of uri ammo files with layouts.  Definitions only. *)
From Coq Require Import List NArith ZArith Bool.
From PV Require Import Lib.AmmoBytes Lib.AmmoDecimal Lib.AmmoLines Model.AmmoCommon.
Import ListNotations.
Local Open Scope N_scope.

Section Uri.
  Variable url_parse : bytes -> option (bytes * bytes).

  (* readLine(data, commonHeader): Some entry | header update | skip | error *)
  Inductive line_res :=
  | LSkip (h : headers)
  | LEntry (e : entry)
  | LErr (e : err).

  Definition uri_read_line (data : bytes) (h : headers) : line_res :=
    let d := trim data in
    match d with
    | [] => LSkip h
    | c :: _ =>
        if N.eqb c LBR then
          match decode_header d with
          | inl (k, v) => LSkip (header_set k v h)
          | inr e => LErr e
          end
        else
          let '(raw, tag, _) := cut SP d in
          if negb (url_ok url_parse raw) then LErr EUrlParse
          else match setup url_parse GET raw [] h tag with
               | inl e => LEntry e
               | inr e => LErr e
               end
    end.

  (* the inner part of Scan on the lines the scanner still has: first entry, or an error,
     or the end of the lines *)
  Inductive pass_res :=
  | PFound (e : entry) (rest : list bytes) (h : headers)
  | PErr (e : err)
  | PEnd.

  Fixpoint uri_pass (ls : list bytes) (h : headers) : pass_res :=
    match ls with
    | [] => PEnd
    | l :: r =>
        match uri_read_line (drop_cr l) h with
        | LSkip h' => uri_pass r h'
        | LEntry e => PFound e r h
        | LErr e => PErr e
        end
    end.

  Record ustate := {
    u_all : list bytes;     (* what a scanner over the whole file yields *)
    u_end : scan_end;       (* why that scanner stops *)
    u_lines : list bytes;   (* lines not yet consumed in this pass *)
    u_hdr : headers;
    u_ammo : N;
    u_pass : N
  }.

  Definition uri_init (maxtok : N) (file : bytes) : ustate :=
    let '(ls, e) := scan_lines maxtok file in
    {| u_all := ls; u_end := e; u_lines := ls; u_hdr := []; u_ammo := 0; u_pass := 0 |}.

  (* the for-loop of Scan; [fuel] counts wrap-arounds (2 always suffice: C13_terminates_uri) *)
  Fixpoint uri_loop (fuel : nat) (c : dcfg) (s : ustate) : sres entry * ustate :=
    match fuel with
    | O => (SOutOfFuel, s)
    | S f =>
        match uri_pass (u_lines s) (u_hdr s) with
        | PFound e rest h =>
            (SDeliver e, {| u_all := u_all s; u_end := u_end s; u_lines := rest; u_hdr := h;
                            u_ammo := N.succ (u_ammo s); u_pass := u_pass s |})
        | PErr e => (SErr e, s)
        | PEnd =>
            match u_end s with
            | STooLong => (SErr ETooLong, s)
            | SEof =>
                let p := N.succ (u_pass s) in
                let s' := {| u_all := u_all s; u_end := u_end s; u_lines := []; u_hdr := u_hdr s;
                             u_ammo := u_ammo s; u_pass := p |} in
                if passes_hit c p then (SPassLimit, s')
                else if N.eqb (u_ammo s) 0 then (SNoAmmo, s')
                else uri_loop f c {| u_all := u_all s; u_end := u_end s; u_lines := u_all s;
                                     u_hdr := []; u_ammo := u_ammo s; u_pass := p |}
            end
        end
    end.

  Definition uri_scan (c : dcfg) (s : ustate) : sres entry * ustate :=
    if limit_hit c (u_ammo s) then (SAmmoLimit, s) else uri_loop 2 c s.

  (* k successive Scan calls, stopping at the first one that does not deliver (as
     Provider.Run does) *)
  Fixpoint uri_run (k : nat) (c : dcfg) (s : ustate) : list (sres entry) :=
    match k with
    | O => []
    | S k' =>
        let '(r, s') := uri_scan c s in
        match r with
        | SDeliver _ => r :: uri_run k' c s'
        | _ => [r]
        end
    end.

  Definition uri_decode (maxtok : N) (c : dcfg) (k : nat) (file : bytes) : list (sres entry) :=
    uri_run k c (uri_init maxtok file).
End Uri.

(* ---------- rendering uri ammo files ---------- *)

(* logical content of a uri file: header lines and request lines; blank lines are pure
   layout (p_text = []) *)
Inductive uitem :=
| UHeader (kl k kt vl v vt : bytes)
| UReq (uri tag : bytes)
| UBlank.

Definition uitem_text (i : uitem) : bytes :=
  match i with
  | UHeader kl k kt vl v vt => header_text kl k kt vl v vt
  | UReq u t => match t with [] => u | _ => u ++ SP :: t end
  | UBlank => []
  end.

Definition uline (i : uitem) (l : lay) : bytes := wrap_line l (uitem_text i).

Definition render_uri (items : list (uitem * lay)) (final_nl : bool) : bytes :=
  join_lf (map (fun il => uline (fst il) (snd il)) items) final_nl.

(* what the file means: the requests in order, each with the headers set before it *)
Fixpoint uri_entries (items : list uitem) (h : headers) : list entry :=
  match items with
  | [] => []
  | UHeader _ k _ _ v _ :: r => uri_entries r (header_set k v h)
  | UReq u t :: r =>
      {| e_method := GET; e_url := u; e_body := []; e_tag := t; e_headers := h |} :: uri_entries r h
  | UBlank :: r => uri_entries r h
  end.

(* the first k elements of l repeated for ever *)
Fixpoint cycle_take {A} (k : nat) (l cur : list A) : list A :=
  match k with
  | O => []
  | S k' =>
      match cur with
      | x :: r => x :: cycle_take k' l r
      | [] => match l with
              | x :: r => x :: cycle_take k' l r
              | [] => []
              end
      end
  end.

(* ---------- well-formed uri files (hypothesis of the round-trip theorem) ---------- *)
Section UriWf.
  Variable url_parse : bytes -> option (bytes * bytes).
  Variable maxtok : N.

  Definition wf_uitem (il : uitem * lay) : bool :=
    let '(i, l) := il in
    wf_lay l && N.ltb (nlen (uline i l)) maxtok &&
    match i with
    | UBlank => true
    | UHeader kl k kt vl v vt =>
        lblank kl && lblank kt && lblank vl && lblank vt && wf_key k && wf_val v
    | UReq u t =>
        negb (has SP u) && url_ok url_parse u
        && tight (uitem_text i) && nolf (uitem_text i)
        && match u with c :: _ => negb (N.eqb c LBR) | [] => false end
    end.
End UriWf.
