(* Fine-grained concurrent semantics of ONE leaf schedule - doAtSchedule (core/schedule/do_at.go) or
   unlimitedSchedule (unlilmited.go), both over start_sync.go: the leaves that Model/SchedTree.v /
   SchedConc.v / SchedNested.v treat as atomic objects.  (The unlimited leaf: see [unl_progs] below.)

   A method body is a list of [lstmt] - the synchronisation skeleton of the Go source, re-read from
   /repo on every run by harness/cmd/trC02 (coq/Gen/SchedSyncGen.v, bridge Gen/SchedSync_bridge.v):

     Next():  s.startOnce.Do(func() { s.MarkStarted(); s.start = time.Now() })
              i := s.i.Inc() - 1
              if i >= s.n { return s.start.Add(s.duration), false }; return s.start.Add(s.doAt(i)), true
     Start(t): s.MarkStarted(); s.startOnce.Do(func() { s.start = t })
     Left():  max(0, n - s.i.Load())

   Every shared access is its own step of its thread:
     AMarkStarted   started.Swap(true), panic "schedule is already started" when it was set
     ASetStartNow   s.start = time.Now()   (plain field write; the clock is read in this step)
     ASetStartArg   s.start = startAt
     AIncI          i := s.i.Inc() - 1     (atomic fetch-and-increment, the index goes to a local)
     ARetByIndex    reads s.start (plain field read) and returns start+doAt(i),true / start+duration,false
     ALoadLeft      s.i.Load(), returns max(0, n - i)
   sync.Once ([LOnce body]): a caller that finds the Once done skips it; a caller that finds another
   caller inside has NO step (it waits on the Once's mutex); otherwise it enters, runs the body action
   by action (other threads run in between) and, at the end, marks the Once done and releases it.
   [LIfNotStarted body] = `if !s.IsStarted() { body }` (an atomic load of the started flag).

   The field [start] is a plain time.Time: before anybody assigned it it holds the zero time
   ([l_start] of the initial state, a parameter).  Executable definitions only. *)
From Coq Require Import List ZArith Bool Arith.
From PV Require Import Model.SchedTree.
Import ListNotations.
Local Open Scope Z_scope.

Inductive lact : Type :=
| AMarkStarted | ASetStartNow | ASetStartArg | AIncI | ARetByIndex | ALoadLeft
(* unlimitedSchedule (unlilmited.go) *)
| AMarkStartedU | AStoreFinNow | AStoreFinArg | AReadNow | ARetUnl | ALeftUnlA | ALeftUnlB.

Inductive lstmt : Type :=
| LAct (a : lact)
| LOnce (body : list lact)
| LIfNotStarted (body : list lstmt).

(* flat code: the `if` becomes a conditional skip *)
Inductive kont : Type :=
| KAct (a : lact)
| KOnce (body : list lact)
| KOnceExit
| KSkipIfStarted (m : nat).

Fixpoint compile (s : lstmt) : list kont :=
  match s with
  | LAct a => [KAct a]
  | LOnce b => [KOnce b]
  | LIfNotStarted body => let b := flat_map compile body in KSkipIfStarted (length b) :: b
  end.

Record lprogs : Type := { p_next : list lstmt; p_start : list lstmt; p_left : list lstmt }.

(* do_at.go as it is *)
Definition doat_next_prog : list lstmt := [LOnce [AMarkStarted; ASetStartNow]; LAct AIncI; LAct ARetByIndex].
Definition doat_start_prog : list lstmt := [LAct AMarkStarted; LOnce [ASetStartArg]].
Definition doat_left_prog : list lstmt := [LAct ALoadLeft].
Definition doat_progs : lprogs :=
  {| p_next := doat_next_prog; p_start := doat_start_prog; p_left := doat_left_prog |}.

(* unlilmited.go as it is:
     Next():   s.startOnce.Do(func() { s.finish.Store(time.Now().Add(s.duration)); s.MarkStarted() })
               now := time.Now(); finish := s.finish.Load(); ... return by comparing now with finish
     Start(t): s.startOnce.Do(func() { s.finish.Store(t.Add(s.duration)) }); s.MarkStarted()
     Left():   if !s.IsStarted() || time.Now().Before(s.finish.Load()) { return -1 }; return 0
   AStoreFinNow / AStoreFinArg  s.finish.Store(...) (an atomic.Time; the clock is read in the same step)
   AMarkStartedU                MarkStarted() of this type: the same swap-and-panic as AMarkStarted; it is
                                the step in which the schedule STARTS for every other caller (Left looks at
                                the flag first), so the ghost history gets an explicit Start(finish - duration)
   AReadNow                     now := time.Now()  (the Next takes effect: its answer is a function of this
                                reading and of the finish time, which no longer changes)
   ARetUnl                      finish := s.finish.Load(); return ...
   ALeftUnlA                    !s.IsStarted(): return -1 at once when the flag is not set
   ALeftUnlB                    time.Now().Before(s.finish.Load()): return -1 / 0 *)
Definition unl_next_prog : list lstmt := [LOnce [AStoreFinNow; AMarkStartedU]; LAct AReadNow; LAct ARetUnl].
Definition unl_start_prog : list lstmt := [LOnce [AStoreFinArg]; LAct AMarkStartedU].
Definition unl_left_prog : list lstmt := [LAct ALeftUnlA; LAct ALeftUnlB].
Definition unl_progs : lprogs :=
  {| p_next := unl_next_prog; p_start := unl_start_prog; p_left := unl_left_prog |}.

Definition code (P : lprogs) (o : op) : list kont :=
  flat_map compile (match o with ONext => p_next P | OLeft => p_left P | OStart _ => p_start P end).

(* shared state of the leaf *)
Record lstate : Type := { l_started : bool; l_done : bool; l_busy : bool; l_start : Z; l_i : nat;
                          l_fin : Z (* unlimitedSchedule.finish *) }.

(* a thread: remaining code of the operation in progress ([] = between operations), the local
   index, the operations still to do, the values returned so far *)
Record lthread : Type := { lt_k : list kont; lt_idx : nat; lt_now : Z; lt_todo : list op; lt_hist : list obs }.

Definition next_res (n : nat) (d : Z) (a : nat -> Z) (st : Z) (i : nat) : obs :=
  if (i <? n)%nat then RNext (st + a i) true else RNext (st + d) false.
(* unlimitedSchedule.Next from the clock reading and the finish time *)
Definition unl_next_res (d : Z) (now fin : Z) : obs :=
  if now <? fin then RNext (Z.max now (fin - d)) true else RNext fin false.

Definition lt_return (th : lthread) (r : obs) : lthread :=
  {| lt_k := []; lt_idx := 0; lt_now := 0; lt_todo := tl (lt_todo th); lt_hist := lt_hist th ++ [r] |}.
(* continue with the remaining code; falling off the end of a body is a return without a value *)
Definition lt_goto (th : lthread) (idx : nat) (k : list kont) : lthread :=
  match k with
  | [] => lt_return th RStart
  | _ => {| lt_k := k; lt_idx := idx; lt_now := lt_now th; lt_todo := lt_todo th; lt_hist := lt_hist th |}
  end.
Definition lt_setnow (th : lthread) (now : Z) : lthread :=
  {| lt_k := lt_k th; lt_idx := lt_idx th; lt_now := now; lt_todo := lt_todo th; lt_hist := lt_hist th |}.

(* what a step contributes to the ghost history: the operation takes effect in this step *)
Definition lin := option (op * obs).

(* one step of one thread at clock [now]; None = no step (nothing to do / waiting for the Once) *)
Definition lstep (n : nat) (d : Z) (a : nat -> Z) (P : lprogs) (now : Z) (s : lstate) (th : lthread)
  : option (res (lstate * lthread * lin)) :=
  match lt_todo th with
  | [] => None
  | o :: _ =>
      let k := match lt_k th with [] => code P o | k => k end in
      match k with
      | [] => Some (Ok (s, lt_return th RStart, None))
      | KAct AMarkStarted :: r =>
          if l_started s then Some (Panic PStarted)
          else Some (Ok ({| l_started := true; l_done := l_done s; l_busy := l_busy s; l_start := l_start s; l_i := l_i s; l_fin := l_fin s |},
                         lt_goto th (lt_idx th) r, None))
      | KAct ASetStartNow :: r =>
          Some (Ok ({| l_started := l_started s; l_done := l_done s; l_busy := l_busy s; l_start := now; l_i := l_i s; l_fin := l_fin s |},
                    lt_goto th (lt_idx th) r, None))
      | KAct ASetStartArg :: r =>
          let t := match o with OStart t => t | _ => 0 end in
          Some (Ok ({| l_started := l_started s; l_done := l_done s; l_busy := l_busy s; l_start := t; l_i := l_i s; l_fin := l_fin s |},
                    lt_goto th (lt_idx th) r, None))
      | KAct AIncI :: r =>
          Some (Ok ({| l_started := l_started s; l_done := l_done s; l_busy := l_busy s; l_start := l_start s; l_i := S (l_i s); l_fin := l_fin s |},
                    lt_goto th (l_i s) r, Some (ONext, next_res n d a (l_start s) (l_i s))))
      | KAct ARetByIndex :: _ =>
          Some (Ok (s, lt_return th (next_res n d a (l_start s) (lt_idx th)), None))
      | KAct ALoadLeft :: _ =>
          let v := RLeft (Z.of_nat (n - l_i s)) in
          Some (Ok (s, lt_return th v, Some (OLeft, v)))
      | KAct AMarkStartedU :: r =>
          if l_started s then Some (Panic PStarted)
          else Some (Ok ({| l_started := true; l_done := l_done s; l_busy := l_busy s; l_start := l_start s; l_i := l_i s; l_fin := l_fin s |},
                         lt_goto th (lt_idx th) r, Some (OStart (l_fin s - d), RStart)))
      | KAct AStoreFinNow :: r =>
          Some (Ok ({| l_started := l_started s; l_done := l_done s; l_busy := l_busy s; l_start := l_start s; l_i := l_i s; l_fin := now + d |},
                    lt_goto th (lt_idx th) r, None))
      | KAct AStoreFinArg :: r =>
          let t := match o with OStart t => t | _ => 0 end in
          Some (Ok ({| l_started := l_started s; l_done := l_done s; l_busy := l_busy s; l_start := l_start s; l_i := l_i s; l_fin := t + d |},
                    lt_goto th (lt_idx th) r, None))
      | KAct AReadNow :: r =>
          Some (Ok (s, lt_goto (lt_setnow th now) (lt_idx th) r, Some (ONext, unl_next_res d now (l_fin s))))
      | KAct ARetUnl :: _ =>
          Some (Ok (s, lt_return th (unl_next_res d (lt_now th) (l_fin s)), None))
      | KAct ALeftUnlA :: r =>
          if l_started s then Some (Ok (s, lt_goto th (lt_idx th) r, None))
          else Some (Ok (s, lt_return th (RLeft (-1)), Some (OLeft, RLeft (-1))))
      | KAct ALeftUnlB :: _ =>
          let v := RLeft (if now <? l_fin s then -1 else 0) in
          Some (Ok (s, lt_return th v, Some (OLeft, v)))
      | KOnce body :: r =>
          if l_done s then Some (Ok (s, lt_goto th (lt_idx th) r, None))
          else if l_busy s then None
          else Some (Ok ({| l_started := l_started s; l_done := false; l_busy := true; l_start := l_start s; l_i := l_i s; l_fin := l_fin s |},
                         lt_goto th (lt_idx th) (map KAct body ++ KOnceExit :: r), None))
      | KOnceExit :: r =>
          Some (Ok ({| l_started := l_started s; l_done := true; l_busy := false; l_start := l_start s; l_i := l_i s; l_fin := l_fin s |},
                    lt_goto th (lt_idx th) r, None))
      | KSkipIfStarted m :: r =>
          Some (Ok (s, lt_goto th (lt_idx th) (if l_started s then skipn m r else r), None))
      end
  end.

(* ---------------------------------------------------------------- the whole system *)
(* [lg_ghost]: (thread, clock reading of the step, operation, result) in the order in which the operations took effect; written
   only (no step reads it) *)
Record lgstate : Type := { lg_s : lstate; lg_lo : Z; lg_threads : list lthread; lg_ghost : list (nat * Z * op * obs) }.

Fixpoint lupd {A} (i : nat) (x : A) (l : list A) : list A :=
  match l, i with
  | [], _ => []
  | _ :: r, O => x :: r
  | y :: r, S j => y :: lupd j x r
  end.

Definition lg_after (g : lgstate) (i : nat) (now : Z) (s' : lstate) (th' : lthread) (e : lin) : lgstate :=
  {| lg_s := s'; lg_lo := now; lg_threads := lupd i th' (lg_threads g);
     lg_ghost := match e with Some (o, r) => lg_ghost g ++ [(i, now, o, r)] | None => lg_ghost g end |}.

(* any thread that has a step, any clock value not before the last one *)
Inductive lgstep (n : nat) (d : Z) (a : nat -> Z) (P : lprogs) : lgstate -> lgstate -> Prop :=
| lgstep_intro g i th now s' th' e :
    nth_error (lg_threads g) i = Some th -> lg_lo g <= now ->
    lstep n d a P now (lg_s g) th = Some (Ok (s', th', e)) ->
    lgstep n d a P g (lg_after g i now s' th' e).

Inductive lreach (n : nat) (d : Z) (a : nat -> Z) (P : lprogs) (g0 : lgstate) : lgstate -> Prop :=
| lreach_refl : lreach n d a P g0 g0
| lreach_step g g' : lreach n d a P g0 g -> lgstep n d a P g g' -> lreach n d a P g0 g'.

(* some thread's next step panics *)
Definition lstuck (n : nat) (d : Z) (a : nat -> Z) (P : lprogs) (g : lgstate) : Prop :=
  exists i th now k, nth_error (lg_threads g) i = Some th /\ lg_lo g <= now /\
    lstep n d a P now (lg_s g) th = Some (Panic k).

Definition lthread_init (ops : list op) : lthread := {| lt_k := []; lt_idx := 0; lt_now := 0; lt_todo := ops; lt_hist := [] |}.

(* a fresh leaf nobody called Start on ([zero] = the zero time.Time in the start field) *)
Definition linit (zero lo : Z) (plans : list (list op)) : lgstate :=
  {| lg_s := {| l_started := false; l_done := false; l_busy := false; l_start := zero; l_i := 0; l_fin := zero |};
     lg_lo := lo; lg_threads := map lthread_init plans; lg_ghost := [] |}.
(* the same after a sequential Start(t) (what compositeSchedule.startNext does under its write lock) *)
Definition linit_started (t lo : Z) (plans : list (list op)) : lgstate :=
  {| lg_s := {| l_started := true; l_done := true; l_busy := false; l_start := t; l_i := 0; l_fin := t |};
     lg_lo := lo; lg_threads := map lthread_init plans; lg_ghost := [] |}.

(* executable scheduler: a list of (thread, clock reading); None = that thread has no step there, the
   clock went backwards, or the step panicked *)
Fixpoint lrun (n : nat) (d : Z) (a : nat -> Z) (P : lprogs) (sch : list (nat * Z)) (g : lgstate) : option lgstate :=
  match sch with
  | [] => Some g
  | (i, now) :: r =>
      match nth_error (lg_threads g) i with
      | None => None
      | Some th =>
          if now <? lg_lo g then None else
          match lstep n d a P now (lg_s g) th with
          | Some (Ok (s', th', e)) => lrun n d a P r (lg_after g i now s' th' e)
          | _ => None
          end
      end
  end.

Definition is_ostart (o : op) : bool := match o with OStart _ => true | _ => false end.
(* results of thread [j] in the ghost history (the explicit Start entries are nobody's result) *)
Definition ghost_of (j : nat) (gh : list (nat * Z * op * obs)) : list obs :=
  map snd (filter (fun x => Nat.eqb (fst (fst (fst x))) j && negb (is_ostart (snd (fst x)))) gh).
Definition clk_op (x : nat * Z * op * obs) : Z * op := (snd (fst (fst x)), snd (fst x)).
