(* Model for property C19 (no response from the target can abort or crash the run).
   (a) response-handling control flow of BaseGun.Shoot, ScenarioGun.shoot/shootStep and of the instance loop,
       over an abstract response; leaves: Returned samples | panic;
   (b) the response-derived pure computations of the scenario postprocessors with the partial Go operations
       explicit (string slicing, type assertion): var/header modifiers incl. the captured start/end of substr,
       assert/response (http and grpc), var/xpath, var/jsonpath (library results are inputs).
   Executable definitions only. *)
From Coq Require Import List ZArith NArith Bool.
Import ListNotations.
Local Open Scope Z_scope.

Definition bstr := list N.

Inductive outcome (A : Type) : Type :=
| Done (a : A)        (* returned a value *)
| Failed              (* returned an error *)
| Panicked.           (* run-time panic *)
Arguments Done {A} a.
Arguments Failed {A}.
Arguments Panicked {A}.

Definition is_panic {A} (o : outcome A) : bool := match o with Panicked => true | _ => false end.

Definition blen (s : bstr) : Z := Z.of_nat (length s).

(* Go: s[lo:hi] on a string — run-time panic unless 0 <= lo <= hi <= len(s) *)
Definition go_slice (s : bstr) (lo hi : Z) : outcome bstr :=
  if (0 <=? lo) && (lo <=? hi) && (hi <=? blen s)
  then Done (firstn (Z.to_nat (hi - lo)) (skipn (Z.to_nat lo) s))
  else Panicked.

(* ---------- var/header modifiers ---------- *)

(* the variables start, end captured by the closure VarHeaderPostprocessor.substr returns *)
Record substr_st := { sb_start : Z; sb_end : Z }.

(* one call of that closure: result and the captured variables afterwards.
     l := len(in); s, e := start, end
     if s < 0 { s = l + s }; if s < 0 { s = 0 }; if s > l { s = l }
     if e <= 0 { e = l + e }; if e < 0 { e = 0 }; if e > l { e = l }
     if s > e { s, e = e, s }
     return in[s:e]
   (the captured variables themselves are no longer assigned) *)
Definition substr_call (st : substr_st) (s : bstr) : outcome bstr * substr_st :=
  let l := blen s in
  let s1 := if sb_start st <? 0 then l + sb_start st else sb_start st in
  let s2 := if s1 <? 0 then 0 else s1 in
  let s3 := if s2 >? l then l else s2 in
  let e1 := if sb_end st <=? 0 then l + sb_end st else sb_end st in
  let e2 := if e1 <? 0 then 0 else e1 in
  let e3 := if e2 >? l then l else e2 in
  let '(lo, hi) := if s3 >? e3 then (e3, s3) else (s3, e3) in
  (go_slice s lo hi, st).

(* successive calls of ONE closure *)
Fixpoint substr_seq (st : substr_st) (inputs : list bstr) : list (outcome bstr) :=
  match inputs with
  | [] => []
  | s :: r => let '(o, st') := substr_call st s in o :: substr_seq st' r
  end.

(* strconv.Atoi on an argument: optional sign, decimal digits, int64 range *)
Definition digit_val (c : N) : option Z :=
  if (48 <=? c)%N && (c <=? 57)%N then Some (Z.of_N c - 48) else None.
Fixpoint digits_val (acc : Z) (s : bstr) : option Z :=
  match s with
  | [] => Some acc
  | c :: r => match digit_val c with Some d => digits_val (acc * 10 + d) r | None => None end
  end.
Definition atoi (s : bstr) : option Z :=
  let '(neg, ds) := match s with
                    | 43%N :: r => (false, r)
                    | 45%N :: r => (true, r)
                    | _ => (false, s)
                    end in
  match ds with
  | [] => None
  | _ => match digits_val 0 ds with
         | Some v => let v' := if neg then - v else v in
                     if (- 9223372036854775808 <=? v') && (v' <=? 9223372036854775807) then Some v' else None
         | None => None
         end
  end.

Definition lower_b (c : N) : N := if (65 <=? c)%N && (c <=? 90)%N then (c + 32)%N else c.
Definition upper_b (c : N) : N := if (97 <=? c)%N && (c <=? 122)%N then (c - 32)%N else c.

Fixpoint prefixb (p s : bstr) : bool :=
  match p, s with
  | [], _ => true
  | a :: p', b :: s' => N.eqb a b && prefixb p' s'
  | _ :: _, [] => false
  end.

(* strings.ReplaceAll on ASCII text, old non-empty: leftmost non-overlapping matches *)
Fixpoint repl_aux (old new : bstr) (skip : nat) (s : bstr) : bstr :=
  match s with
  | [] => []
  | c :: r =>
      match skip with
      | S k => repl_aux old new k r
      | O => if prefixb old s then new ++ repl_aux old new (length old - 1) r
             else c :: repl_aux old new O r
      end
  end.
(* old empty: new is inserted before every character and at the end *)
Definition replace_all (s old new : bstr) : bstr :=
  match old with
  | [] => flat_map (fun c => new ++ [c]) s ++ new
  | _ => repl_aux old new O s
  end.

(* a modifier as written in the mapping: name + raw arguments *)
Inductive mod_spec :=
| SLower | SUpper
| SSubstr (args : list bstr)
| SReplace (args : list bstr)
| SUnknown.

Inductive modifier := MLower | MUpper | MSubstr (st : substr_st) | MReplace (a b : bstr).

(* parseModifier: None = error *)
Definition parse_modifier (m : mod_spec) : option modifier :=
  match m with
  | SLower => Some MLower
  | SUpper => Some MUpper
  | SSubstr [a] => match atoi a with Some s => Some (MSubstr {| sb_start := s; sb_end := 0 |}) | None => None end
  | SSubstr [a; b] => match atoi a, atoi b with
                      | Some s, Some e => Some (MSubstr {| sb_start := s; sb_end := e |})
                      | _, _ => None
                      end
  | SSubstr _ => None
  | SReplace [a; b] => Some (MReplace a b)
  | SReplace _ => None
  | SUnknown => None
  end.

Fixpoint parse_chain (ms : list mod_spec) : option (list modifier) :=
  match ms with
  | [] => Some []
  | m :: r => match parse_modifier m, parse_chain r with
              | Some x, Some xs => Some (x :: xs)
              | _, _ => None
              end
  end.

Definition apply_mod (m : modifier) (s : bstr) : outcome bstr :=
  match m with
  | MLower => Done (map lower_b s)
  | MUpper => Done (map upper_b s)
  | MSubstr st => fst (substr_call st s)
  | MReplace a b => Done (replace_all s a b)
  end.

Fixpoint apply_chain (ms : list modifier) (s : bstr) : outcome bstr :=
  match ms with
  | [] => Done s
  | m :: r => match apply_mod m s with
              | Done s' => apply_chain r s'
              | Failed => Failed
              | Panicked => Panicked
              end
  end.

(* VarHeaderPostprocessor.Process for one mapping entry and one header value ("" = header absent):
   the chain is parsed anew on every call; None = variable not set *)
Definition var_header_one (chain : list mod_spec) (value : bstr) : outcome (option bstr) :=
  match parse_chain chain with
  | None => Failed
  | Some ms => match value with
               | [] => Done None
               | _ => match apply_chain ms value with
                      | Done v => Done (Some v)
                      | Failed => Failed
                      | Panicked => Panicked
                      end
               end
  end.

(* several mapping entries (in the iteration order of the map): first error / panic ends the call *)
Fixpoint var_header_process (mapping : list (list mod_spec * bstr)) : outcome unit :=
  match mapping with
  | [] => Done tt
  | (chain, value) :: r =>
      match var_header_one chain value with
      | Done _ => var_header_process r
      | Failed => Failed
      | Panicked => Panicked
      end
  end.

(* ---------- assert/response (http) ---------- *)
Fixpoint containsb (s pat : bstr) : bool :=
  prefixb pat s || match s with [] => false | _ :: r => containsb r pat end.

Inductive size_op := OpEq | OpLt | OpGt | OpOther.
Record assert_cfg := {
  as_body : list bstr;
  as_headers : list (bstr * bstr);      (* header name as looked up, pattern *)
  as_status : Z;
  as_size : option (Z * size_op)
}.
Record resp_view := {
  rv_status : Z;
  rv_header : bstr -> bstr;            (* resp.Header.Get *)
  rv_body : bstr
}.

Definition assert_process (a : assert_cfg) (r : resp_view) : outcome unit :=
  (* the body is read only when body patterns are configured *)
  let b := match as_body a with [] => [] | _ => rv_body r end in
  if negb (forallb (fun p => containsb b p) (as_body a)) then Failed
  else if negb (forallb (fun kv => containsb (rv_header r (fst kv)) (snd kv)) (as_headers a)) then Failed
  else if negb (as_status a =? 0) && negb (as_status a =? rv_status r) then Failed
  else match as_size a with
       | None => Done tt
       | Some (v, OpEq) => if v =? blen b then Done tt else Failed
       | Some (v, OpLt) => if v <? blen b then Failed else Done tt
       | Some (v, OpGt) => if v >? blen b then Failed else Done tt
       | Some (_, OpOther) => Failed
       end.

(* assert/response (grpc): status first, then payload patterns against the rendered message (None = nil message) *)
Definition grpc_assert (cfg_status : Z) (payload : list bstr) (code : Z) (out : option bstr) : outcome unit :=
  if negb (cfg_status =? 0) && negb (cfg_status =? code) then Failed
  else match payload with
       | [] => Done tt
       | _ => match out with
              | None => Failed
              | Some o => if forallb (fun p => containsb o p) payload then Done tt else Failed
              end
       end.

(* ---------- var/xpath, var/jsonpath: the libraries' answers are inputs ---------- *)
Inductive xkind := XNodeSet | XNumber | XString | XBool.
(* getValuesFromDOM: compile error -> error; the value of Evaluate is used as a node iterator only after a
   checked type assertion (a non-node-set value is an error) *)
Definition xpath_values (compiles : bool) (k : xkind) : outcome unit :=
  if negb compiles then Failed
  else match k with XNodeSet => Done tt | _ => Failed end.

Fixpoint var_xpath_process (mapping : list (bool * xkind)) : outcome unit :=
  match mapping with
  | [] => Done tt
  | (c, k) :: r => match xpath_values c k with
                   | Done _ => var_xpath_process r
                   | Failed => Failed
                   | Panicked => Panicked
                   end
  end.

Definition var_jsonpath_process (json_ok : bool) (paths_ok : list bool) : outcome unit :=
  if negb json_ok then Failed else if forallb (fun b => b) paths_ok then Done tt else Failed.

(* ---------- variables taken from earlier responses, indexed by later steps (lib/mp GetMapValue / calcIndex) ---------- *)
Inductive index_spec := INum (i : Z) | INext | IRand | ILast | IBad.

(* Go: a % b panics for b = 0 (truncated remainder otherwise); rand.Intn(n) panics for n <= 0; v[i] panics out of range *)
Definition go_rem (a b : Z) : outcome Z := if b =? 0 then Panicked else Done (Z.rem a b).
Definition go_intn (n r : Z) : outcome Z := if n <=? 0 then Panicked else Done (r mod n).
Definition go_elem (i len : Z) : outcome unit := if (0 <=? i) && (i <? len) then Done tt else Panicked.

(* calcIndex(indexStr, segment, length, iter): [counter] = what iter.Next returns, [rnd] = the random source's draw *)
Definition calc_index (ix : index_spec) (len counter rnd : Z) : outcome Z :=
  if len =? 0 then Failed
  else match ix with
       | IBad => Failed
       | INum i =>
           if (0 <=? i) && (i <? len) then Done i
           else match go_rem i len with
                | Done m => Done (if m <? 0 then m + len else m)
                | Failed => Failed
                | Panicked => Panicked
                end
       | ILast => Done (len - 1)
       | IRand => go_intn len rnd
       | INext => if counter >=? len then go_rem counter len else Done counter
       end.

(* extractFromSlice: index computed, then v[index] *)
Definition extract_elem (ix : index_spec) (len counter rnd : Z) : outcome unit :=
  match calc_index ix len counter rnd with
  | Done i => go_elem i len
  | Failed => Failed
  | Panicked => Panicked
  end.

(* a step's preprocessor: nothing, or a mapping entry indexing a list (of that length) an earlier step extracted *)
Inductive pre_cfg := PreNone | PreIndex (ix : index_spec) (len counter rnd : Z).
Definition pre_eval (p : pre_cfg) : outcome unit :=
  match p with PreNone => Done tt | PreIndex ix len c r => extract_elem ix len c r end.

(* a configured postprocessor together with what it sees of the response *)
Inductive pp_cfg :=
| PPHeader (mapping : list (list mod_spec * bstr))      (* modifier chain, value of the header *)
| PPAssert (a : assert_cfg) (r : resp_view)
| PPXpath (mapping : list (bool * xkind))
| PPJsonpath (json_ok : bool) (paths_ok : list bool).

Definition pp_eval (p : pp_cfg) : outcome unit :=
  match p with
  | PPHeader m => var_header_process m
  | PPAssert a r => assert_process a r
  | PPXpath m => var_xpath_process m
  | PPJsonpath j ps => var_jsonpath_process j ps
  end.

(* ---------- guns ---------- *)
Inductive conn := ConnOk | ConnRefused | ConnReset | ConnTimeout | ConnEof | ConnProto.
Record response := {
  rs_conn : conn;          (* anything but ConnOk: Client.Do returned an error *)
  rs_status : Z;
  rs_body_ok : bool;       (* reading the body to EOF succeeds *)
  rs_h2 : bool             (* the connection negotiated HTTP/2 *)
}.
Record sample := { sm_code : Z; sm_err : bool }.
Inductive shot := Returned (samples : list sample) | ShotPanic (reported_before : list sample).

(* gun options that add branches to the response handling: httptrace {dump, trace}, answlog {enabled, filter},
   debug-level logging (verboseLogging) *)
Inductive answ_filter := AnswAll | AnswWarning | AnswError | AnswOther.
Record gun_opts := { go_dump : bool; go_trace : bool; go_answlog : option answ_filter; go_debug : bool }.

Record base_cfg := {
  bc_bound : bool;                (* Bind was called (the engine always does) *)
  bc_connect : option bool;       (* optional Connect hook and whether it succeeds; None for the http/http2 guns *)
  bc_http2 : bool;                (* client wrapped in panicOnHTTP1Client *)
  bc_opts : gun_opts
}.

Definition conn_ok (c : conn) : bool := match c with ConnOk => true | _ => false end.

(* httputil.DumpResponse(res, true) / verboseLogging(res) / answLogging(.., res): dereference res — a nil response panics *)
Definition deref_response (res_present : bool) : outcome unit := if res_present then Done tt else Panicked.

Definition answ_applies (f : answ_filter) (status : Z) : bool :=
  match f with AnswAll => true | AnswWarning => 400 <=? status | AnswError => 500 <=? status | AnswOther => false end.

(* the dump / trace / logging branches after Client.Do (BaseGun.Shoot; ScenarioGun.saveTrace + logging):
     if DumpEnabled && res != nil { DumpResponse(res) }        trace timings: plain field reads
     if err != nil { return }
     if DebugLog { verboseLogging(res) };  if AnswLog.Enabled { per filter: answLogging(.., res) }
   None of them touches the sample; each completes or panics. *)
Definition side_branches (o : gun_opts) (r : response) : outcome unit :=
  let has_res := conn_ok (rs_conn r) in
  match (if go_dump o && has_res then deref_response has_res else Done tt) with
  | Done _ =>
      if negb has_res then Done tt
      else match (if go_debug o then deref_response has_res else Done tt) with
           | Done _ => match go_answlog o with
                       | Some f => if answ_applies f (rs_status r) then deref_response has_res else Done tt
                       | None => Done tt
                       end
           | x => x
           end
  | x => x
  end.

(* BaseGun.Shoot *)
Definition base_shoot (c : base_cfg) (invalid_ammo : bool) (r : response) : shot :=
  if negb (bc_bound c) then ShotPanic []
  else match bc_connect c with
       | Some false => Returned []                                        (* "Connect fail": return, nothing reported *)
       | _ =>
           if invalid_ammo then Returned [{| sm_code := 0; sm_err := false |}]
           else if bc_http2 c && negb (rs_h2 r) && conn_ok (rs_conn r) then
             (* documented fatal: the target is reached but does not negotiate HTTP/2 (ALPN alert or checkHTTP2):
                panicOnHTTP1Client.Do panics inside Client.Do; the deferred Report still runs while unwinding *)
             ShotPanic [{| sm_code := 0; sm_err := false |}]
           else if is_panic (side_branches (bc_opts c) r) then
             (* a panic in a dump/logging branch: the deferred SetErr/Report still runs, then the panic goes on *)
             ShotPanic [{| sm_code := 0; sm_err := negb (conn_ok (rs_conn r)) |}]
           else if negb (conn_ok (rs_conn r)) then
             Returned [{| sm_code := 0; sm_err := true |}]                (* deferred SetErr + Report *)
           else
             (* SetProtoCode(status); io.Copy(Discard, Body): a read error is recorded by the deferred SetErr *)
             Returned [{| sm_code := rs_status r; sm_err := negb (rs_body_ok r) |}]
       end.

(* one scenario step as the gun sees it *)
Record step_in := {
  si_opts : gun_opts;             (* options of the gun (the same for every step of a run) *)
  si_pre : outcome unit;          (* preprocessor *)
  si_tmpl_ok : bool;              (* templater.Apply *)
  si_prep_ok : bool;              (* prepareRequest *)
  si_resp : response;
  si_pps : list (outcome unit)    (* postprocessors, in order *)
}.
Inductive step_out := StepOk (s : sample) | StepErr | StepPanic.

Fixpoint run_pps (pps : list (outcome unit)) : outcome unit :=
  match pps with
  | [] => Done tt
  | Done _ :: r => run_pps r
  | Failed :: _ => Failed
  | Panicked :: _ => Panicked
  end.

(* ScenarioGun.shootStep *)
Definition shoot_step (s : step_in) : step_out :=
  if is_panic (si_pre s) then StepPanic
  else if negb (match si_pre s with Done _ => true | _ => false end) then StepErr
  else if negb (si_tmpl_ok s) then StepErr
  else if negb (si_prep_ok s) then StepErr
  else if is_panic (side_branches (si_opts s) (si_resp s)) then StepPanic
  else if negb (conn_ok (rs_conn (si_resp s))) then StepErr
  else if negb (rs_body_ok (si_resp s)) then StepErr
  else match run_pps (si_pps s) with
       | Done _ => StepOk {| sm_code := rs_status (si_resp s); sm_err := false |}
       | Failed => StepErr
       | Panicked => StepPanic
       end.

(* ScenarioGun.shoot: steps in order; the first failing step is reported by reportErr (code 0 + error) and ends the shot *)
Fixpoint scenario_steps (steps : list step_in) (acc : list sample) : shot :=
  match steps with
  | [] => Returned acc
  | s :: r => match shoot_step s with
              | StepOk sm => scenario_steps r (acc ++ [sm])
              | StepErr => Returned (acc ++ [{| sm_code := 0; sm_err := true |}])
              | StepPanic => ShotPanic acc
              end
  end.
Definition scenario_shoot (bound : bool) (steps : list step_in) : shot :=
  if negb bound then ShotPanic [] else scenario_steps steps [].

(* how many steps a shot executes: up to and including the first one that does not end in StepOk *)
Fixpoint executed (steps : list step_in) : nat :=
  match steps with
  | [] => O
  | s :: r => match shoot_step s with StepOk _ => S (executed r) | _ => 1%nat end
  end.

(* grpc gun (components/guns/grpc/core.go shoot): unknown method -> code 0, payload that does not fit the message ->
   400, otherwise the mapped status of the call (503 for a refusing / vanished target); always exactly one sample,
   reported by the deferred function; the gun never sets an error on the sample *)
Inductive grpc_result := GrpcNoMethod | GrpcBadPayload | GrpcStatus (code : Z).
Definition grpc_shoot (r : grpc_result) : shot :=
  Returned [{| sm_code := match r with GrpcNoMethod => 0 | GrpcBadPayload => 400 | GrpcStatus c => c end; sm_err := false |}].
(* Gun.Bind: needs the warm-up result; the per-instance connection is dialled WITHOUT blocking, so Bind does not depend
   on whether the target accepts connections at that moment *)
Definition grpc_bind (warmup_ok : bool) (target_accepting : bool) : bool := warmup_ok.

(* instance.Run: shots in order; a panic inside Shoot is recovered and ends the instance with an error *)
Fixpoint instance_run (shots : list shot) : list sample * bool :=
  match shots with
  | [] => ([], false)
  | Returned l :: r => let '(rest, failed) := instance_run r in (l ++ rest, failed)
  | ShotPanic l :: _ => (l, true)
  end.
