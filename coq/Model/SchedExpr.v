(* Deep-embedded arithmetic expressions: the shape in which harness/cmd/translate re-reads the
   schedule formulas of core/schedule/const.go and line.go (Gen/SchedGen.v), and the
   hand-written expressions the model of Model/Sched.v was derived from.
   Executable definitions only. *)
From Coq Require Import ZArith QArith String List.
From PV Require Import Model.Sched.
Import ListNotations.
Local Open Scope string_scope.

Inductive expr :=
| Var (x : string)
| Lit (q : Q)                (* numeric literal *)
| Add (a b : expr) | Sub (a b : expr) | Mul (a b : expr)
| Div (a b : expr)           (* float64 division *)
| IntQuot (a b : expr)       (* division of two integer-typed operands (truncates) *)
| Sqrt (a : expr)            (* math.Sqrt *)
| ToFloat (a : expr)         (* float64(x) of an integer-typed x (exact in the model) *)
| Trunc (a : expr).          (* int64(x) / time.Duration(x) of a float64 x *)

(* Evaluation in exact rational arithmetic; the square root is a parameter (it is not a
   rational function): the bridge lemmas hold for every interpretation of it. *)
Fixpoint evalQ (sq : Q -> Q) (env : string -> Q) (e : expr) : Q :=
  match e with
  | Var x => env x
  | Lit q => q
  | Add a b => (evalQ sq env a + evalQ sq env b)%Q
  | Sub a b => (evalQ sq env a - evalQ sq env b)%Q
  | Mul a b => (evalQ sq env a * evalQ sq env b)%Q
  | Div a b => (evalQ sq env a / evalQ sq env b)%Q
  | IntQuot a b => qz (Z.quot (Qtrunc (evalQ sq env a)) (Qtrunc (evalQ sq env b)))
  | Sqrt a => sq (evalQ sq env a)
  | ToFloat a => evalQ sq env a
  | Trunc a => qz (Qtrunc (evalQ sq env a))
  end.

Definition env_of (l : list (string * Q)) : string -> Q :=
  fun x => fold_right (fun kv d => if String.eqb x (fst kv) then snd kv else d) 0%Q l.

Definition billion : expr := Lit (1000000000 # 1).

(* the expressions the model was written from (const.go, line.go after the slope fix) *)
Definition m_secs : expr := Div (ToFloat (Var "duration")) billion.
Definition m_const_n : expr := Trunc (Mul (Var "ops") m_secs).
Definition m_const_at : expr := Trunc (Mul (ToFloat (Var "i")) (Div billion (Var "ops"))).
Definition m_line_a : expr := Div (Sub (Var "to") (Var "from")) m_secs.
Definition m_line_b : expr := Var "from".
Definition m_line_n : expr :=
  Trunc (Add (Div (Mul (Mul m_line_a m_secs) m_secs) (Lit (2 # 1))) (Mul m_line_b m_secs)).
(* lineDoAt(a, b)(i) *)
Definition m_line_at : expr :=
  Trunc (Mul (Sub (Sqrt (Add (Mul (Mul (Lit (2 # 1)) (Var "a")) (ToFloat (Var "i"))) (Mul (Var "b") (Var "b")))) (Var "b"))
             (Div billion (Var "a"))).
