(* The pool around the shooting loop (property C03, "when a pool ends normally ..."):
   core/engine/engine.go  instancePool.startInstances (the start loop over the STARTUP schedule),
   buildNewInstanceSchedule (the shared RPS schedule cancels the instance start when it finishes)
   and runAwaitHandle.awaitRun (the await loop: which results cancel the instance start, when the
   run is declared over).

   Model/Instance.v lets the start loop create any number of instances and stop at any time;
   here the number of instances is tied to the startup schedule: the start loop creates one
   instance per startup token and may stop early only after the start context has been
   cancelled, and the ONLY things that cancel it in a fault-free run are
     - the await loop receiving an instance result `outOfAmmoErr` while the start is pending,
     - the shared RPS schedule reporting its end (Left() == 0 or Next() !ok seen by an instance).
   In particular the provider's Run returning (a provider whose ammo all sits in its ready queue
   returns at once) cancels nothing.

   The await loop is NOT modelled again: it is [step_await] of Model/Pool.v (property C05), fed
   with the results of this pool's components.  The instances are Model/Instance.v unchanged
   ([core]).  Executable definitions only; proofs in Proofs/InstancePoolProofs.v. *)
From Coq Require Import List Arith Bool.
From PV Require Import Model.Pool Model.Instance.
Import ListNotations.

(* what the pool knows about the goroutine of one instance *)
Inductive istat :=
| IRun                    (* instance.Run is executing *)
| IEnded (ooa : bool)     (* Run returned (outOfAmmoErr if ooa, else nil); result not received yet *)
| IReported.              (* the await loop has received its result *)

Record pool := mkPool {
  core : state;                    (* Model/Instance.v: shared counters, instances, start loop open? *)
  sleft : nat;                     (* tokens left in the startup schedule *)
  stat : list istat;               (* parallel to [insts core] *)
  start_res : option (nat * err);  (* what startInstances returned: startResult{started, startCtx.Err()} *)
  paw : await;                     (* runAwaitHandle (Model/Pool.v) *)
  start_cancel : bool;             (* instanceStartCancel() has been called *)
  run_cancel : bool;               (* runCancel() has been called *)
  bad : bool                       (* an error was sent / suppressed or the loop panicked: not a normal end *)
}.

Definition pinit (c : cfg) (S : nat) : pool :=
  mkPool (Instance.init c) S [] None await_init false false false.

Definition startctx_cancelled (p : pool) : bool := start_cancel p || run_cancel p.

(* the await goroutine's view: no external cancel, instancePool.Run is listening *)
Definition penv (p : pool) : aenv :=
  {| e_runctx := run_cancel p; e_startctx := startctx_cancelled p; e_listening := true; e_suppctx := false |}.

Definition apply_eff (e : effect) (p : pool) : pool :=
  match e with
  | EffStartCancel => mkPool (core p) (sleft p) (stat p) (start_res p) (paw p) true (run_cancel p) (bad p)
  | EffRunCancel => mkPool (core p) (sleft p) (stat p) (start_res p) (paw p) (start_cancel p) true (bad p)
  | EffSend _ | EffSuppress _ | EffPanic =>
      mkPool (core p) (sleft p) (stat p) (start_res p) (paw p) (start_cancel p) (run_cancel p) true
  end.

Fixpoint apply_effs (l : list effect) (p : pool) : pool :=
  match l with [] => p | e :: r => apply_effs r (apply_eff e p) end.

Inductive paction :=
| PSpawn                        (* start loop: waiter.Wait(startCtx) = true, one more instance *)
| PEndStart (ctxerr : bool)     (* start loop: Wait = false; startRes <- {started, startCtx.Err()} *)
| PInst (i : nat) (d : bool)    (* instance i performs its next section *)
| PRecv (m : msg).              (* the await loop receives m *)

Definition is_run (s : istat) : bool := match s with IRun => true | _ => false end.
Definition is_reported (s : istat) : bool := match s with IReported => true | _ => false end.

(* a result the component can deliver now *)
Definition deliverable (p : pool) (m : msg) : bool :=
  match m with
  | ProvRes e | AggrRes e =>          (* Run returns nil at any time, or ctx.Err() once runCtx is cancelled *)
      match e with ENil => true | ECtx => run_cancel p | _ => false end
  | StartRes n e =>
      match start_res p with
      | Some (n', e') => (n =? n') && match e, e' with ENil, ENil | ECtx, ECtx => true | _, _ => false end
      | None => false
      end
  | RunRes i e =>
      match nth_error (stat p) i with
      | Some (IEnded ooa) => match e, ooa with EOutOfAmmo, true | ENil, false => true | _, _ => false end
      | _ => false
      end
  end.

Definition mark_reported (p : pool) (m : msg) : list istat :=
  match m with RunRes i _ => upd (stat p) i IReported | _ => stat p end.

Definition pl_step (c : cfg) (a : paction) (p : pool) : option pool :=
  match a with
  | PSpawn =>
      if start_open (core p) then
        match sleft p with
        | 0 => None
        | S k => match spawn c (core p) with
                 | Some s' => Some (mkPool s' k (stat p ++ [IRun]) (start_res p) (paw p)
                                           (start_cancel p) (run_cancel p) (bad p))
                 | None => None
                 end
        end
      else None
  | PEndStart ctxerr =>
      (* Wait returns false when the startup schedule is finished or the start context is done;
         the error is startCtx.Err(): non-nil only if that context is done *)
      if start_open (core p) && ((sleft p =? 0) || startctx_cancelled p)
         && (if ctxerr then startctx_cancelled p else sleft p =? 0) then
        Some (mkPool (close_start (core p)) (sleft p) (stat p)
                     (Some (length (insts (core p)), if ctxerr then ECtx else ENil)) (paw p)
                     (start_cancel p) (run_cancel p) (bad p))
      else None
  | PInst i d =>
      match nth_error (stat p) i, nth_error (insts (core p)) i with
      | Some IRun, Some x =>
          match step_inst c i d (core p) with
          | Some s' =>
              (* the shared schedule's on-finish callback: an instance saw Left() == 0 / Next() !ok *)
              let fin := negb (per_inst c) && (stoks (sh (core p)) =? 0)
                         && match pc x with Check | Wait _ => true | _ => false end in
              let ended := match pc_at s' i with Some Done => true | _ => false end in
              let ooa := match pc x with Acq => true | _ => false end in
              Some (mkPool s' (sleft p) (if ended then upd (stat p) i (IEnded ooa) else stat p) (start_res p) (paw p)
                           (start_cancel p || fin) (run_cancel p) (bad p))
          | None => None
          end
      | _, _ => None
      end
  | PRecv m =>
      if deliverable p m then
        match step_await (penv p) (paw p) m ChSend with
        | Some (a', effs) =>
            Some (apply_effs effs (mkPool (core p) (sleft p) (mark_reported p m) (start_res p) a'
                                          (start_cancel p) (run_cancel p) (bad p)))
        | None => None
        end
      else None
  end.

Fixpoint pl_run (c : cfg) (l : list paction) (p : pool) : option pool :=
  match l with
  | [] => Some p
  | a :: r => match pl_step c a p with Some p' => pl_run c r p' | None => None end
  end.

(* the await loop has left its `for ah.toWait > 0`: awaitErr is closed, instancePool.Run returns nil
   (when nothing was sent before) *)
Definition pool_ended (p : pool) : bool := (toWait (paw p) =? 0) && negb (bad p).

(* tokens the property speaks about, from the configuration alone: the shared profile, or one
   full profile per startup token *)
Definition cfg_tokens (c : cfg) (S : nat) : nat := if per_inst c then S * prof c else prof c.

(* ---------------------------------------------------------------------------------------- *)
(* Executable specification on an OBSERVED run: the number of started instances is the number of
   startup tokens, unless the run exhausted the ammo or (shared profile) the schedule, and then
   at least one instance was started. *)
Definition started_ok_b (c : cfg) (S started acquired drawn : nat) : bool :=
  (started =? S)
  || ((1 <=? started) && (started <? S)
      && ((acquired =? ammo0 c) || (negb (per_inst c) && (drawn =? prof c)))).

(* ---------------------------------------------------------------------------------------- *)
(* Replay of an observed run: the operation log of Model/Instance.v extended with what the
   await loop received, in the observed global order. *)
Inductive qevent :=
| QOp (e : oevent)                 (* an operation of an instance / a Bind (OSpawn) *)
| QProv                            (* "AmmoQueue awaited" *)
| QAggr                            (* "Aggregator awaited" *)
| QStart (n : nat) (ctxerr : bool) (* "Instances start awaited", started = n, error = context error? *)
| QRun (i : nat) (ooa : bool).     (* "Instance run awaited" of instance i, err = outOfAmmoErr? *)

Fixpoint spawn_upto (c : cfg) (n : nat) (fuel : nat) (p : pool) : option pool :=
  if n <=? length (insts (core p)) then Some p
  else match fuel with
       | 0 => None
       | S f => match pl_step c PSpawn p with Some p' => spawn_upto c n f p' | None => None end
       end.

(* instance i is at [from]; it performs its next section (a PInst step of the pool); it must arrive at [to] *)
Definition phop (c : cfg) (i : nat) (d : bool) (from to : ipc) (p : pool) : option pool :=
  match pc_at (core p) i with
  | Some q =>
      if ipc_eqb q from then
        match pl_step c (PInst i d) p with
        | Some p' => match pc_at (core p') i with
                     | Some q' => if ipc_eqb q' to then Some p' else None
                     | None => None
                     end
        | None => None
        end
      else None
  | None => None
  end.

(* one observed instance operation = the sections of Model/Instance.v's [replay_one], performed as PInst
   steps of the pool (so the pool's bookkeeping -- [stat], schedule-finish callback -- follows) *)
Definition pool_op (c : cfg) (e : oevent) (p : pool) : option pool :=
  match e with
  | OSpawn _ | OEnd => None
  | OLeft i z => phop c i false Check (if z then Done else Acq) p
  | OAcq i (Some a) => phop c i false Acq (Wait a) p
  | OAcq i None => phop c i false Acq Done p
  | ONext i ok =>
      match pc_at (core p) i with
      | Some (Wait a) => phop c i false (Wait a) (if ok then Dec a else Rel a) p
      | _ => None
      end
  | OShoot i a => bind (phop c i false (Dec a) (Shoot a) p) (phop c i false (Shoot a) (Resp a))
  | ODisc i =>
      match pc_at (core p) i with
      | Some (Dec a) => phop c i true (Dec a) (Rel a) p
      | _ => None
      end
  | ORel i a =>
      match pc_at (core p) i with
      | Some (Resp _) => bind (phop c i false (Resp a) (Rel a) p) (phop c i false (Rel a) Check)
      | _ => phop c i false (Rel a) Check p
      end
  end.

Definition preplay_one (c : cfg) (e : qevent) (p : pool) : option pool :=
  match e with
  | QOp (OSpawn i) =>
      (* instance i binds its gun: the start loop launched it (and all before it) earlier *)
      spawn_upto c (S i) (S i) p
  | QOp OEnd => Some p
  | QOp o => pool_op c o p
  | QProv => pl_step c (PRecv (ProvRes ENil)) p
  | QAggr => pl_step c (PRecv (AggrRes ENil)) p
  | QStart n ctxerr =>
      (* the start loop launched n instances and returned; its result is received *)
      match spawn_upto c n n p with
      | Some p1 =>
          match pl_step c (PEndStart ctxerr) p1 with
          | Some p2 => pl_step c (PRecv (StartRes n (if ctxerr then ECtx else ENil))) p2
          | None => None
          end
      | None => None
      end
  | QRun i ooa => pl_step c (PRecv (RunRes i (if ooa then EOutOfAmmo else ENil))) p
  end.

Fixpoint preplay (c : cfg) (l : list qevent) (p : pool) (k : nat) : pool * nat * bool :=
  match l with
  | [] => (p, k, true)
  | e :: r => match preplay_one c e p with
              | Some p' => preplay c r p' (S k)
              | None => (p, k, false)
              end
  end.
