(* The HANDLE of the ammo file under every provider (property C08: "the provider finishes
   without error ... and the run ends successfully").

   Model/Provider.v describes what the provider loops send and return, assuming that every
   read of the file succeeds.  This file adds the life cycle of the file handle around those
   loops: who opens the file, which phases read/seek it, who closes it and what becomes of the
   error of Close — because a provider whose loop ended cleanly can still FAIL its Run through
   the handle: `Provider.Run` of the http providers returns the error of its deferred
   `p.Close()`, and on a real file every operation on a closed handle, Close included, is an
   error ("file already closed").

   [hstat] is the handle as the file system implements it; a [fplan] is, per provider kind,
   the sequence of handle operations of the constructor, of Run before the loop, of every loop
   iteration and of Run's deferred calls, copied from the Go sources named at each line.
   [run_file] replays the plan around the run of Model/Provider.v and yields the handle
   statistics and the final result of Run.

   Executable definitions only; proofs are in Proofs/ProviderFileProofs.v. *)
From Coq Require Import List Arith Bool.
From PV Require Import Model.Provider.
Import ListNotations.

(* operations on a file handle *)
Inductive fop :=
| FOpen      (* fs.Open *)
| FUse       (* Read / ReadAt / Seek / Stat *)
| FClose.    (* Close *)

(* the two file systems providers are built on:
   FsOS  = afero.NewOsFs, an os.File: an operation on a closed file fails, Close included;
   FsMem = afero.NewMemMapFs (mem.File): Read/Seek on a closed file fail (ErrFileClosed), but
           Close "always returns nil" *)
Inductive fskind := FsOS | FsMem.

Record hstat := { h_open : bool;      (* the handle is open *)
                  h_opens : nat;      (* Open calls *)
                  h_closes : nat;     (* Close calls *)
                  h_late : nat }.     (* operations issued on an already closed handle *)
Definition h0 : hstat := {| h_open := false; h_opens := 0; h_closes := 0; h_late := 0 |}.

(* one operation: the new handle and whether the operation returned nil *)
Definition h_apply (fs : fskind) (op : fop) (h : hstat) : hstat * bool :=
  match op with
  | FOpen => ({| h_open := true; h_opens := S (h_opens h); h_closes := h_closes h; h_late := h_late h |}, true)
  | FUse =>
      if h_open h then (h, true)
      else ({| h_open := false; h_opens := h_opens h; h_closes := h_closes h; h_late := S (h_late h) |}, false)
  | FClose =>
      if h_open h
      then ({| h_open := false; h_opens := h_opens h; h_closes := S (h_closes h); h_late := h_late h |}, true)
      else ({| h_open := false; h_opens := h_opens h; h_closes := S (h_closes h); h_late := S (h_late h) |},
            match fs with FsOS => false | FsMem => true end)
  end.

(* a sequence of operations: the handle afterwards and whether all of them returned nil *)
Fixpoint h_run (fs : fskind) (ops : list fop) (h : hstat) : hstat * bool :=
  match ops with
  | [] => (h, true)
  | op :: rest =>
      let '(h1, ok1) := h_apply fs op h in
      let '(h2, ok2) := h_run fs rest h1 in
      (h2, ok1 && ok2)
  end.

(* what Run does with the error of its deferred Close *)
Inductive close_policy :=
| CloseReturned   (* http provider.Run: `closeErr := p.Close(); if closeErr != nil { err = closeErr | "Multiple errors faced" }` *)
| CloseIgnored.   (* grpc Provider.Run: `defer file.Close()`; DecodeProvider.Run: `_ = errutil.Join(err, ... source.Close() ...)` *)

Record fplan := {
  fp_construct : list fop;   (* the constructor *)
  fp_start : list fop;       (* Run, before the loop *)
  fp_loop_uses : bool;       (* a loop iteration may read / seek the handle *)
  fp_exit : list fop;        (* Run's deferred calls *)
  fp_policy : close_policy }.

(* http.NewProvider: fileReadSeekCloser opens the file, `Close: closer.Close`;
   decoders.NewDecoder: newJsonlineDecoder peeks the first token and seeks back (isArray),
   and reads the whole array (readArray: one Decode per element and the closing bracket) when
   the file is one JSON array — it keeps the handle open: Provider.Run closes it.
   provider.Run: runFullScan / loadAmmo read through Decoder.Scan (the array flavour and
   runPreloaded only touch memory: covered by "may"), deferred `p.Close()`, error returned. *)
Definition http_plan (k : dkind) (n : nat) : fplan :=
  {| fp_construct :=
       FOpen :: match k with
                | DJsonl => [FUse; FUse]
                | DJsonArr => FUse :: FUse :: repeat FUse (S n)
                | _ => []
                end;
     fp_start := [];
     fp_loop_uses := match k with DJsonArr => false | _ => true end;
     fp_exit := [FClose];
     fp_policy := CloseReturned |}.

(* scenario/config ReadAmmoConfig (called by scenario/http and scenario/grpc NewProvider): Open,
   Stat, read the whole file, deferred Close whose error fails the constructor; Run only cycles
   over the scenarios in memory *)
Definition scen_plan : fplan :=
  {| fp_construct := [FOpen; FUse; FUse; FClose];
     fp_start := []; fp_loop_uses := false; fp_exit := []; fp_policy := CloseIgnored |}.

(* grpc Provider.Run: `file, err := p.fs.Open(p.fileName)`, `defer file.Close()`, start reads and seeks;
   DecodeProvider.Run: `p.conf.Source.OpenSource()`, deferred source.Close() whose error is dropped *)
Definition openrun_plan : fplan :=
  {| fp_construct := []; fp_start := [FOpen]; fp_loop_uses := true; fp_exit := [FClose];
     fp_policy := CloseIgnored |}.

Definition plan_of (k : pkind) (n : nat) : fplan :=
  match k with
  | KHttp d _ => http_plan d n
  | KScenario => scen_plan
  | KGrpcJson => openrun_plan
  | KDecode => openrun_plan
  end.

(* the final result of Run *)
Inductive fout :=
| FAs (o : outcome)          (* what the loop returned, nothing added *)
| FUseErr                    (* a read / seek of the loop (or of Run before it) hit a closed handle: the loop fails with that error *)
| FCloseErr (o : outcome).   (* the loop returned o, the deferred Close failed and its error is Run's result (alone or joined with o's) *)

Record fresult := { f_base : result;        (* the run of Model/Provider.v *)
                    f_out : fout;
                    f_handle : hstat;
                    f_construct_ok : bool }. (* every operation of the constructor returned nil *)

(* replay a plan around a finished (or fuel-exhausted) run of the loop *)
Definition replay (fs : fskind) (p : fplan) (r : result) : fresult :=
  let '(h1, ok1) := h_run fs (fp_construct p) h0 in
  let '(h2, ok2) := h_run fs (fp_start p) h1 in
  let '(h3, ok3) := h_run fs (if fp_loop_uses p then repeat FUse (steps r) else []) h2 in
  match out r with
  | OutOfFuel => {| f_base := r; f_out := FAs OutOfFuel; f_handle := h3; f_construct_ok := ok1 |}   (* Run has not returned *)
  | o =>
      let '(h4, ok4) := h_run fs (fp_exit p) h3 in
      {| f_base := r;
         f_out := if negb (ok2 && ok3) then FUseErr
                  else match fp_policy p with
                       | CloseReturned => if ok4 then FAs o else FCloseErr o
                       | CloseIgnored => FAs o
                       end;
         f_handle := h4; f_construct_ok := ok1 |}
  end.

Definition run_file (fs : fskind) (k : pkind) (cf : cfg) (es : list entry) (cancel : option nat)
           (fuel : nat) : fresult :=
  replay fs (plan_of k (length es)) (run k cf es cancel fuel).

(* Run ended the way C08 demands of a bounded run: nil, nothing from the handle *)
Definition f_clean (fr : fresult) : bool :=
  match f_out fr with FAs Ok => true | _ => false end.

(* a handle that was opened once, closed once and never touched afterwards *)
Definition h_released_once (h : hstat) : bool :=
  negb (h_open h) && (h_opens h =? 1) && (h_closes h =? 1) && (h_late h =? 0).

(* The same plan with the handle released "early": a constructor that also closes the handle
   once everything is in memory (the other places unchanged).  Used to show that the handle
   semantics above tell such a provider from the present one. *)
Definition close_early (p : fplan) : fplan :=
  {| fp_construct := fp_construct p ++ [FClose]; fp_start := fp_start p;
     fp_loop_uses := fp_loop_uses p; fp_exit := fp_exit p; fp_policy := fp_policy p |}.
