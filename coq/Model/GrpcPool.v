(* C20 (round 8): the ammo OBJECTS of the grpc/json provider.

   components/providers/grpc/provider.go + grpcjson/provider.go: the decoding goroutine takes an *ammo.Ammo from
   a sync.Pool (`Pool.Get`: some object that was `Put` and not taken since, or a new one), overwrites it with the
   next line (`Reset`) and sends the POINTER into the queue `Sink`; an instance receives the pointer (`Acquire`),
   either shoots it (the gun reads tag, call, metadata and payload through the pointer at that moment) or, with
   discard_overflow on and the token >= 2 s overdue, reports a "discarded" sample instead, and gives the object back
   (`Release` = `Pool.Put`).  core/engine/instance.go: ONE deferred Release per Acquire.

   Pointer level: a heap of cells, the pool as a list of cell numbers (a multiset: `Put` does not look whether the
   object is already there), the queue as a list of cell numbers, what every instance holds.  Events in ANY
   interleaving: the decoder's step (with the choice `k` sync.Pool makes), and per instance acquire / shoot /
   discard / release.  `extra` = number of Release calls of the discard branch besides the deferred one (0 in the
   source, re-read by the translator).

   Value level (the specification): the queue carries the LINES themselves; an instance holds a line; a shot sends
   the line it acquired.  No objects, no pool. *)
From Coq Require Import List Arith Bool NArith.
Import ListNotations.
Set Implicit Arguments.

Section Pool.
Variable A : Type.   (* what an ammo object carries: tag, call, metadata, payload *)

Inductive shot := Shot (a : A) | Discarded.

Inductive ev :=
| EDecode (k : nat)     (* decoder: Pool.Get (k-th pooled object if there is one, else a new one), Reset, Sink <- *)
| EAcquire (i : nat)    (* instance i: <-Sink *)
| EShoot (i : nat)      (* instance i: gun.Shoot(ammo) reads the object *)
| EDiscard (i : nat)    (* instance i: discard_overflow branch *)
| ERelease (i : nat).   (* instance i: the deferred provider.Release(ammo) *)

Definition upd {X} (h : nat -> option X) (i : nat) (v : option X) : nat -> option X :=
  fun j => if Nat.eqb j i then v else h j.

Fixpoint set_nth {X} (l : list X) (n : nat) (x : X) : list X :=
  match l, n with
  | [], _ => []
  | _ :: t, O => x :: t
  | y :: t, S n' => y :: set_nth t n' x
  end.

Fixpoint remove_nth {X} (l : list X) (n : nat) : list X :=
  match l, n with
  | [], _ => []
  | _ :: t, O => t
  | y :: t, S n' => y :: remove_nth t n'
  end.

(* ---- pointer level ---- *)
Record pstate := mkP {
  ps_cells : list A;            (* the ammo objects ever allocated *)
  ps_free : list nat;           (* sync.Pool: objects Put and not yet taken *)
  ps_queue : list nat;          (* Sink *)
  ps_rest : list A;             (* lines of the file not yet decoded *)
  ps_held : nat -> option nat;  (* the object instance i has acquired and not yet released *)
  ps_out : list shot }.

Definition pinit (input : list A) : pstate := mkP [] [] [] input (fun _ => None) [].

Definition pstep (extra : nat) (s : pstate) (e : ev) : option pstate :=
  match e with
  | EDecode k =>
      match ps_rest s with
      | [] => None
      | a :: rest =>
          match nth_error (ps_free s) k with
          | Some o => Some (mkP (set_nth (ps_cells s) o a) (remove_nth (ps_free s) k) (ps_queue s ++ [o]) rest (ps_held s) (ps_out s))
          | None => Some (mkP (ps_cells s ++ [a]) (ps_free s) (ps_queue s ++ [length (ps_cells s)]) rest (ps_held s) (ps_out s))
          end
      end
  | EAcquire i =>
      match ps_held s i, ps_queue s with
      | None, o :: q => Some (mkP (ps_cells s) (ps_free s) q (ps_rest s) (upd (ps_held s) i (Some o)) (ps_out s))
      | _, _ => None
      end
  | EShoot i =>
      match ps_held s i with
      | Some o => match nth_error (ps_cells s) o with
                  | Some a => Some (mkP (ps_cells s) (ps_free s) (ps_queue s) (ps_rest s) (ps_held s) (ps_out s ++ [Shot a]))
                  | None => None
                  end
      | None => None
      end
  | EDiscard i =>
      match ps_held s i with
      | Some o => Some (mkP (ps_cells s) (repeat o extra ++ ps_free s) (ps_queue s) (ps_rest s) (ps_held s) (ps_out s ++ [Discarded]))
      | None => None
      end
  | ERelease i =>
      match ps_held s i with
      | Some o => Some (mkP (ps_cells s) (o :: ps_free s) (ps_queue s) (ps_rest s) (upd (ps_held s) i None) (ps_out s))
      | None => None
      end
  end.

Fixpoint prun (extra : nat) (s : pstate) (evs : list ev) : option pstate :=
  match evs with
  | [] => Some s
  | e :: evs' => match pstep extra s e with Some s' => prun extra s' evs' | None => None end
  end.

(* ---- value level: the specification ---- *)
Record vstate := mkV {
  vs_acq : list A;               (* the lines acquired so far, in order *)
  vs_queue : list A;
  vs_rest : list A;
  vs_held : nat -> option A;
  vs_out : list shot }.

Definition vinit (input : list A) : vstate := mkV [] [] input (fun _ => None) [].

Definition vstep (v : vstate) (e : ev) : option vstate :=
  match e with
  | EDecode _ =>
      match vs_rest v with
      | [] => None
      | a :: rest => Some (mkV (vs_acq v) (vs_queue v ++ [a]) rest (vs_held v) (vs_out v))
      end
  | EAcquire i =>
      match vs_held v i, vs_queue v with
      | None, a :: q => Some (mkV (vs_acq v ++ [a]) q (vs_rest v) (upd (vs_held v) i (Some a)) (vs_out v))
      | _, _ => None
      end
  | EShoot i =>
      match vs_held v i with
      | Some a => Some (mkV (vs_acq v) (vs_queue v) (vs_rest v) (vs_held v) (vs_out v ++ [Shot a]))
      | None => None
      end
  | EDiscard i =>
      match vs_held v i with
      | Some _ => Some (mkV (vs_acq v) (vs_queue v) (vs_rest v) (vs_held v) (vs_out v ++ [Discarded]))
      | None => None
      end
  | ERelease i =>
      match vs_held v i with
      | Some _ => Some (mkV (vs_acq v) (vs_queue v) (vs_rest v) (upd (vs_held v) i None) (vs_out v))
      | None => None
      end
  end.

Fixpoint vrun (v : vstate) (evs : list ev) : option vstate :=
  match evs with
  | [] => Some v
  | e :: evs' => match vstep v e with Some v' => vrun v' evs' | None => None end
  end.

Definition shots_of (out : list shot) : list A :=
  flat_map (fun x => match x with Shot a => [a] | Discarded => [] end) out.

(* the model's reading of core/engine/instance.go: the provider.Release calls of core/engine/instance.go as (enclosing function, deferred?) *)
Definition extra_releases (sites : list (list N * bool)) : option nat :=
  match filter (fun s => snd s) sites with
  | [_] => Some (length (filter (fun s => negb (snd s)) sites))
  | _ => None   (* no deferred Release, or several: not the shape the model describes *)
  end.

End Pool.

Arguments Discarded {A}.

(* the program of an instance (core/engine/instance.go Run): acquire; then shoot OR discard, once; then release *)
Definition phase_step (ph : nat -> nat) (e : ev) : option (nat -> nat) :=
  let set i x := fun j => if Nat.eqb j i then x else ph j in
  match e with
  | EDecode _ => Some ph
  | EAcquire i => if Nat.eqb (ph i) 0 then Some (set i 1) else None
  | EShoot i | EDiscard i => if Nat.eqb (ph i) 1 then Some (set i 2) else None
  | ERelease i => if Nat.eqb (ph i) 2 then Some (set i 0) else None
  end.

Fixpoint disciplined_from (ph : nat -> nat) (evs : list ev) : bool :=
  match evs with
  | [] => true
  | e :: evs' => match phase_step ph e with Some ph' => disciplined_from ph' evs' | None => false end
  end.

Definition disciplined (evs : list ev) : bool := disciplined_from (fun _ => 0) evs.
