(* From the ammo file to the sample (property C10: "whose tag is the ammo's tag"): the ammo the
   provider delivers (decoders of Model/AmmoUri.v, AmmoUripost.v, AmmoRaw.v, AmmoJson.v) shot
   one after another by the HTTP gun (Model/Shoot.v); ids come from the provider's atomic
   counter (ProviderBase.NextID at Acquire: 1, 2, ...).  Executable definitions only. *)
From Coq Require Import List NArith Bool.
From PV Require Import Lib.Table Model.Sample Model.Shoot Model.AmmoCommon.
Import ListNotations.
Local Open Scope N_scope.

Section ShootAmmo.
  Context {E : Type}.
  Variable cfg : autotag_cfg.
  Variable tag_of : E -> bytes.          (* the delivered ammo's tag *)
  Variable path_of : E -> bytes.         (* req.URL.Path of the request built from it (net/url, net/http: oracle) *)
  Variable xof : nat -> E -> exchange.   (* what the network does with the i-th request *)

  (* Acquire + Shoot for every delivery; the run ends when the provider stops delivering *)
  Fixpoint shoot_deliveries (i : nat) (id : N) (ds : list (sres E)) : list sample :=
    match ds with
    | SDeliver e :: r =>
        base_shoot cfg HNone false id (tag_of e) (path_of e) (xof i e) ++ shoot_deliveries (S i) (id + 1) r
    | _ => []
    end.

  (* specification side: one sample per ammo of the file, in order, tagged from ITS tag *)
  Fixpoint ammo_spec (i : nat) (id : N) (es : list E) : list sample :=
    match es with
    | [] => []
    | e :: r => base_spec cfg false id (tag_of e) (path_of e) (xof i e) :: ammo_spec (S i) (id + 1) r
    end.
End ShootAmmo.
