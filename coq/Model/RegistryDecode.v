(* Property C18, "components configured with the registered defaults overlaid by the user's settings,
   and ... config errors reach the caller as the error result": the fillConf that
   pluginconfig.parseConf builds from a config section.  The user's settings are the keys of the
   section other than the type key; the fill decodes them (config.DecodeAndValidate: mapstructure
   with ErrorUnused, ZeroFields = false, then the validator) into the config the registry hands it -
   a pointer to the constructor's config struct, or to an empty struct when the constructor takes no
   config.  A key that names no field of that struct is a config error, whatever the struct is
   (in particular: every key, when the struct has no fields).

   Executable definitions only. *)
From Coq Require Import List Arith Bool NArith.
From PV Require Import Model.Registry Model.RegistrySection.
Import ListNotations.

(* the struct the fill decodes into: no fields (struct{} handed out for a constructor without
   config, or a config struct that is empty), or the fields a, b, c of cfgv *)
Inductive cfgfields := FldNone | FldABC.

Inductive skey := KA | KB | KC | KOther.     (* a key spelt like field a / b / c, any other key *)

(* the settings of a section = a finite map from keys to values: the value under a, b, c if
   present, and how many other keys there are (their values are never looked at) *)
Record settings := mkSet { set_a : option N; set_b : option N; set_c : option N; set_other : nat }.
Definition no_settings : settings := mkSet None None None 0.

Definition is_some {A} (x : option A) : bool := match x with Some _ => true | None => false end.
Definition or_else (x : option N) (d : N) : N := match x with Some v => v | None => d end.

(* the constructor's config struct type: [empty] = it is a struct without fields *)
Definition decode_target (sh : shape) (empty : bool) : cfgfields :=
  if is_nocfg (sh_cfg sh) then FldNone else if empty then FldNone else FldABC.

(* ---- mapstructure decodeStructFromMap, as the code goes: every field of the target takes the
   value under its name if the map has one and marks that key used; afterwards (ErrorUnused) keys
   still unused are an error.  Result: the struct written so far and the number of unused keys. *)
Definition take (used : bool) (x : option N) (cur : N) : N * nat :=
  if used then (or_else x cur, 0) else (cur, if is_some x then 1 else 0).
Definition decode_map (fl : cfgfields) (u : settings) (seen : cfgv) : cfgv * nat :=
  let has := match fl with FldABC => true | FldNone => false end in
  let '(a, ua) := take has (set_a u) (va seen) in
  let '(b, ub) := take has (set_b u) (vb seen) in
  let '(c, uc) := take has (set_c u) (vc seen) in
  (mkV a b c, ua + ub + uc + set_other u).

(* the fillConf of parseConf as the registry's oracle sees it: what it writes, and whether it
   fails - unused keys, or the validator (its verdict is the underlying oracle's o_ffail: the
   constraints are the user's) *)
Definition hook_oracle (fl : cfgfields) (u : settings) (o : oracle) : oracle :=
  mkOracle (o_dflt o)
           (fun _ seen => fst (decode_map fl u seen))
           (fun n => negb (Nat.eqb (snd (decode_map fl u vzero)) 0) || o_ffail o n)
           (o_cfail o) (o_pfail o).

(* Hook: parseConf (section -> name + fill), then Registry.New with that fill *)
Definition create_by_settings (sh : shape) (empty : bool) (o : oracle) (s : st) (sec : section) (u : settings)
  : serr + (st * list event * outcome) :=
  create_by_section sh true (hook_oracle (decode_target sh empty) u o) s sec.
(* FactoryHook: ..., then Registry.NewFactory *)
Definition factory_by_settings (sh : shape) (empty we named : bool) (o : oracle) (s : st) (sec : section) (u : settings)
  : serr + (st * list event * created) :=
  match parse_section sec with
  | inl e => inl e
  | inr false => inl SeUnknownName
  | inr true => inr (reg_new_factory sh we named true (hook_oracle (decode_target sh empty) u o) s)
  end.

(* ---- specification, stated without following the code ---- *)
Definition keys_present (u : settings) : list skey :=
  (if is_some (set_a u) then [KA] else []) ++ (if is_some (set_b u) then [KB] else []) ++
  (if is_some (set_c u) then [KC] else []) ++ repeat KOther (set_other u).
Definition names_field (fl : cfgfields) (k : skey) : bool :=
  match fl, k with FldABC, (KA | KB | KC) => true | _, _ => false end.
(* the settings are acceptable for a config struct: every key names one of its fields *)
Definition settings_accepted_b (fl : cfgfields) (u : settings) : bool :=
  forallb (names_field fl) (keys_present u).
(* default overlaid by the settings: a field is the section's value when the section has the key,
   the default's otherwise *)
Definition overlay (fl : cfgfields) (u : settings) (dflt : cfgv) : cfgv :=
  match fl with
  | FldNone => dflt
  | FldABC => mkV (or_else (set_a u) (va dflt)) (or_else (set_b u) (vb dflt)) (or_else (set_c u) (vc dflt))
  end.
Definition no_construction (evs : list event) : bool :=
  forallb (fun e => negb (is_ctor e || is_prod e)) evs.
