(* The block readers of the uripost and raw decoders (readBlock; one iteration of rawDecoder.Scan)
   written as clients of the reader interface of Model/AmmoBufio.v (ReadString / readBody), so that
   they can be run on the buffered reader.  Proofs/AmmoBufioProofs.v shows that run on the logical
   stream they are the block readers of Model/AmmoUripost.v / Model/AmmoRaw.v (the ones the
   round-trip theorems are about).  Definitions only. *)
From Coq Require Import List NArith ZArith Bool.
From PV Require Import Lib.AmmoBytes Lib.AmmoDecimal Lib.AmmoLines Model.AmmoCommon Model.AmmoUripost
  Model.AmmoRaw Model.AmmoBufio.
Import ListNotations.
Local Open Scope N_scope.

(* results without the model-only fields (rest of the input, allocation effect) *)
Inductive ublk := UKSkip (h : headers) | UKFound (e : entry) (h : headers) | UKEof | UKErr (e : err) | UKPanic.
Inductive rblk := RKSkip | RKFound (e : rentry) | RKEof | RKErr (e : err) | RKPanic.

Definition ublk_of (b : block_res) : ublk :=
  match b with
  | BSkip _ h => UKSkip h
  | BFound e _ h _ => UKFound e h
  | BEof => UKEof
  | BErr e _ => UKErr e
  | BPanic => UKPanic
  end.

Definition rblk_of (b : rblock) : rblk :=
  match b with
  | RSkip _ => RKSkip
  | RFound e _ _ => RKFound e
  | REof => RKEof
  | RErr e _ => RKErr e
  | RPanic => RKPanic
  end.

Section Clients.
  Variable url_parse : bytes -> option (bytes * bytes).

  (* uripostDecoder.readBlock *)
  Definition read_block_prog (h : headers) : rprog ublk :=
    PLine (fun data ok =>
      if negb ok && is_nil data then PRet UKEof
      else
        let d := trim data in
        match d with
        | [] => PRet (UKSkip h)
        | c :: _ =>
            if N.eqb c LBR then
              match decode_header d with
              | inl (k, v) => PRet (UKSkip (header_set k v h))
              | inr e => PRet (UKErr e)
              end
            else
              match decode_uri d with
              | inr e => PRet (UKErr e)
              | inl (size, uri, tag) =>
                  if negb (url_ok url_parse uri) then PRet (UKErr EUrlParse)
                  else if Z.ltb size 0 then PRet (UKErr EBadSize)
                  else PBody (N.to_nat (Z.to_N size)) (fun ob =>
                    match ob with
                    | None => PRet (UKErr EShortRead)
                    | Some buf =>
                        match setup url_parse POST uri buf h tag with
                        | inl e => PRet (UKFound e h)
                        | inr e => PRet (UKErr e)
                        end
                    end)
              end
        end).

  (* one iteration of the loop of rawDecoder.Scan *)
  Definition raw_block_prog : rprog rblk :=
    PLine (fun data ok =>
      if negb ok && is_nil data then PRet RKEof
      else
        let d := trim data in
        match d with
        | [] => PRet RKSkip
        | _ =>
            match raw_decode_header d with
            | None => PRet (RKErr EWrongSize)
            | Some (size, tag) =>
                if Z.eqb size 0 then PRet (RKFound {| rb_buf := []; rb_tag := [] |})
                else if Z.ltb size 0 then PRet (RKErr EBadSize)
                else PBody (N.to_nat (Z.to_N size)) (fun ob =>
                  match ob with
                  | None => PRet (RKErr EShortRead)
                  | Some buf => PRet (RKFound {| rb_buf := buf; rb_tag := tag |})
                  end)
            end
        end).
End Clients.
