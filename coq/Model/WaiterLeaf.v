(* Property C04, round 7: several instances, each with a Waiter of its own, taking their FIRST tokens
   from one fresh self-starting leaf schedule (doAtSchedule: once / const / line / step parts) at the
   same moment - `startup: once N`.  The leaf is the fine-grained model of Model/SchedLeafConc.v
   (every shared access of Next its own step, any interleaving; its method bodies are re-read from
   core/schedule/do_at.go on every run, Gen/SchedSyncGen.v + Gen/SchedSync_bridge.v); the Waiter is
   Model/Waiter.v.  Executable definitions only.

   What C04 needs from the leaf: the time stamped on token i is  start + doAt(i)  where [start] is a
   reading of the run's clock - never the zero time.Time the field holds before the schedule started.
   A token stamped zero + doAt(i) lies ~2000 years in the past: Wait returns at once (a request fired
   before its scheduled time) and IsSlowDown holds (discarded although not late). *)
From Coq Require Import List ZArith Bool Arith.
From PV Require Import Model.SchedTree Model.SchedLeafConc Model.Waiter.
Import ListNotations.
Local Open Scope Z_scope.

(* the leaf whose Next looks at the started flag before entering the Once:
     if !s.IsStarted() { s.startOnce.Do(func() { s.MarkStarted(); s.start = time.Now() }) }     (kept for the refutation) *)
Definition flagfirst_progs : lprogs :=
  {| p_next := [LIfNotStarted [LOnce [AMarkStarted; ASetStartNow]]; LAct AIncI; LAct ARetByIndex];
     p_start := doat_start_prog; p_left := doat_left_prog |}.

(* thread [i] runs alone, the clock standing at [now], until its plan is done *)
Fixpoint drain (fuel : nat) (n : nat) (d : Z) (a : nat -> Z) (P : lprogs) (i : nat) (now : Z) (g : lgstate)
  : option lgstate :=
  match fuel with
  | O => None
  | S f =>
      match nth_error (lg_threads g) i with
      | None => None
      | Some th =>
          match lt_todo th with
          | [] => Some g
          | _ => match lrun n d a P [(i, now)] g with
                 | Some g' => drain f n d a P i now g'
                 | None => None
                 end
          end
      end
  end.

(* the callers one after the other: caller k makes all its calls at clock reading nows[k] *)
Fixpoint seq_callers (fuel : nat) (n : nat) (d : Z) (a : nat -> Z) (P : lprogs) (k : nat) (nows : list Z) (g : lgstate)
  : option lgstate :=
  match nows with
  | [] => Some g
  | now :: r => match drain fuel n d a P k now g with
                | Some g' => seq_callers fuel n d a P (S k) r g'
                | None => None
                end
  end.

(* the FIRST Wait of an instance (fresh Waiter) on the answer the schedule gave it; entered at [enter], the
   clock read at [now], the timer - if it sleeps - waking at [wake] *)
Definition first_call (r : obs) (now wake : Z) : wcall :=
  {| c_ctx_done := false;
     c_tok := match r with RNext t true => Some t | _ => None end;
     c_now := now; c_cancel_in_sleep := false; c_wake := wake |}.

Record first_shot := {
  fs_fired : bool;     (* Wait returned true: the instance goes on to Shoot / report the discard *)
  fs_slow : bool;      (* IsSlowDown after it *)
  fs_at : Z            (* earliest instant Wait can have returned *)
}.

Definition first_wait (v : wvariant) (r : obs) (enter now wake : Z) : first_shot :=
  let c := first_call r now wake in
  let '(st', o) := wait v wstate_init c in
  {| fs_fired := w_ok o; fs_slow := is_slow_down st'; fs_at := return_lower enter c o |}.

(* idealised timeline used for predictions: every caller of a fresh leaf with token offsets [offs] (duration [d])
   asks at instant [t0], one after the other; a caller whose token is not yet due sleeps to the token's time *)
Definition offs_fn (offs : list Z) (i : nat) : Z := nth i offs 0.

Definition first_shots (v : wvariant) (P : lprogs) (offs : list Z) (d : Z) (zero t0 : Z) (callers : nat)
  : option (list first_shot) :=
  match seq_callers 16 (length offs) d (offs_fn offs) P 0 (repeat t0 callers)
                    (linit zero t0 (repeat [ONext] callers)) with
  | None => None
  | Some g =>
      Some (map (fun th => match lt_hist th with
                           | r :: _ => first_wait v r t0 t0 (match r with RNext t _ => Z.max t t0 | _ => t0 end)
                           | [] => {| fs_fired := false; fs_slow := false; fs_at := t0 |}
                           end) (lg_threads g))
  end.

(* ---------------------------------------------------------------------------------------- *)
(* Executable specification on the harness's observation of ONE instant of simultaneous first tokens
   (no attribution of tokens to callers needed):
   [ahead_ok]  : bit k = "at least k+1 tokens of the configured profile were due when the k-th request was fired"
   [slow_ok]   : bit k = "the k-th fired request was NOT (judged >= 2 s late while fired less than 2 s after the
                 start of the profile)" - a token of a profile is never scheduled before the profile's start. *)
Definition spec_first_b (ahead_ok slow_ok : list bool) : bool := forallb (fun x => x) ahead_ok && forallb (fun x => x) slow_ok.
