(* Model of components/providers/http/decoders/jsonline.go at the level of decoded entities
   (the JSON text itself is an oracle: encoding/json). Definitions only. *)
From Coq Require Import List NArith ZArith Bool.
From PV Require Import Lib.AmmoBytes Lib.AmmoLines Model.AmmoCommon.
Import ListNotations.
Local Open Scope N_scope.

Record entity := {
  j_host : bytes; j_method : bytes; j_uri : bytes;
  j_headers : headers;      (* the JSON object, keys as written *)
  j_tag : bytes; j_body : bytes
}.

Definition HTTP_PREFIX : bytes := [104; 116; 116; 112; 58; 47; 47].  (* "http://" *)

(* header := decodedConfigHeaders.Clone(); for k, v := range da.Headers { header.Set(k, v) } *)
Fixpoint set_all (hs : headers) (acc : headers) : headers :=
  match hs with
  | [] => acc
  | (k, v) :: r => set_all r (header_set k v acc)
  end.

(* what the decoding of a file yields: the entities in order, then a clean end or an error *)
Inductive jend := JEof | JErr.

Section Json.
  Variable url_parse : bytes -> option (bytes * bytes).

  Definition entity_entry (d : entity) : entry + err :=
    setup url_parse (j_method d) (HTTP_PREFIX ++ j_host d ++ j_uri d) (j_body d)
          (set_all (j_headers d) []) (j_tag d).

  Record jstate := {
    js_all : list entity; js_end : jend;
    js_left : list entity;
    js_ammo : N; js_pass : N
  }.

  Definition json_init (ents : list entity) (e : jend) : jstate :=
    {| js_all := ents; js_end := e; js_left := ents; js_ammo := 0; js_pass := 0 |}.

  (* streaming form: the for-loop of Scan (at most one wrap-around is ever needed) *)
  Fixpoint json_loop (fuel : nat) (c : dcfg) (s : jstate) : sres entry * jstate :=
    match fuel with
    | O => (SOutOfFuel, s)
    | S f =>
        if passes_hit c (js_pass s) then (SPassLimit, s)
        else
          match js_left s with
          | d :: r =>
              let s' := {| js_all := js_all s; js_end := js_end s; js_left := r;
                           js_ammo := N.succ (js_ammo s); js_pass := js_pass s |} in
              match entity_entry d with
              | inl e => (SDeliver e, s')
              | inr e => (SErr e, s')
              end
          | [] =>
              match js_end s with
              | JErr => (SErr EJson, s)
              | JEof =>
                  if N.eqb (js_ammo s) 0 then (SNoAmmo, s)
                  else json_loop f c {| js_all := js_all s; js_end := js_end s; js_left := js_all s;
                                        js_ammo := js_ammo s; js_pass := N.succ (js_pass s) |}
              end
          end
    end.

  Definition json_scan (c : dcfg) (s : jstate) : sres entry * jstate :=
    if limit_hit c (js_ammo s) then (SAmmoLimit, s) else json_loop 2 c s.

  Fixpoint json_run (k : nat) (c : dcfg) (s : jstate) : list (sres entry) :=
    match k with
    | O => []
    | S k' =>
        let '(r, s') := json_scan c s in
        match r with
        | SDeliver _ => r :: json_run k' c s'
        | _ => [r]
        end
    end.

  Definition json_stream_decode (c : dcfg) (k : nat) (ents : list entity) (e : jend) : list (sres entry) :=
    json_run k c (json_init ents e).

  (* array form: readArray materialises every element at construction (an error there makes
     NewProvider fail: None); scanAmmos replays them by index *)
  Fixpoint read_array (ents : list entity) : option (list entry) :=
    match ents with
    | [] => Some []
    | d :: r =>
        match entity_entry d with
        | inr _ => None
        | inl e => match read_array r with Some es => Some (e :: es) | None => None end
        end
    end.

  Definition scan_ammos (c : dcfg) (es : list entry) (ammo pass : N) : sres entry * N * N :=
    match es with
    | [] => (SNoAmmo, ammo, pass)
    | e0 :: _ =>
        if passes_hit c pass then (SPassLimit, ammo, pass)
        else
          let len := nlen es in
          let i := N.modulo ammo len in
          let pass' := if N.eqb i (len - 1) then N.succ pass else pass in
          (SDeliver (nth (N.to_nat i) es e0), N.succ ammo, pass')
    end.

  Fixpoint array_run (k : nat) (c : dcfg) (es : list entry) (ammo pass : N) : list (sres entry) :=
    match k with
    | O => []
    | S k' =>
        if limit_hit c ammo then [SAmmoLimit]
        else
          let '(r, a', p') := scan_ammos c es ammo pass in
          match r with
          | SDeliver _ => r :: array_run k' c es a' p'
          | _ => [r]
          end
    end.

  Definition json_array_decode (c : dcfg) (k : nat) (ents : list entity) : option (list (sres entry)) :=
    match read_array ents with
    | None => None
    | Some es => Some (array_run k c es 0 0)
    end.
End Json.
