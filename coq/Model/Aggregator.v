(* Model of the result aggregators' queue (property C06, part b):
     core/aggregator/netsample/phout.go   phoutAggregator: Report = blocking channel send
     core/aggregator/reporter.go          Reporter.Report = non-blocking send, else dropped++
     core/aggregator/encoder.go           dataSinkAggregator.Run
   One execution is a list of atomic events (channel send / receive, a flush, the cancel of
   the context, Run's observation of it, Run's return). [step] says when an event is enabled
   and what it does; [run] folds it over a history. Executable definitions only. *)
From Coq Require Import List Arith NArith Bool.
Import ListNotations.
Local Open Scope N_scope.

Inductive kind :=
| Blocking     (* phout: a Report on a full queue waits *)
| Dropping.    (* Reporter: a Report on a full queue is counted as dropped *)

Inductive phase :=
| Running      (* main select loop of Run *)
| Draining     (* ctx.Done() was taken: non-blocking receive loop *)
| Done         (* Run returned: final flush done, sink closed *)
| Crashed.     (* the encoder panicked (phout timestamp below 100 ms) *)

Section Agg.
  Variable A : Type.                          (* samples *)
  Variable enc : A -> option (list N).        (* bytes of one handled sample (line + LF); None = panic *)

  Record st := {
    queue : list A;            (* the channel buffer, oldest first *)
    buf : list N;              (* encoded, not yet flushed (bufio / encoder buffer) *)
    sink : list N;             (* bytes that reached the destination *)
    dropped : N;               (* Reporter.samplesDropped *)
    cancelled : bool;          (* the context passed to Run is cancelled *)
    ph : phase;
    closed : bool;             (* destination closed *)
    (* history variables (not read by [step]) *)
    acc_log : list A;          (* samples accepted into the queue, in order *)
    rep_log : list A           (* samples of all completed Report calls, in order *)
  }.

  (* The destination starts EMPTY: NewPhout creates (truncates) the file, the file data sink
     opens with O_TRUNC - whatever an earlier run left there is gone. *)
  Definition init : st :=
    {| queue := []; buf := []; sink := []; dropped := 0; cancelled := false; ph := Running;
       closed := false; acc_log := []; rep_log := [] |}.

  Inductive ev :=
  | Report (g : N) (x : A)   (* goroutine g's Report(x) completes (enqueue, or drop) *)
  | Handle                   (* Run receives one sample and encodes it into the buffer *)
  | Flush (k : nat)          (* the first k buffered bytes reach the destination (ticker flush,
                                or bufio writing through when its buffer is full) *)
  | Cancel                   (* the context is cancelled *)
  | SeeCancel                (* Run's select takes <-ctx.Done() *)
  | Finish.                  (* the non-blocking receive finds the queue empty: Run returns;
                                deferred final Flush and Close *)

  Definition active (p : phase) : bool := match p with Running | Draining => true | _ => false end.

  Definition step (k : kind) (Q : nat) (s : st) (e : ev) : option st :=
    match e with
    | Report _ x =>
        if (length (queue s) <? Q)%nat then
          Some {| queue := queue s ++ [x]; buf := buf s; sink := sink s; dropped := dropped s;
                  cancelled := cancelled s; ph := ph s; closed := closed s;
                  acc_log := acc_log s ++ [x]; rep_log := rep_log s ++ [x] |}
        else
          match k with
          | Blocking => None          (* the send does not complete now *)
          | Dropping =>
              Some {| queue := queue s; buf := buf s; sink := sink s; dropped := dropped s + 1;
                      cancelled := cancelled s; ph := ph s; closed := closed s;
                      acc_log := acc_log s; rep_log := rep_log s ++ [x] |}
          end
    | Handle =>
        if active (ph s) then
          match queue s with
          | [] => None
          | x :: q =>
              match enc x with
              | Some b =>
                  Some {| queue := q; buf := buf s ++ b; sink := sink s; dropped := dropped s;
                          cancelled := cancelled s; ph := ph s; closed := closed s;
                          acc_log := acc_log s; rep_log := rep_log s |}
              | None =>
                  Some {| queue := q; buf := buf s; sink := sink s; dropped := dropped s;
                          cancelled := cancelled s; ph := Crashed; closed := closed s;
                          acc_log := acc_log s; rep_log := rep_log s |}
              end
          end
        else None
    | Flush n =>
        if active (ph s) then
          Some {| queue := queue s; buf := skipn n (buf s); sink := sink s ++ firstn n (buf s);
                  dropped := dropped s; cancelled := cancelled s; ph := ph s; closed := closed s;
                  acc_log := acc_log s; rep_log := rep_log s |}
        else None
    | Cancel =>
        Some {| queue := queue s; buf := buf s; sink := sink s; dropped := dropped s;
                cancelled := true; ph := ph s; closed := closed s;
                acc_log := acc_log s; rep_log := rep_log s |}
    | SeeCancel =>
        match ph s with
        | Running =>
            if cancelled s then
              Some {| queue := queue s; buf := buf s; sink := sink s; dropped := dropped s;
                      cancelled := cancelled s; ph := Draining; closed := closed s;
                      acc_log := acc_log s; rep_log := rep_log s |}
            else None
        | _ => None
        end
    | Finish =>
        match ph s, queue s with
        | Draining, [] =>
            Some {| queue := []; buf := []; sink := sink s ++ buf s; dropped := dropped s;
                    cancelled := cancelled s; ph := Done; closed := true;
                    acc_log := acc_log s; rep_log := rep_log s |}
        | _, _ => None
        end
    end.

  Fixpoint run (k : kind) (Q : nat) (s : st) (h : list ev) : option st :=
    match h with
    | [] => Some s
    | e :: r => match step k Q s e with Some s' => run k Q s' r | None => None end
    end.

  (* Run's returned error as far as the property speaks about it: DroppedErr(). *)
  Definition run_error (s : st) : option N := if dropped s =? 0 then None else Some (dropped s).

  (* "all Reports complete before the cancel": no Report event after a Cancel event.
     [c] = a Cancel was already seen. *)
  Fixpoint reports_first (c : bool) (h : list ev) : bool :=
    match h with
    | [] => true
    | Report _ _ :: r => negb c && reports_first c r
    | Cancel :: r => reports_first true r
    | _ :: r => reports_first c r
    end.

  (* the encodings of a list of samples, concatenated (what must be in the file) *)
  Definition enc_all (l : list A) : list N :=
    flat_map (fun x => match enc x with Some b => b | None => [] end) l.

  (* what Run does once the context is cancelled and nobody reports any more *)
  Definition finish_history (s : st) : list ev := SeeCancel :: repeat Handle (length (queue s)) ++ [Finish].
End Agg.

Arguments queue {A}. Arguments buf {A}. Arguments sink {A}. Arguments dropped {A}.
Arguments cancelled {A}. Arguments ph {A}. Arguments closed {A}. Arguments acc_log {A}. Arguments rep_log {A}.
Arguments Report {A}. Arguments Handle {A}. Arguments Flush {A}. Arguments Cancel {A}.
Arguments SeeCancel {A}. Arguments Finish {A}.

(* ---- executable specification of an observed outcome (samples identified by numbers) ----
   reports: per goroutine, the ids it reported in program order;
   lines:   ids of the lines found in the destination, in file order;
   owner:   which goroutine an id belongs to. *)
Fixpoint subseq_b (a b : list N) : bool :=        (* a is a subsequence of b *)
  match a, b with
  | [], _ => true
  | _ :: _, [] => false
  | x :: a', y :: b' => if x =? y then subseq_b a' b' else subseq_b a b'
  end.

Definition total_len (ls : list (list N)) : nat := fold_right (fun l n => (length l + n)%nat) O ls.

Fixpoint per_owner_ok (owner : N -> N) (g : N) (reports : list (list N)) (lines : list N) : bool :=
  match reports with
  | [] => true
  | r :: rest => subseq_b (filter (fun i => owner i =? g) lines) r && per_owner_ok owner (g + 1) rest lines
  end.

Definition complete_b (k : kind) (owner : N -> N) (reports : list (list N)) (lines : list N)
           (drops : N) (err : option N) : bool :=
  (* every line is a reported sample, at most once, each reporter's samples in its order *)
  per_owner_ok owner 0 reports lines
  && forallb (fun i => owner i <? N.of_nat (length reports)) lines
  (* written lines plus counted drops = reports *)
  && (N.of_nat (length lines) + drops =? N.of_nat (total_len reports))
  (* the drop count is the error Run ends with *)
  && match err, (drops =? 0) with None, true => true | Some d, false => d =? drops | _, _ => false end
  && match k with Blocking => drops =? 0 | Dropping => true end.
