(* Model of the engine's run/termination protocol (property C05):
   core/engine/engine.go  Engine.Run, instancePool.Run, runAsync, awaitRunAsync,
   runAwaitHandle.awaitRun / onErrAwaited / checkAllInstancesAreFinished.

   Executable definitions only.  Instances, the start loop, the provider and the aggregator
   are abstracted as producers of exactly one result message each (the instance loop itself
   is the subject of C03/C12).  Everything the Go runtime chooses -- the order in which the
   await loop's channels become ready, which arm of a `select` with two ready arms is taken,
   the instant of the external cancel -- is an explicit input (an event of the trace). *)
From Coq Require Import List Arith Bool.
Import ListNotations.

(* ---------------------------------------------------------------------------------------- *)
(* Errors and messages *)

(* what failed *)
Inductive cause :=
| CProv          (* Provider.Run returned a non-context error *)
| CAggr          (* Aggregator.Run returned a non-context error *)
| CGunFactory    (* NewGun returned an error *)
| CWarmUp        (* WarmUp returned an error *)
| CSchedFactory  (* NewRPSSchedule returned an error *)
| CBind          (* Gun.Bind returned an error *)
| CShootPanic    (* Gun.Shoot panicked (instance.Run recovered it into an error) *)
| COther.        (* a context error returned while the context was not cancelled, etc. *)

Definition cause_eqb (a b : cause) : bool :=
  match a, b with
  | CProv, CProv | CAggr, CAggr | CGunFactory, CGunFactory | CWarmUp, CWarmUp
  | CSchedFactory, CSchedFactory | CBind, CBind | CShootPanic, CShootPanic | COther, COther => true
  | _, _ => false
  end.

(* error classes of a component result *)
Inductive err :=
| ENil                 (* nil *)
| ECtx                 (* ctx.Err() of the context the component was given (possibly wrapped) *)
| EOutOfAmmo           (* engine.outOfAmmoErr (instances only) *)
| EFail (c : cause).

Inductive msg :=
| ProvRes (e : err)                 (* <-providerErr *)
| AggrRes (e : err)                 (* <-aggregatorErr *)
| StartRes (n : nat) (e : err)      (* <-startRes : startResult{Started: n, Err: e} *)
| RunRes (id : nat) (e : err).      (* <-runRes : instanceRunResult{ID: id, Err: e} *)

(* which arm of the select in onErrAwaited fires *)
Inductive choice := ChSend | ChSuppress.

(* what Engine.Run / instancePool.Run return *)
Inductive res := RNil | RCtx | RFail (c : cause).

Definition err_cause (e : err) : cause := match e with EFail c => c | _ => COther end.

(* lib/errutil.IsCtxError(ctx, err): err == nil || ctx.Err() == errors.Cause(err).
   [ctxdone] = "ctx.Err() != nil". A context error while ctx is not done is NOT a ctx error. *)
Definition is_ctx_error (ctxdone : bool) (e : err) : bool :=
  match e with ENil => true | ECtx => ctxdone | _ => false end.

(* ---------------------------------------------------------------------------------------- *)
(* The two code variants the theorems talk about.  [fixed] is the tree after the two `fix:`
   commits; [orig] is the tree before them (kept so that the refutations stay checkable). *)
Record variant := {
  v_waitdone_on_sched_fail : bool;  (* instancePool.Run calls onWaitDone when runAsync fails *)
  v_suppress_on_pool_ctx : bool     (* onErrAwaited selects on the pool's ctx (true) or on runCtx (false) *)
}.
Definition fixed : variant := {| v_waitdone_on_sched_fail := true; v_suppress_on_pool_ctx := true |}.
Definition orig : variant := {| v_waitdone_on_sched_fail := false; v_suppress_on_pool_ctx := false |}.

(* ---------------------------------------------------------------------------------------- *)
(* runAwaitHandle *)

Record await := {
  toWait : nat;            (* ah.toWait *)
  started : nat;           (* ah.startedInstances (meaningful once start_pending = false) *)
  awaited : nat;           (* ah.awaitedInstances *)
  prov_pending : bool;     (* ah.providerErr != nil *)
  aggr_pending : bool;     (* ah.aggregatorErr != nil *)
  start_pending : bool;    (* ah.startRes != nil, i.e. !isStartFinished() *)
  run_open : bool          (* ah.runRes != nil *)
}.

Definition await_init : await :=
  {| toWait := 4; started := 0; awaited := 0; prov_pending := true; aggr_pending := true;
     start_pending := true; run_open := true |}.

Inductive effect :=
| EffSend (c : cause)        (* awaitErr <- err taken by the pool front *)
| EffSuppress (c : cause)    (* "Error suppressed after run cancel" *)
| EffStartCancel             (* ah.instanceStartCancel() *)
| EffRunCancel               (* ah.runCancel() *)
| EffPanic.                  (* close of a nil channel / "Unexpected run result" *)

(* what the await goroutine can see of the rest of the pool when it handles one message *)
Record aenv := {
  e_runctx : bool;      (* runCtx.Err() != nil *)
  e_startctx : bool;    (* instanceStartCtx.Err() != nil *)
  e_listening : bool;   (* instancePool.Run is (or will be) receiving on awaitErr *)
  e_suppctx : bool      (* the Done channel used in onErrAwaited is closed *)
}.

(* onErrAwaited: select { awaitErr <- err | <-ctx.Done() }.  None = that arm cannot fire. *)
Definition on_err_awaited (env : aenv) (c : cause) (ch : choice) : option (list effect) :=
  match ch with
  | ChSend => if e_listening env then Some [EffSend c] else None
  | ChSuppress => if e_suppctx env then Some [EffSuppress c] else None
  end.

(* checkAllInstancesAreFinished *)
Definition check_finished (a : await) : await * list effect :=
  if negb (start_pending a) && (started a <=? awaited a) then
    if run_open a then
      ({| toWait := toWait a - 1; started := started a; awaited := awaited a;
          prov_pending := prov_pending a; aggr_pending := aggr_pending a;
          start_pending := start_pending a; run_open := false |}, [EffRunCancel])
    else (a, [EffPanic])
  else (a, []).

(* one iteration of the `for ah.toWait > 0 { select {...} }` loop, on the message received.
   None: the message cannot be received now (channel already nil-ed) or the chosen select arm
   cannot fire. *)
Definition step_await (env : aenv) (a : await) (m : msg) (ch : choice) : option (await * list effect) :=
  match m with
  | ProvRes e =>
      if prov_pending a then
        let a' := {| toWait := toWait a - 1; started := started a; awaited := awaited a;
                     prov_pending := false; aggr_pending := aggr_pending a;
                     start_pending := start_pending a; run_open := run_open a |} in
        if is_ctx_error (e_runctx env) e then Some (a', [])
        else option_map (fun effs => (a', effs)) (on_err_awaited env (err_cause e) ch)
      else None
  | AggrRes e =>
      if aggr_pending a then
        let a' := {| toWait := toWait a - 1; started := started a; awaited := awaited a;
                     prov_pending := prov_pending a; aggr_pending := false;
                     start_pending := start_pending a; run_open := run_open a |} in
        if is_ctx_error (e_runctx env) e then Some (a', [])
        else option_map (fun effs => (a', effs)) (on_err_awaited env (err_cause e) ch)
      else None
  | StartRes n e =>
      if start_pending a then
        let a' := {| toWait := toWait a - 1; started := n; awaited := awaited a;
                     prov_pending := prov_pending a; aggr_pending := aggr_pending a;
                     start_pending := false; run_open := run_open a |} in
        let fin := check_finished a' in
        if is_ctx_error (e_startctx env) e then Some (fst fin, snd fin)
        else option_map (fun effs => (fst fin, effs ++ snd fin)) (on_err_awaited env (err_cause e) ch)
      else None
  | RunRes _ e =>
      if run_open a then
        let a' := {| toWait := toWait a; started := started a; awaited := S (awaited a);
                     prov_pending := prov_pending a; aggr_pending := aggr_pending a;
                     start_pending := start_pending a; run_open := run_open a |} in
        let fin := check_finished a' in
        match e with
        | EOutOfAmmo =>
            Some (fst fin, (if start_pending a then [EffStartCancel] else []) ++ snd fin)
        | _ =>
            if is_ctx_error (e_runctx env) e then Some (fst fin, snd fin)
            else option_map (fun effs => (fst fin, effs ++ snd fin)) (on_err_awaited env (err_cause e) ch)
        end
      else None
  end.

(* ---------------------------------------------------------------------------------------- *)
(* One pool: instancePool.Run (the "front") + its await goroutine + its producers *)

Inductive pre_outcome :=
| PreOk          (* warm-up and runAsync succeeded *)
| PreGunFail     (* NewGun failed in warmUpGun *)
| PreWarmFail    (* WarmUp failed *)
| PreSchedFail.  (* NewRPSSchedule failed in buildNewInstanceSchedule (shared profile) *)

Inductive phase := PhInit | PhAwait | PhDone | PhPreFailed.

Record pstate := {
  ph : phase;
  aw : await;
  run_cancelled : bool;     (* runCancel() has been called *)
  start_cancelled : bool;   (* instanceStartCancel() has been called *)
  sched_fin : bool;         (* the shared RPS schedule reported its end (callback runs once) *)
  front : option res;       (* Some r: instancePool.Run has returned r (its deferred cancel() ran) *)
  taken : bool;             (* Engine.Run has received this pool's result *)
  wait_done : nat;          (* number of onWaitDone() calls *)
  fails : list cause;       (* ghost: the failures that occurred in this pool so far *)
  created : nat;            (* ghost: guns returned by NewGun *)
  closed : nat;             (* ghost: Close() calls on them *)
  unbound : nat;            (* ghost: guns that were created but never owned by a running instance
                               (the warm-up gun, guns whose Bind failed) *)
  panicked : bool
}.

Definition pstate_init : pstate :=
  {| ph := PhInit; aw := await_init; run_cancelled := false; start_cancelled := false; sched_fin := false;
     front := None; taken := false; wait_done := 0; fails := []; created := 0; closed := 0;
     unbound := 0; panicked := false |}.

Definition set_front (r : res) (s : pstate) : pstate :=
  {| ph := ph s; aw := aw s; run_cancelled := run_cancelled s; start_cancelled := start_cancelled s;
     sched_fin := sched_fin s; front := Some r; taken := taken s; wait_done := wait_done s; fails := fails s;
     created := created s; closed := closed s; unbound := unbound s; panicked := panicked s |}.
Definition set_start_cancelled (s : pstate) : pstate :=
  {| ph := ph s; aw := aw s; run_cancelled := run_cancelled s; start_cancelled := true;
     sched_fin := sched_fin s; front := front s; taken := taken s; wait_done := wait_done s; fails := fails s;
     created := created s; closed := closed s; unbound := unbound s; panicked := panicked s |}.
Definition set_sched_fin (s : pstate) : pstate :=
  {| ph := ph s; aw := aw s; run_cancelled := run_cancelled s; start_cancelled := true;
     sched_fin := true; front := front s; taken := taken s; wait_done := wait_done s; fails := fails s;
     created := created s; closed := closed s; unbound := unbound s; panicked := panicked s |}.
Definition set_run_cancelled (s : pstate) : pstate :=
  {| ph := ph s; aw := aw s; run_cancelled := true; start_cancelled := start_cancelled s;
     sched_fin := sched_fin s; front := front s; taken := taken s; wait_done := wait_done s; fails := fails s;
     created := created s; closed := closed s; unbound := unbound s; panicked := panicked s |}.
Definition set_panicked (s : pstate) : pstate :=
  {| ph := ph s; aw := aw s; run_cancelled := run_cancelled s; start_cancelled := start_cancelled s;
     sched_fin := sched_fin s; front := front s; taken := taken s; wait_done := wait_done s; fails := fails s;
     created := created s; closed := closed s; unbound := unbound s; panicked := true |}.
Definition set_taken (s : pstate) : pstate :=
  {| ph := ph s; aw := aw s; run_cancelled := run_cancelled s; start_cancelled := start_cancelled s;
     sched_fin := sched_fin s; front := front s; taken := true; wait_done := wait_done s; fails := fails s;
     created := created s; closed := closed s; unbound := unbound s; panicked := panicked s |}.

Definition is_some {A} (o : option A) : bool := match o with Some _ => true | None => false end.

(* contexts: ctx given to pool.Run is done iff [parent]; pool.Run's own ctx also after it returned *)
Definition pctx_done (parent : bool) (s : pstate) : bool := parent || is_some (front s).
Definition runctx_done (parent : bool) (s : pstate) : bool := run_cancelled s || pctx_done parent s.
Definition startctx_done (parent : bool) (s : pstate) : bool := start_cancelled s || runctx_done parent s.

Definition mk_aenv (v : variant) (parent : bool) (s : pstate) : aenv :=
  {| e_runctx := runctx_done parent s;
     e_startctx := startctx_done parent s;
     e_listening := negb (is_some (front s));
     e_suppctx := if v_suppress_on_pool_ctx v then pctx_done parent s else runctx_done parent s |}.

Inductive pevent :=
| PvPre (o : pre_outcome)        (* warmUpGun + runAsync *)
| PvMsg (m : msg) (ch : choice)  (* the await loop receives m (and resolves its select by ch) *)
| PvSchedFin                     (* the shared RPS schedule finished: its callback cancels the start ctx *)
| PvFrontCtx                     (* instancePool.Run's select takes <-ctx.Done() *)
| PvFrontClosed.                 (* instancePool.Run's select sees awaitErr closed *)

(* a context error can only come out of a component whose context is done *)
Definition msg_allowed (n_inst : nat) (parent : bool) (s : pstate) (m : msg) : bool :=
  match m with
  | ProvRes e | AggrRes e =>
      match e with ECtx => runctx_done parent s | EOutOfAmmo => false | _ => true end
  | StartRes n e =>
      (n =? n_inst) && match e with ECtx => startctx_done parent s | EOutOfAmmo => false | _ => true end
  | RunRes id e =>
      (awaited (aw s) <? n_inst) && match e with ECtx => runctx_done parent s | _ => true end
  end.

Definition msg_fail (m : msg) : list cause :=
  match m with
  | ProvRes (EFail c) | AggrRes (EFail c) | StartRes _ (EFail c) | RunRes _ (EFail c) => [c]
  | _ => []
  end.

(* gun bookkeeping implied by a result: (created, closed, never-bound) *)
Definition msg_guns (m : msg) : nat * nat * nat :=
  match m with
  | RunRes _ (EFail CBind) => (1, 0, 1)                 (* created, Bind failed, dropped *)
  | RunRes _ (EFail CGunFactory) | RunRes _ (EFail CSchedFactory) => (0, 0, 0)
  | RunRes _ _ => (1, 1, 0)                             (* defer instance.Close() *)
  | StartRes _ (EFail CBind) => (1, 0, 1)               (* first instance: Bind failed *)
  | _ => (0, 0, 0)
  end.

Definition apply_effect (eff : effect) (s : pstate) : pstate :=
  match eff with
  | EffSend c => set_front (RFail c) s
  | EffSuppress _ => s
  | EffStartCancel => set_start_cancelled s
  | EffRunCancel => set_run_cancelled s
  | EffPanic => set_panicked s
  end.

Fixpoint apply_effects (effs : list effect) (s : pstate) : pstate :=
  match effs with
  | [] => s
  | eff :: r => apply_effects r (apply_effect eff s)
  end.

(* warmUpGun / runAsync failed: Run returns the error; [gun_made]: NewGun had returned a gun;
   [call_done]: onWaitDone() is called on this path *)
Definition pre_failed (s : pstate) (c : cause) (gun_made : bool) (call_done : bool) : pstate :=
  {| ph := PhPreFailed; aw := aw s; run_cancelled := run_cancelled s; start_cancelled := start_cancelled s;
     sched_fin := sched_fin s; front := Some (RFail c); taken := taken s;
     wait_done := wait_done s + (if call_done then 1 else 0);
     fails := c :: fails s;
     created := created s + (if gun_made then 1 else 0); closed := closed s;
     unbound := unbound s + (if gun_made then 1 else 0); panicked := panicked s |}.

Definition pstep (v : variant) (n_inst : nat) (parent : bool) (s : pstate) (e : pevent) : option pstate :=
  match e with
  | PvPre o =>
      match ph s with
      | PhInit =>
          match o with
          | PreGunFail => Some (pre_failed s CGunFactory false true)
          | PreWarmFail => Some (pre_failed s CWarmUp true true)
          | PreSchedFail => Some (pre_failed s CSchedFactory true (v_waitdone_on_sched_fail v))
          | PreOk =>
              Some {| ph := PhAwait; aw := await_init; run_cancelled := run_cancelled s;
                      start_cancelled := start_cancelled s; sched_fin := sched_fin s;
                      front := front s; taken := taken s;
                      wait_done := wait_done s; fails := fails s;
                      created := created s + 1; closed := closed s; unbound := unbound s + 1;
                      panicked := panicked s |}
          end
      | _ => None
      end
  | PvMsg m ch =>
      match ph s with
      | PhAwait =>
          if msg_allowed n_inst parent s m then
            match step_await (mk_aenv v parent s) (aw s) m ch with
            | None => None
            | Some (a', effs) =>
                let '(gc, gl, gu) := msg_guns m in
                let s1 :=
                  {| ph := if toWait a' =? 0 then PhDone else PhAwait;
                     aw := a'; run_cancelled := run_cancelled s; start_cancelled := start_cancelled s;
                     sched_fin := sched_fin s; front := front s; taken := taken s;
                     (* deferred in awaitRunAsync: close(awaitErr); onWaitDone() *)
                     wait_done := wait_done s + (if toWait a' =? 0 then 1 else 0);
                     fails := msg_fail m ++ fails s;
                     created := created s + gc; closed := closed s + gl; unbound := unbound s + gu;
                     panicked := panicked s |} in
                Some (apply_effects effs s1)
            end
          else None
      | _ => None
      end
  | PvSchedFin =>
      match ph s with
      | PhAwait => if sched_fin s then None else Some (set_sched_fin s)
      | _ => None
      end
  | PvFrontCtx =>
      match ph s, front s with
      | (PhAwait | PhDone), None => if parent then Some (set_front RCtx s) else None
      | _, _ => None
      end
  | PvFrontClosed =>
      match ph s, front s with
      | PhDone, None => Some (set_front RNil s)
      | _, _ => None
      end
  end.

(* ---------------------------------------------------------------------------------------- *)
(* Engine.Run over several pools *)

Record eret := {
  er_res : res;                 (* what Engine.Run returned *)
  er_cancelled : bool;          (* ghost: the external cancel had happened when it returned *)
  er_fails : list (nat * cause) (* ghost: the failures that had occurred when it returned *)
}.

Record gstate := {
  pools : list pstate;
  cancelled : bool;             (* the caller cancelled the context given to Engine.Run *)
  eng : option eret             (* Some: Engine.Run has returned (its deferred cancel() ran) *)
}.

Inductive gevent :=
| GvPool (p : nat) (e : pevent)
| GvCancel                      (* the caller's cancel() *)
| GvEngRecv (p : nat)           (* Engine.Run's select takes pool p's result from runRes *)
| GvEngCtx.                     (* Engine.Run's select takes <-ctx.Done() *)

(* the context every pool.Run receives is cancelled by the caller or by Engine.Run's deferred cancel *)
Definition parent_done (g : gstate) : bool := cancelled g || is_some (eng g).

Fixpoint upd {A} (n : nat) (x : A) (l : list A) : list A :=
  match l, n with
  | [], _ => []
  | _ :: r, O => x :: r
  | y :: r, S k => y :: upd k x r
  end.

Fixpoint all_fails_from (i : nat) (l : list pstate) : list (nat * cause) :=
  match l with
  | [] => []
  | s :: r => map (fun c => (i, c)) (fails s) ++ all_fails_from (S i) r
  end.
Definition all_fails (g : gstate) : list (nat * cause) := all_fails_from 0 (pools g).


Definition all_taken (l : list pstate) : bool := forallb taken l.

Definition mk_eret (g : gstate) (r : res) : eret :=
  {| er_res := r; er_cancelled := cancelled g; er_fails := all_fails g |}.

(* cfg : number of instances each pool's start loop starts in this run *)
Definition gstep (v : variant) (cfg : list nat) (g : gstate) (e : gevent) : option gstate :=
  match e with
  | GvPool p pe =>
      match nth_error (pools g) p, nth_error cfg p with
      | Some s, Some n =>
          match pstep v n (parent_done g) s pe with
          | Some s' => Some {| pools := upd p s' (pools g); cancelled := cancelled g; eng := eng g |}
          | None => None
          end
      | _, _ => None
      end
  | GvCancel =>
      if cancelled g then None
      else Some {| pools := pools g; cancelled := true; eng := eng g |}
  | GvEngRecv p =>
      match eng g, nth_error (pools g) p with
      | None, Some s =>
          match front s, taken s with
          | Some r, false =>
              let ps' := upd p (set_taken s) (pools g) in
              match r with
              | RNil =>
                  (* for i := 0; i < len(pools); i++ ... return nil *)
                  if all_taken ps' then
                    Some {| pools := ps'; cancelled := cancelled g; eng := Some (mk_eret g RNil) |}
                  else Some {| pools := ps'; cancelled := cancelled g; eng := None |}
              | _ =>
                  (* if res.Err != nil { select { case <-ctx.Done(): return ctx.Err(); default: }; return wrapped } *)
                  Some {| pools := ps'; cancelled := cancelled g;
                          eng := Some (mk_eret g (if cancelled g then RCtx else r)) |}
              end
          | _, _ => None
          end
      | _, _ => None
      end
  | GvEngCtx =>
      match eng g with
      | None => if cancelled g then Some {| pools := pools g; cancelled := true; eng := Some (mk_eret g RCtx) |} else None
      | Some _ => None
      end
  end.

Definition ginit (cfg : list nat) : gstate :=
  {| pools := map (fun _ => pstate_init) cfg; cancelled := false;
     (* no pools: the loops do not run, Run returns nil at once *)
     eng := match cfg with [] => Some {| er_res := RNil; er_cancelled := false; er_fails := [] |} | _ => None end |}.

Fixpoint grun (v : variant) (cfg : list nat) (g : gstate) (tr : list gevent) : option gstate :=
  match tr with
  | [] => Some g
  | e :: r => match gstep v cfg g e with Some g' => grun v cfg g' r | None => None end
  end.

(* index of the first event of the trace that is not enabled (for diagnostics), None if all are *)
Fixpoint first_disabled (v : variant) (cfg : list nat) (g : gstate) (tr : list gevent) (i : nat) : option nat :=
  match tr with
  | [] => None
  | e :: r => match gstep v cfg g e with Some g' => first_disabled v cfg g' r (S i) | None => Some i end
  end.

(* ---------------------------------------------------------------------------------------- *)
(* Terminal states and observables *)

Definition pool_finished (s : pstate) : bool :=
  is_some (front s) && match ph s with PhDone | PhPreFailed => true | _ => false end.

Definition terminal (g : gstate) : bool := is_some (eng g) && forallb pool_finished (pools g).

(* Engine.Wait() returns iff every pool called onWaitDone *)
Definition wait_returns (g : gstate) : bool := forallb (fun s => wait_done s =? 1) (pools g).

Definition sum_by (f : pstate -> nat) (l : list pstate) : nat := fold_right (fun s acc => f s + acc) 0 l.

(* ---------------------------------------------------------------------------------------- *)
(* The executable specification, evaluated on what the IMPLEMENTATION did.
   Inputs: the failures that had occurred and whether the caller had cancelled when Run
   returned (both read off the recorded history), Run's result, whether Engine.Wait()
   returned, whether all goroutines ended, gun bookkeeping. *)
Record observation := {
  o_res : res;
  o_wait : bool;
  o_settled : bool;
  o_created : nat;
  o_closed : nat
}.

Definition cause_in (c : cause) (l : list (nat * cause)) : bool := existsb (fun x => cause_eqb c (snd x)) l.

Definition is_nil {A} (l : list A) : bool := match l with [] => true | _ => false end.

(* outcome part: C05_success_iff / C05_error_carried / C05_cancel_prompt.
   [all_nil]: Engine.Run had received a nil result from every pool (each pool's Run saw its
   awaitErr channel closed) when it returned. *)
Definition spec_outcome_b (fails_at_return : list (nat * cause)) (cancelled_at_return : bool)
                          (all_nil : bool) (r : res) : bool :=
  match r with
  | RNil => all_nil && (is_nil fails_at_return || cancelled_at_return)
  | RFail c => negb cancelled_at_return && cause_in c fails_at_return
  | RCtx => cancelled_at_return
  end.

Definition front_is_nil (s : pstate) : bool := match front s with Some RNil => true | _ => false end.

(* termination part: C05_terminates *)
Definition spec_term_b (o : observation) : bool := o_wait o && o_settled o.

(* every closable gun that was created is closed *)
Definition spec_guns_b (o : observation) : bool := o_created o =? o_closed o.

(* The variant the correspondence run and the theorems are about: the tree as it is now. *)
Definition current : variant := fixed.

Definition total_created (g : gstate) : nat := sum_by created (pools g).
Definition total_closed (g : gstate) : nat := sum_by closed (pools g).
Definition total_unbound (g : gstate) : nat := sum_by unbound (pools g).
Definition all_finished (g : gstate) : bool := forallb (fun s => match ph s with PhDone | PhPreFailed => true | _ => false end) (pools g).
Definition any_panicked (g : gstate) : bool := existsb panicked (pools g).
