(* Model of a decode provider built on the scan decoder (property C05: "a run always terminates ... it succeeds only if
   every pool ran out of ammo or schedule ... if the ammo provider ... fails, the run returns an error"):
   core/provider/chunk_decoder.go  ScanAmmoDecoder.Decode

       for { if !d.scanner.Scan() { if err := d.scanner.Err(); err != nil { return err }; return io.EOF }     (fixed, 1f55920)
                                  { return d.scanner.Err() }                                                  (orig)
             err := d.decoder.DecodeChunk(d.scanner.Bytes(), ammo)
             if err == ErrNoAmmoDecoded { continue }
             if err != nil { return "chunk decode failed" }
             return nil }

   and the loop of core/provider/decoder.go DecodeProvider.Run over it (one pass, no limit, never cancelled, every ammo
   taken): err == io.EOF -> return nil; err != nil -> return "ammo decode failed"; otherwise the ammo is handed out.
   The input is what the scanner makes of it: the chunks in order, then the clean end or a scanner error (read failure,
   over-long token).  Executable definitions only. *)
From Coq Require Import List Arith Bool.
Import ListNotations.

Inductive chunk := CkAmmo | CkSkip | CkBad.   (* decodes to an ammo / ErrNoAmmoDecoded (a header) / does not decode *)

Inductive dres := DAmmo | DEof | DErr | DNil. (* DNil: a nil error although nothing was decoded *)

Record sdvariant := { v_eof_reported : bool }.
Definition sd_fixed : sdvariant := {| v_eof_reported := true |}.
Definition sd_orig : sdvariant := {| v_eof_reported := false |}.
Definition sd_current : sdvariant := sd_fixed.

(* one call of Decode: its result and what is left of the input *)
Fixpoint sd_decode (v : sdvariant) (l : list chunk) (end_err : bool) : dres * list chunk :=
  match l with
  | [] => (if end_err then DErr else if v_eof_reported v then DEof else DNil, [])
  | CkSkip :: r => sd_decode v r end_err
  | CkAmmo :: r => (DAmmo, r)
  | CkBad :: r => (DErr, r)
  end.

Inductive pres := PNil | PFail | POutOfFuel.

(* DecodeProvider.Run: what it returns and how many ammo it handed out *)
Fixpoint dp_run (fuel : nat) (v : sdvariant) (l : list chunk) (end_err : bool) (delivered : nat) : pres * nat :=
  match fuel with
  | 0 => (POutOfFuel, delivered)
  | S f =>
      match sd_decode v l end_err with
      | (DEof, _) => (PNil, delivered)
      | (DErr, _) => (PFail, delivered)
      | (DAmmo, r) | (DNil, r) => dp_run f v r end_err (S delivered)
      end
  end.

(* ---- specification side ---- *)
Definition ck_bad (c : chunk) : bool := match c with CkBad => true | _ => false end.

(* something is wrong with the input: a chunk that does not decode, or the scanner stops with an error *)
Definition sd_spec_fails (l : list chunk) (end_err : bool) : bool := existsb ck_bad l || end_err.

(* the ammo the input holds before its first broken chunk *)
Fixpoint sd_spec_delivered (l : list chunk) : nat :=
  match l with
  | [] => 0
  | CkAmmo :: r => S (sd_spec_delivered r)
  | CkSkip :: r => sd_spec_delivered r
  | CkBad :: _ => 0
  end.

(* the file of the correspondence cases: a header, k ammo lines (a header after the first), then the broken element
   (a read failure / an over-long line: the scanner stops with an error there; a line that does not decode), m more *)
Inductive spoison := SpNone | SpScan | SpBad.

Definition sd_file (k m : nat) (po : spoison) : list chunk * bool :=
  let head := CkSkip :: match k with 0 => [] | S k' => CkAmmo :: CkSkip :: repeat CkAmmo k' end in
  match po with
  | SpNone => (head ++ repeat CkAmmo m, false)
  | SpScan => (head, true)
  | SpBad => (head ++ CkBad :: repeat CkAmmo m, false)
  end.
