(* Property C14 at the level of the CONTENT of the delivered ammo (the entry-list machines of
   Model/Provider.v carry tags as numbers and no content).

   1. Tags are byte strings and the chosencases test is string equality on the WHOLE tag
      ([is_chosen_b] = lib/confutil.IsChosenCase); a file's tags and the listed tags are numbered
      by their first position in one table ([index_of], injective on the table), which is how
      the machines of Model/Provider.v are instantiated.
   2. A file is a list of header lines and entries ([citem]); what it means ([file_entries]):
      every entry with its position, its tag and the header set in force at its own line (since
      the start of the pass), completed by the provider's `headers:` option for the keys the file
      does not set.
   3. The decoder's running header map is a MUTABLE object ([hdec]: a heap of maps and the address
      of the live one, decoders/uri.go d.Header, decoders/uripost.go d.header): a header line
      mutates the live map in place (commonHeader.Set), an entry gets a fresh copy
      (commonHeader.Clone() + the config headers) and keeps the reference, the end of a pass
      installs a new empty live map (d.Header = http.Header{}).  An ammo is looked at ([deref])
      when it is acquired: without preload right after it was decoded — or any time later, the
      decoder may be lines ahead —, with preload after the whole file was decoded
      (decoders/decoder.go LoadAmmo) and again on every replay.
   Executable definitions only; proofs in Proofs/PreloadContentProofs.v. *)
From Coq Require Import List Arith Bool NArith.
From PV Require Import Lib.AmmoBytes.
From PV Require Model.AmmoCommon.
From PV Require Import Model.Provider Model.Preload.
Import ListNotations.

Definition headers := AmmoCommon.headers.
Definition header_set := AmmoCommon.header_set.

(* ---------- 1. tags as byte strings ---------- *)

(* lib/confutil/chosen_cases_filter.go IsChosenCase *)
Definition is_chosen_b (t : bytes) (ch : list bytes) : bool :=
  match ch with
  | [] => true
  | _ => existsb (beq t) ch
  end.

Fixpoint index_of (t : bytes) (tab : list bytes) : nat :=
  match tab with
  | [] => 0
  | a :: r => if beq t a then 0 else S (index_of t r)
  end.

(* ---------- 2. files and what they mean ---------- *)

Inductive citem :=
| CHdr (k v : bytes)      (* a header line [k: v] *)
| CEnt (tag : bytes).     (* an entry *)

Record content := { c_pos : nat; c_tag : bytes; c_hdrs : headers }.

Definition has_key (k : bytes) (h : headers) : bool := existsb (fun p => beq k (fst p)) h.

(* `for k, vv := range d.decodedConfigHeaders { if _, ok := header[k]; !ok { header[k] = vv } }`
   (config keys are canonical: DecodeHTTPConfigHeaders uses Header.Add; one value per key) *)
Definition merge_cfg (cfgh : headers) (h : headers) : headers :=
  fold_left (fun acc p => let k := canon_key (fst p) in
                          if has_key k acc then acc else acc ++ [(k, snd p)]) cfgh h.

Fixpoint file_entries (cfgh : headers) (items : list citem) (h : headers) (i : nat) : list content :=
  match items with
  | [] => []
  | CHdr k v :: r => file_entries cfgh r (header_set k v h) i
  | CEnt t :: r => {| c_pos := i; c_tag := t; c_hdrs := merge_cfg cfgh h |} :: file_entries cfgh r h (S i)
  end.

(* the header state at the end of the items *)
Fixpoint final_hdrs (items : list citem) (h : headers) : headers :=
  match items with
  | [] => h
  | CHdr k v :: r => final_hdrs r (header_set k v h)
  | CEnt _ :: r => final_hdrs r h
  end.

(* ---------- 3. the decoder's header map as a mutable object ---------- *)

Definition heap := list headers.
Record hent := { h_pos : nat; h_tag : bytes; h_ref : nat }.   (* the ammo object holds a reference *)
Record hdec := { hp : heap; live : nat }.

Fixpoint upd (a : nat) (f : headers -> headers) (m : heap) : heap :=
  match m, a with
  | [], _ => []
  | c :: r, 0 => f c :: r
  | c :: r, S a' => c :: upd a' f r
  end.

Definition cell (m : heap) (a : nat) : headers := nth a m [].

Definition heap_init : hdec := {| hp := [[]]; live := 0 |}.

(* readLine *)
Definition dec_item (cfgh : headers) (s : hdec) (it : citem) (i : nat) : hdec * option hent :=
  match it with
  | CHdr k v => ({| hp := upd (live s) (header_set k v) (hp s); live := live s |}, None)
  | CEnt t => ({| hp := hp s ++ [merge_cfg cfgh (cell (hp s) (live s))]; live := live s |},
               Some {| h_pos := i; h_tag := t; h_ref := length (hp s) |})
  end.

(* end of a pass: a new empty live map *)
Definition new_pass (s : hdec) : hdec := {| hp := hp s ++ [[]]; live := length (hp s) |}.

Definition deref (m : heap) (e : hent) : content :=
  {| c_pos := h_pos e; c_tag := h_tag e; c_hdrs := cell m (h_ref e) |}.

(* one pass, keeping the references (LoadAmmo) *)
Fixpoint pass_load (cfgh : headers) (s : hdec) (items : list citem) (i : nat) : hdec * list hent :=
  match items with
  | [] => (s, [])
  | it :: r =>
      let '(s1, oe) := dec_item cfgh s it i in
      let '(s2, es) := pass_load cfgh s1 r (match oe with Some _ => S i | None => i end) in
      (s2, match oe with Some e => e :: es | None => es end)
  end.

(* one pass, every entry looked at right after it was decoded (runFullScan with a consumer that
   keeps up) *)
Fixpoint pass_stream (cfgh : headers) (s : hdec) (items : list citem) (i : nat) : hdec * list content :=
  match items with
  | [] => (s, [])
  | it :: r =>
      let '(s1, oe) := dec_item cfgh s it i in
      let '(s2, cs) := pass_stream cfgh s1 r (match oe with Some _ => S i | None => i end) in
      (s2, match oe with Some e => deref (hp s1) e :: cs | None => cs end)
  end.

(* anything the decoder may do later *)
Inductive devent := DItem (it : citem) (i : nat) | DNewPass.

Definition dec_event (cfgh : headers) (s : hdec) (ev : devent) : hdec :=
  match ev with
  | DItem it i => fst (dec_item cfgh s it i)
  | DNewPass => new_pass s
  end.

Definition dec_events (cfgh : headers) (s : hdec) (evs : list devent) : hdec :=
  fold_left (dec_event cfgh) evs s.

(* what a path makes of the file: the ammo of one pass as its consumer sees them.
   preload: all references are kept until the pass is over and looked at afterwards;
   streaming: looked at as they come (pass p starts from a new empty live map: the content of
   every pass is that of the first, [stream_passes]) *)
Definition contents_of (preload : bool) (cfgh : headers) (items : list citem) : list content :=
  if preload then let '(s, es) := pass_load cfgh heap_init items 0 in map (deref (hp s)) es
  else snd (pass_stream cfgh heap_init items 0).

Fixpoint stream_passes (cfgh : headers) (p : nat) (s : hdec) (items : list citem) : list (list content) :=
  match p with
  | 0 => []
  | S p' => let '(s1, cs) := pass_stream cfgh s items 0 in cs :: stream_passes cfgh p' (new_pass s1) items
  end.

(* ---------- the provider over such a file ---------- *)

Definition abs_entries (tab : list bytes) (cs : list content) : list entry :=
  map (fun c => {| e_tag := index_of (c_tag c) tab; e_id := c_pos c |}) cs.

Definition abs_chosen (tab : list bytes) (chb : list bytes) : list nat :=
  map (fun t => index_of t tab) chb.

Definition tag_table (cs : list content) (chb : list bytes) : list bytes := map c_tag cs ++ chb.

Definition pick {A} (l : list A) (idx : list nat) : list A :=
  flat_map (fun i => match nth_error l i with Some c => [c] | None => [] end) idx.

(* the provider of decoder kind k over the file, chosencases as byte strings: the contents its
   consumer sees, how Run ends, whether the sink was closed *)
Definition deliver_c (k : dkind) (preload : bool) (lim pas : nat) (cfgh : headers) (items : list citem)
           (chb : list bytes) (cancel : option nat) (fuel : nat) : list content * outcome * bool :=
  let cs := contents_of preload cfgh items in
  let tab := tag_table cs chb in
  let r := deliver k preload {| limit := lim; passes := pas; chosen := abs_chosen tab chb |}
                   (abs_entries tab cs) cancel fuel in
  (pick cs (ids (delivered r)), out r, closed r).

(* the specification: the entries whose whole tag is listed, in file order, replayed cyclically *)
Definition chosen_content (chb : list bytes) (cs : list content) : list content :=
  filter (fun c => is_chosen_b (c_tag c) chb) cs.

Definition cyc_c {A} (src : list A) (k : nat) : list A :=
  pick src (map (fun a => a mod length src) (seq 0 k)).

(* ---------- what a gun sees of one content: Host apart, the rest sorted by key ---------- *)

Fixpoint bytes_leb (a b : bytes) : bool :=
  match a, b with
  | [], _ => true
  | _ :: _, [] => false
  | x :: a', y :: b' => if N.ltb x y then true else if N.ltb y x then false else bytes_leb a' b'
  end.

Fixpoint ins_sorted (p : bytes * bytes) (l : headers) : headers :=
  match l with
  | [] => [p]
  | q :: r => if bytes_leb (fst p) (fst q) then p :: l else q :: ins_sorted p r
  end.

Definition sort_hdrs (h : headers) : headers := fold_right ins_sorted [] h.

Definition lookup (k : bytes) (h : headers) : bytes :=
  match find (fun p => beq k (fst p)) h with Some p => snd p | None => [] end.

Record view := { v_pos : nat; v_tag : bytes; v_host : bytes; v_hdrs : headers }.

(* uri-like files have no host of their own (util.EnrichRequestWithHeaders: the Host header fills
   req.Host); the raw and json files of the harness name host "h" themselves *)
Definition view_of (uri_like : bool) (c : content) : view :=
  {| v_pos := c_pos c; v_tag := c_tag c;
     v_host := if uri_like then lookup AmmoCommon.HOST (c_hdrs c) else [104%N];
     v_hdrs := sort_hdrs (filter (fun p => negb (beq AmmoCommon.HOST (fst p))) (c_hdrs c)) |}.

Fixpoint hdrs_eqb (a b : headers) : bool :=
  match a, b with
  | [], [] => true
  | (k, v) :: a', (k', v') :: b' => beq k k' && beq v v' && hdrs_eqb a' b'
  | _, _ => false
  end.

Definition view_eqb (a b : view) : bool :=
  (v_pos a =? v_pos b) && beq (v_tag a) (v_tag b) && beq (v_host a) (v_host b) && hdrs_eqb (v_hdrs a) (v_hdrs b).

(* The executable specification on the IMPLEMENTATION's observations of the two providers built
   from the same file: [spec14_b] on the positions (with the tags numbered by the table) and every
   acquired ammo carries what the file says at its position. *)
Definition spec14c_b (uri_like : bool) (lim pas : nat) (cfgh : headers) (items : list citem) (chb : list bytes)
           (cancel : option nat) (obsS obsP : list view) (clS clP : bool) (rcS rcP : runclass) : bool :=
  let cs := file_entries cfgh items [] 0 in
  let tab := tag_table cs chb in
  let okv o := match nth_error cs (v_pos o) with
               | Some c => view_eqb (view_of uri_like c) o
               | None => false
               end in
  spec14_b lim pas (abs_entries tab cs) (abs_chosen tab chb) cancel
           (map v_pos obsS) (map v_pos obsP) clS clP rcS rcP
  && forallb okv obsS && forallb okv obsP.
