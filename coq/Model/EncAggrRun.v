(* Model of the run loop of the encoder aggregator (property C05, "if ... the aggregator ... fails, the run
   returns an error that carries that cause -- a component error is never swallowed into a successful
   result"; the aggregator as a component whose own report the engine relies on):
   core/aggregator/encoder.go  dataSinkAggregator.Run  (named result err).

       sink, err := a.conf.Sink.OpenSink();  if err != nil { return }
       defer { err = Join(err, sink.Close()); err = Join(err, a.DroppedErr()) }
       encoder := a.newEncoder(sink, func() { flushes++ })
       defer { err = Join(err, "final flush failed": encoder.Flush())  (or "encoder close failed": encoder.Close()) }
     HandleLoop:
       for { select {
         case sample := <-a.Incomming:  err = a.handleSample(encoder, sample);  if err != nil { return }
         case <-flushTick:              if previousFlushes == flushes { err = encoder.Flush(); if err != nil { return } }
                                        previousFlushes = flushes
         case <-ctx.Done():             break HandleLoop } }
       for { select {
         case sample := <-a.Incomming:  err = a.handleSample(encoder, sample);  if err != nil { return }
         default:                       return nil } }

   The environment is what the select takes and what every operation on the encoder / the sink returns.
   What the two error branches of the handle loop do is a parameter ([epolicy]: `return`, `break HandleLoop`,
   or nothing = go on with the loop); the tree's treatment is re-read from the source (Gen/EncAggrGen.v).
   Executable definitions only. *)
From Coq Require Import List Arith Bool.
Import ListNotations.

(* the failures an error returned by Run can carry (errutil.Join keeps all of them) *)
Inductive ecause := EcOpen | EcEncode | EcFlush | EcFinal | EcClose | EcDropped.

Definition ecause_eqb (a b : ecause) : bool :=
  match a, b with
  | EcOpen, EcOpen | EcEncode, EcEncode | EcFlush, EcFlush | EcFinal, EcFinal | EcClose, EcClose | EcDropped, EcDropped => true
  | _, _ => false
  end.

Inductive eev :=
| EvSample (ok : bool)                       (* a sample arrives; Encode returns nil (true) / an error *)
| EvTick (flushed_since : bool) (ok : bool). (* a flush-interval tick; the encoder flushed by itself since the previous
                                                tick (then nothing is done); what Flush returns otherwise *)

Inductive eact := EaReturn | EaBreak | EaContinue.

Record epolicy := { ep_sample : eact; ep_tick : eact }.

(* core/aggregator/encoder.go as it is *)
Definition tree_epolicy : epolicy := {| ep_sample := EaReturn; ep_tick := EaReturn |}.

Record earun := {
  ea_open : bool;            (* OpenSink succeeds *)
  ea_events : list eev;      (* what the select of the handle loop takes, in order, until ctx.Done is taken *)
  ea_queued : list bool;     (* the samples still queued when the handle loop is left: what Encode returns for each *)
  ea_final : bool;           (* the deferred final Flush (the encoder's Close when it is an io.Closer) succeeds *)
  ea_close : bool;           (* sink.Close succeeds *)
  ea_dropped : bool          (* samples were dropped by the reporter (DroppedErr is not nil) *)
}.

(* the second loop: queued samples, then `default: return nil` *)
Fixpoint ea_drain (q : list bool) : option ecause :=
  match q with
  | [] => None
  | true :: r => ea_drain r
  | false :: _ => Some EcEncode
  end.

(* the handle loop; the value is the named result err at the moment the function body is left.
   EaContinue: err stays set, the loop goes on; whatever leaves the loop later assigns err again
   (a sample, a flush, or the final `return nil`), so the value is forgotten. *)
Fixpoint ea_handle (pol : epolicy) (evs : list eev) (q : list bool) : option ecause :=
  match evs with
  | [] => ea_drain q                                   (* ctx.Done: break HandleLoop *)
  | EvSample true :: r => ea_handle pol r q
  | EvSample false :: r =>
      match ep_sample pol with
      | EaReturn => Some EcEncode
      | EaBreak => ea_drain q
      | EaContinue => ea_handle pol r q
      end
  | EvTick true _ :: r => ea_handle pol r q
  | EvTick false true :: r => ea_handle pol r q
  | EvTick false false :: r =>
      match ep_tick pol with
      | EaReturn => Some EcFlush
      | EaBreak => ea_drain q
      | EaContinue => ea_handle pol r q
      end
  end.

Definition ea_join (acc : list ecause) (ok : bool) (c : ecause) : list ecause := if ok then acc else acc ++ [c].

(* what Run returns: the failures its error carries, [] = nil *)
Definition ea_run (pol : epolicy) (e : earun) : list ecause :=
  if negb (ea_open e) then [EcOpen]
  else
    let r := match ea_handle pol (ea_events e) (ea_queued e) with None => [] | Some c => [c] end in
    let r := ea_join r (ea_final e) EcFinal in
    let r := ea_join r (ea_close e) EcClose in
    ea_join r (negb (ea_dropped e)) EcDropped.

(* ---- specification side (not code shaped) ---- *)

Definition ev_ok (x : eev) : bool := match x with EvSample ok => ok | EvTick fl ok => fl || ok end.

Definition ev_cause (x : eev) : ecause := match x with EvSample _ => EcEncode | EvTick _ _ => EcFlush end.

(* nothing the aggregator does to its encoder / sink goes wrong *)
Definition ea_all_ok (e : earun) : bool :=
  ea_open e && forallb ev_ok (ea_events e) && forallb (fun b => b) (ea_queued e) && ea_final e && ea_close e && negb (ea_dropped e).

Definition ea_spec_fails (e : earun) : bool := negb (ea_all_ok e).

(* the FIRST thing that goes wrong *)
Definition ea_spec_first (e : earun) : option ecause :=
  if negb (ea_open e) then Some EcOpen
  else match find (fun x => negb (ev_ok x)) (ea_events e) with
       | Some x => Some (ev_cause x)
       | None =>
           if negb (forallb (fun b => b) (ea_queued e)) then Some EcEncode
           else if negb (ea_final e) then Some EcFinal
           else if negb (ea_close e) then Some EcClose
           else if ea_dropped e then Some EcDropped else None
       end.

(* did that operation go wrong at all (for "no invented failure") *)
Definition ea_occurs (e : earun) (c : ecause) : bool :=
  match c with
  | EcOpen => negb (ea_open e)
  | EcEncode => existsb (fun x => match x with EvSample ok => negb ok | _ => false end) (ea_events e) || negb (forallb (fun b => b) (ea_queued e))
  | EcFlush => existsb (fun x => match x with EvTick fl ok => negb (fl || ok) | _ => false end) (ea_events e)
  | EcFinal => negb (ea_final e)
  | EcClose => negb (ea_close e)
  | EcDropped => ea_dropped e
  end.

(* the environment read off a trace of the operations performed (the correspondence run): every Encode / Flush but
   the last Flush is an event of the loops, the last Flush is the deferred one *)
Inductive eop := OpEncode (ok : bool) | OpFlush (ok : bool).

Fixpoint ea_events_of (ops : list eop) : list eev :=
  match ops with
  | [] => []
  | OpEncode ok :: r => EvSample ok :: ea_events_of r
  | OpFlush ok :: r => EvTick false ok :: ea_events_of r
  end.

Definition ea_of_trace (opened : bool) (ops : list eop) (final_ok close_ok dropped : bool) : earun :=
  {| ea_open := opened; ea_events := ea_events_of ops; ea_queued := []; ea_final := final_ok; ea_close := close_ok; ea_dropped := dropped |}.
