(* Asynchronous instance creation on top of the start loop (Model/StartLoop.v).

   core/engine/engine.go startInstances creates the FIRST instance synchronously; every later token
   only launches a goroutine

       for ; waiter.Wait(startCtx); started++ { id := started
           go func() { runRes <- instanceRunResult{id, runNewInstance(runCtx, .., id, deps)} }() }

   and runNewInstance calls newInstance (RPS schedule factory, gun factory, gun.Bind).  Either of
   the three may fail; the error travels through runRes to awaitRun, which (the error not being a
   context error of the run) fails the pool: Run returns it, the pool context and with it the run
   and the instance-start contexts are cancelled.

   State on top of the loop state [base] ([started base] = ids the loop has launched):
     pend    launched ids whose newInstance has not returned yet
     live    instances that exist: (id, instant newInstance returned), newest first
     failq   ids whose creation failed; result sent to runRes, not yet received by awaitRun
     failed  creation failures received by awaitRun (each one cancelled the start context)

   Executable definitions only; proofs are in Proofs/StartAsyncProofs.v. *)
From Coq Require Import List ZArith Bool Arith.
From PV Require Import Model.StartLoop.
Import ListNotations.
Local Open Scope Z_scope.

Record astate := mkAS {
  base : sstate;
  pend : list nat;
  live : list (nat * Z);
  failq : list nat;
  failed : list nat
}.

Inductive aaction :=
| ABase (a : saction)               (* a step of the loop / time / a cancel source, as in StartLoop *)
| AResolve (id : nat) (ok : bool)   (* newInstance of a launched id returns (ok: instance exists) *)
| AAwait (id : nat).                (* awaitRun receives the failed creation: the pool fails, everything is cancelled *)

Definition ainit (toks : list Z) (t0 : Z) : astate := mkAS (sinit toks t0) [] [] [] [].

Definition mem_nat (x : nat) (l : list nat) : bool := existsb (Nat.eqb x) l.

(* removes the first occurrence *)
Fixpoint remove_nat (x : nat) (l : list nat) : list nat :=
  match l with
  | [] => []
  | y :: r => if (x =? y)%nat then r else y :: remove_nat x r
  end.

Definition astep (x : aaction) (a : astate) : option astate :=
  match x with
  | ABase b =>
      match sstep b (base a) with
      | None => None
      | Some s' =>
          let n := length (started (base a)) in
          if (length (started s') =? S n)%nat          (* the loop performed its create section for id n *)
          then if (n =? 0)%nat
               then Some (mkAS s' (pend a) ((n, clock s') :: live a) (failq a) (failed a))  (* first: synchronous *)
               else Some (mkAS s' (n :: pend a) (live a) (failq a) (failed a))              (* go runNewInstance *)
          else Some (mkAS s' (pend a) (live a) (failq a) (failed a))
      end
  | AResolve id ok =>
      if mem_nat id (pend a) then
        if ok then Some (mkAS (base a) (remove_nat id (pend a)) ((id, clock (base a)) :: live a) (failq a) (failed a))
        else Some (mkAS (base a) (remove_nat id (pend a)) (live a) (id :: failq a) (failed a))
      else None
  | AAwait id =>
      if mem_nat id (failq a) then
        match sstep (SCancel InstanceFailed) (base a) with
        | Some s' => Some (mkAS s' (pend a) (live a) (remove_nat id (failq a)) (id :: failed a))
        | None => None
        end
      else None
  end.

Fixpoint arun (l : list aaction) (a : astate) : option astate :=
  match l with
  | [] => Some a
  | x :: r => match astep x a with Some a' => arun r a' | None => None end
  end.

(* what the loop sees of an asynchronous trace *)
Definition aproj (x : aaction) : list saction :=
  match x with
  | ABase b => [b]
  | AResolve _ _ => []
  | AAwait _ => [SCancel InstanceFailed]
  end.

(* nothing in flight: every launched creation has returned and every failure has been received *)
Definition quiescent (a : astate) : bool :=
  match pend a, failq a with [], [] => true | _, _ => false end.

Definition live_ids (a : astate) : list nat := map fst (live a).

(* the variant in which a failed creation is received as if the instance had finished normally
   (no cancel): used only to show that the theorems tell the two apart *)
Definition astep_swallow (x : aaction) (a : astate) : option astate :=
  match x with
  | AAwait id =>
      if mem_nat id (failq a) then Some (mkAS (base a) (pend a) (live a) (remove_nat id (failq a)) (id :: failed a))
      else None
  | _ => astep x a
  end.

Fixpoint arun_swallow (l : list aaction) (a : astate) : option astate :=
  match l with
  | [] => Some a
  | x :: r => match astep_swallow x a with Some a' => arun_swallow r a' | None => None end
  end.

(* Canonical complete run for the correspondence driver: as StartLoop.drive, every launched
   creation returns at once (failing iff its id is in [fails]); a failed creation is received by
   awaitRun once [n] ids have been launched, or - [await_at_end] - only when the loop has ended. *)
Definition loop_ended (s : sstate) : bool := match spc s with LEnd _ => true | _ => false end.

Definition adrive_action (n : nat) (c : option cause) (fail0 await_at_end : bool) (fails : list nat)
    (a : astate) : option aaction :=
  match pend a with
  | id :: _ => Some (AResolve id (negb (mem_nat id fails)))
  | [] =>
      match failq a with
      | id :: _ =>
          if (if await_at_end then loop_ended (base a) else (n <=? length (started (base a)))%nat)
          then Some (AAwait id)
          else if loop_ended (base a) then Some (AAwait id)
          else Some (ABase (drive_action n c fail0 (base a)))
      | [] => if loop_ended (base a) then None else Some (ABase (drive_action n c fail0 (base a)))
      end
  end.

Fixpoint adrive (fuel : nat) (n : nat) (c : option cause) (fail0 await_at_end : bool) (fails : list nat)
    (a : astate) : astate :=
  match fuel with
  | O => a
  | S f => match adrive_action n c fail0 await_at_end fails a with
           | Some x => match astep x a with
                       | Some a' => adrive f n c fail0 await_at_end fails a'
                       | None => a
                       end
           | None => a
           end
  end.
