(* C13: the non-ammo input handlers, every partial Go operation explicit.
   lib/str ParseStringFunc + RandStringRunes, scenario/config ParseShootName,
   scenario/{http,grpc} convertScenarioToAmmo, scenario/config SpreadNames (slice capacity),
   lib/mp calcIndex + extractFromSlice, lib/confutil propertyTokenResolver,
   lib/ioutil2 MultiPassReader, grpc/json provider loop.  Definitions only. *)
From Coq Require Import List NArith ZArith Bool.
From PV Require Import Lib.AmmoBytes Lib.AmmoDecimal Lib.AmmoLines Model.AmmoCommon.
Import ListNotations.
Local Open Scope Z_scope.

Inductive rres (A : Type) :=
| VOk (a : A)
| VErr
| VPanic.
Arguments VOk {A} a.
Arguments VErr {A}.
Arguments VPanic {A}.

Definition LPAR : N := 40%N.
Definition RPAR : N := 41%N.
Definition COMMA : N := 44%N.
Definition HASH : N := 35%N.
Definition EQS : N := 61%N.

(* ---------- str.ParseStringFunc ---------- *)
(* "name(arg, arg)" -> (name, args); no bracket at all -> (s, nil) *)
Definition parse_string_func (s : bytes) : rres (bytes * list bytes) :=
  let '(before, after, found) := cut LPAR s in
  if negb found then
    if has RPAR s then VErr else VOk (s, [])
  else
    let name := trim before in
    let arg := trim after in
    let '(inner, rest, cfound) := cut RPAR arg in
    (* closeIdx must be the last index of arg *)
    if negb cfound || negb (is_nil rest) then VErr
    else VOk (name, map trim (split COMMA (trim inner))).

(* ---------- config.ParseShootName ---------- *)
Definition arg_int (args : list bytes) (i : nat) (dflt : Z) : option Z :=
  match nth_error args i with
  | Some ((_ :: _) as a) => atoi a
  | _ => Some dflt
  end.

Definition parse_shoot_name (s : bytes) : rres (bytes * Z * Z) :=
  match parse_string_func s with
  | VErr => VErr
  | VPanic => VPanic
  | VOk (name, args) =>
      match arg_int args 0 1 with
      | None => VErr
      | Some cnt =>
          match arg_int args 1 0 with
          | None => VErr
          | Some sleep => VOk (name, cnt, sleep)
          end
      end
  end.

(* ---------- convertScenarioToAmmo ---------- *)
(* the request list of the built scenario, run-length encoded: (name, sleep ms, copies) *)
Record step := { st_name : bytes; st_sleep : Z; st_count : Z }.

Definition SLEEP : bytes := [115; 108; 101; 101; 112]%N.

(* result.Requests[len-1].Sleep += d : only the last copy of the last run changes *)
Fixpoint bump_last (acc : list step) (d : Z) : list step :=
  match acc with
  | [] => []
  | [s] =>
      if st_count s =? 1 then [{| st_name := st_name s; st_sleep := st_sleep s + d; st_count := 1 |}]
      else [{| st_name := st_name s; st_sleep := st_sleep s; st_count := st_count s - 1 |};
            {| st_name := st_name s; st_sleep := st_sleep s + d; st_count := 1 |}]
  | s :: r => s :: bump_last r d
  end.

Section Convert.
  Variable known : bytes -> bool.          (* the request registry *)

  (* [acc] holds runs with positive counts only; allocs = element counts appended *)
  Fixpoint convert (reqs : list bytes) (acc : list step) (allocs : list Z) : rres (list step * list Z) :=
    match reqs with
    | [] => VOk (acc, allocs)
    | sh :: r =>
        match parse_shoot_name sh with
        | VErr => VErr
        | VPanic => VPanic
        | VOk (name, cnt, sleep) =>
            if beq name SLEEP then
              match acc with
              | [] => VErr     (* sleep() must follow a request *)
              | _ => convert r (bump_last acc cnt) allocs
              end
            else if negb (known name) then VErr
            else
              let sl := if 0 <? sleep then sleep else 0 in
              if 0 <? cnt
              then convert r (acc ++ [{| st_name := name; st_sleep := sl; st_count := cnt |}]) (allocs ++ [cnt])
              else convert r acc allocs
        end
    end.
End Convert.

(* ---------- config.SpreadNames + make([]*Scenario, 0, size) ---------- *)
(* lib/math.GCD: Euclid while both are positive, then the larger of the two *)
Definition go_gcd (a b : Z) : Z :=
  if (0 <? a) && (0 <? b) then Z.gcd a b else Z.max a b.

(* lib/math.GCDM on the reversed argument list (last weight first) *)
Fixpoint go_gcdm_rev (ws : list Z) : Z :=
  match ws with
  | x :: ((y :: r) as tl) =>
      let res := go_gcd y x in
      match r with
      | [] => res
      | _ => go_gcd (go_gcdm_rev tl) res
      end
  | _ => 0
  end.

(* weights as configured (0 means 1); per scenario copies = weight / gcd (Go's truncated
   division); the sum is the capacity handed to make: negative -> panic.
   Result: the copies per scenario. *)
Definition spread_counts (weights : list Z) : rres (list Z) :=
  if existsb (fun w => w <? 0) weights then VErr       (* DecodeMap: negative weight *)
  else
  match weights with
  | [] => VOk []
  | [_] => VOk [1]
  | _ =>
      let ws := map (fun w => if w =? 0 then 1 else w) weights in
      let g := go_gcdm_rev (rev ws) in
      if g =? 0 then VPanic                                  (* integer divide by zero *)
      else
        let cs := map (fun w => Z.quot w g) ws in
        let total := fold_left Z.add cs 0 in
        if (total <? 0) || (max_alloc <? 8 * total) then VPanic   (* makeslice: cap out of range *)
        else VOk cs
  end.

(* ---------- mp.calcIndex + extractFromSlice ---------- *)
Definition NEXT : bytes := [110; 101; 120; 116]%N.
Definition RAND : bytes := [114; 97; 110; 100]%N.
Definition LAST : bytes := [108; 97; 115; 116]%N.

Section Index.
  (* idx: lower-cased trimmed index text; len: slice length; nxt: iter.Next value (>= 0);
     rnd: what iter.Rand(len) returns when len > 0 *)
  Definition calc_index (idx : bytes) (len nxt rnd : Z) : rres Z :=
    let kw := beq idx NEXT || beq idx RAND || beq idx LAST in
    if len =? 0 then VErr                                  (* empty list *)
    else
    match atoi idx, kw with
    | None, false => VErr
    | Some i, false =>
        if (0 <=? i) && (i <? len) then VOk i
        else if len =? 0 then VPanic                      (* integer divide by zero *)
        else let m := Z.rem i len in VOk (if m <? 0 then m + len else m)
    | _, true =>
        if beq idx LAST then VOk (len - 1)
        else if beq idx RAND then (if len <=? 0 then VPanic else VOk rnd)   (* rand.Intn(0) panics *)
        else if nxt <? len then VOk nxt
        else if len =? 0 then VPanic
        else VOk (Z.rem nxt len)
    end.

  (* v[index] *)
  Definition extract_index (idx : bytes) (len nxt rnd : Z) : rres Z :=
    match calc_index idx len nxt rnd with
    | VOk i => if (0 <=? i) && (i <? len) then VOk i else VPanic
    | r => r
    end.
End Index.

(* ---------- confutil.propertyTokenResolver ---------- *)
Section Property.
  (* os.Open + bufio.Scanner over the file: None = cannot open *)
  Variable file_lines : bytes -> option (list bytes).

  Fixpoint lookup_prop (ls : list bytes) (key : bytes) : option bytes :=
    match ls with
    | [] => None
    | l :: r =>
        let '(k, v, found) := cut EQS l in
        if found && beq k key then Some v else lookup_prop r key
    end.

  Definition property_resolve (inp : bytes) : rres bytes :=
    let '(filename, key, found) := cut HASH inp in
    if negb found then VErr     (* property name is missing *)
    else
      match file_lines filename with
      | None => VErr
      | Some ls => match lookup_prop ls key with Some v => VOk v | None => VErr end
      end.
End Property.

(* ---------- str.RandStringRunes: b := make([]rune, n) ---------- *)
Definition rand_string_alloc (n : Z) : rres Z :=
  if n <=? 0 then VOk 0                      (* "" *)
  else if max_alloc <? 4 * n then VPanic     (* makeslice: len out of range *)
  else VOk n.

(* ---------- templater.randInt(f, t): int64 arithmetic, rand.Int63n(t - f) ---------- *)
Definition wrap64 (z : Z) : Z := (z + 9223372036854775808) mod 18446744073709551616 - 9223372036854775808.

(* VOk (lo, width): the result is lo + r for some 0 <= r < width; equal bounds give that number,
   a width that does not fit int64 is an error *)
Definition rand_int_range (f t : Z) : rres (Z * Z) :=
  let '(f, t) := if t <? f then (t, f) else (f, t) in
  let t := if (f =? 0) && (t =? 0) then 10 else t in
  if t =? f then VOk (f, 1)
  else
    let w := wrap64 (t - f) in
    if w <=? 0 then VErr
    else VOk (f, w).             (* rand.Int63n(w) + f *)

(* ---------- ioutil2.MultiPassReader ---------- *)
(* one Read(p) with len(p) = m > 0 on a source of [len] bytes at offset [pos];
   result: bytes read, error?, new position, new passes count *)
Record mpr := { mp_pos : Z; mp_passes : Z; mp_read_in_pass : bool }.

Definition mp_read (len limit m : Z) (s : mpr) : Z * bool * mpr :=
  let avail := len - mp_pos s in
  if 0 <? avail then
    let n := Z.min m avail in
    (n, false, {| mp_pos := mp_pos s + n; mp_passes := mp_passes s; mp_read_in_pass := true |})
  else
    (* underlying reader: (0, io.EOF) *)
    let pc := mp_passes s + 1 in
    if negb (mp_read_in_pass s) then
      (0, true, {| mp_pos := mp_pos s; mp_passes := pc; mp_read_in_pass := false |})   (* an empty pass: io.EOF *)
    else if (limit <=? 0) || (pc <? limit)
    then (0, false, {| mp_pos := 0; mp_passes := pc; mp_read_in_pass := false |})      (* Seek to the start, err = nil *)
    else (0, true, {| mp_pos := mp_pos s; mp_passes := pc; mp_read_in_pass := mp_read_in_pass s |}).

(* k successive Reads: (n, eof?) of each *)
Fixpoint mp_reads (k : nat) (len limit m : Z) (s : mpr) : list (Z * bool) :=
  match k with
  | O => []
  | S k' => let '(n, e, s') := mp_read len limit m s in (n, e) :: mp_reads k' len limit m s'
  end.

(* ---------- grpc/json provider (grpcjson.Provider.start) ---------- *)
Inductive gres :=
| GDeliver (tag call : bytes)
| GInvalid     (* ContinueOnError: the undecodable line is delivered as an invalidated ammo *)
| GErr
| GSpin.        (* the pass loop repeats for ever without delivering anything (unreachable) *)

Section GrpcJson.
  (* jsoniter.Unmarshal of one line into ammo.Ammo: (tag, call) or an error *)
  Variable unmarshal : bytes -> option (bytes * bytes).
  Variable continue_on_error : bool.

  (* the first k things a consumer sees (Limit = Passes = 0) *)
  Fixpoint grpc_run (k : nat) (all : list bytes) (e : scan_end) (left : list bytes) : list gres :=
    match k with
    | O => []
    | S k' =>
        let step l r :=
          match unmarshal (drop_cr l) with
          | Some (t, c) => GDeliver t c :: grpc_run k' all e r
          | None => if continue_on_error then GInvalid :: grpc_run k' all e r else [GErr]
          end in
        match left with
        | l :: r => step l r
        | [] =>
            match e with
            | STooLong => [GErr]
            | SEof => match all with
                      | [] => [GErr]          (* a whole pass delivered nothing: "no ammo in file" *)
                      | l :: r => step l r
                      end
            end
        end
    end.

  Definition grpc_decode (maxtok : N) (k : nat) (file : bytes) : list gres :=
    let '(ls, e) := scan_lines maxtok file in grpc_run k ls e ls.
End GrpcJson.
