(* C13: a configuration value given through a placeholder and cast to an integer field
   (lib/confutil/custom_tag_resolver.go castInt): strconv parses the text (oracle); what is modelled is the
   range decision.  [cast_int] follows the repaired code (ParseUint for unsigned kinds), [cast_int_wrapping]
   is the former code (ParseInt(v, 0, bits) followed by the conversion uintN(intV)), kept to show what the
   statement rests on.  Executable definitions only. *)
From Coq Require Import ZArith Bool.
Local Open Scope Z_scope.

Definition in_signed (bits z : Z) : bool := (- 2 ^ (bits - 1) <=? z) && (z <? 2 ^ (bits - 1)).
Definition in_unsigned (bits z : Z) : bool := (0 <=? z) && (z <? 2 ^ bits).

Definition cast_int (unsigned : bool) (bits z : Z) : option Z :=
  if unsigned then (if in_unsigned bits z then Some z else None)
  else (if in_signed bits z then Some z else None).

Definition cast_int_wrapping (unsigned : bool) (bits z : Z) : option Z :=
  if in_signed bits z then Some (if unsigned then z mod 2 ^ bits else z) else None.
