(* Model for property C19: the grpc gun and TIME (components/guns/grpc/core.go shoot).  A target may accept a call and
   stay silent - for ever, or longer than the configured `timeout`.  Whether `InvokeRpc` comes back then depends on
   ONE thing: the deadline of the context it is handed.  The context is an expression built from context.Background()
   / the gun's instance context by context.WithTimeout and metadata.NewOutgoingContext; its deadline is computed from
   that expression (`ctx_deadline`).  Times are milliseconds from the moment the call is issued.  A shot that never
   returns is an explicit outcome (`TsNever`), not an absent one.  Executable definitions only. *)
From Coq Require Import List ZArith NArith Bool.
From PV Require Import Model.Robust Model.RobustGrpcScn.
Import ListNotations.

(* the context handed to InvokeRpc *)
Inductive ctx_expr :=
  | CxBackground                        (* context.Background() *)
  | CxGun                               (* g.Ctx: the instance context - ends when the POOL is done, no deadline *)
  | CxWithTimeout (parent : ctx_expr)   (* context.WithTimeout(parent, timeout) *)
  | CxWithMD (parent : ctx_expr)        (* metadata.NewOutgoingContext(parent, md): the parent with a value added *)
  | CxOther.                            (* an expression the translator does not understand: no deadline is assumed *)

Fixpoint ctx_deadline (timeout : N) (e : ctx_expr) : option N :=
  match e with
  | CxBackground | CxGun | CxOther => None
  | CxWithTimeout p => match ctx_deadline timeout p with None => Some timeout | Some d => Some (N.min d timeout) end
  | CxWithMD p => ctx_deadline timeout p
  end.

(* what the target does with a call it has accepted *)
Inductive gbeh :=
  | GbNever                             (* never answers *)
  | GbAnswer (delay : N) (status : N).  (* answers `delay` after the call was issued with that grpc status *)

Definition deadline_exceeded : N := 4.  (* codes.DeadlineExceeded *)

Inductive invoke_result := InvNever | InvReturns (at_ms : N) (status : N).

(* Stub.InvokeRpc(ctx, …): the answer if it arrives before the deadline, DeadlineExceeded AT the deadline otherwise;
   without a deadline it waits for the answer however long that takes *)
Definition invoke (deadline : option N) (b : gbeh) : invoke_result :=
  match b, deadline with
  | GbNever, None => InvNever
  | GbNever, Some d => InvReturns d deadline_exceeded
  | GbAnswer t s, None => InvReturns t s
  | GbAnswer t s, Some d => if N.ltb t d then InvReturns t s else InvReturns d deadline_exceeded
  end.

Definition default_timeout : N := 15000.  (* defaultTimeout = 15 s *)
Definition effective_timeout (conf : N) : N := if N.eqb conf 0 then default_timeout else conf.

Inductive gcall := GcNoMethod | GcBadPayload | GcCall (b : gbeh).

Inductive timed_shot := TsNever | TsReturned (at_ms : N) (s : sample).

Definition tsample (code : Z) : sample := {| sm_code := code; sm_err := false |}.

(* Gun.shoot over time; `conv` = ConvertGrpcStatus (Model/GrpcStatus.v grpc_code, re-read from the source), `cx` = the
   context expression the call is made with *)
Definition grpc_shoot_timed (conv : N -> Z) (cx : ctx_expr) (conf_timeout : N) (c : gcall) : timed_shot :=
  match c with
  | GcNoMethod => TsReturned 0 (tsample 0)
  | GcBadPayload => TsReturned 0 (tsample 400)
  | GcCall b => match invoke (ctx_deadline (effective_timeout conf_timeout) cx) b with
                | InvNever => TsNever
                | InvReturns t s => TsReturned t (tsample (conv s))
                end
  end.

(* the context of the source: metadata.NewOutgoingContext(context.WithTimeout(context.Background(), timeout), md) *)
Definition code_ctx : ctx_expr := CxWithMD (CxWithTimeout CxBackground).

(* the first-layer view of a call that came back *)
Definition result_of (conv : N -> Z) (conf_timeout : N) (c : gcall) : grpc_result :=
  match c with
  | GcNoMethod => GrpcNoMethod
  | GcBadPayload => GrpcBadPayload
  | GcCall GbNever => GrpcStatus (conv deadline_exceeded)
  | GcCall (GbAnswer t s) => GrpcStatus (conv (if N.ltb t (effective_timeout conf_timeout) then s else deadline_exceeded))
  end.

(* an instance over its ammo: (samples reported, time spent, stuck in a shot that never returns) *)
Fixpoint instance_timed (conv : N -> Z) (cx : ctx_expr) (conf_timeout : N) (cs : list gcall) : list sample * N * bool :=
  match cs with
  | [] => ([], 0%N, false)
  | c :: r => match grpc_shoot_timed conv cx conf_timeout c with
              | TsNever => ([], 0%N, true)
              | TsReturned t s => let '(ss, el, stuck) := instance_timed conv cx conf_timeout r in (s :: ss, (t + el)%N, stuck)
              end
  end.

(* The grpc/scenario gun (shootStep has its own copy of the same code, Model/RobustGrpcScn.v) over time: the calls of one
   scenario in order; a call the target is silent on costs the timeout and does NOT end the scenario (a failed call is
   not a step error); unknown method / unfit payload end it. *)
Definition gstep_of (conv : N -> Z) (conf_timeout : N) (c : gcall) : gstep :=
  mk_gstep true (match c with GcNoMethod => false | _ => true end) (match c with GcBadPayload => false | _ => true end)
           (match result_of conv conf_timeout c with GrpcStatus code => code | _ => 0%Z end) None [].

Fixpoint scenario_timed (conv : N -> Z) (cx : ctx_expr) (conf_timeout : N) (cs : list gcall) : list sample * N * bool :=
  match cs with
  | [] => ([], 0%N, false)
  | c :: r => match grpc_shoot_timed conv cx conf_timeout c with
              | TsNever => ([], 0%N, true)
              | TsReturned t s =>
                  match c with
                  | GcCall _ => let '(ss, el, stuck) := scenario_timed conv cx conf_timeout r in (s :: ss, (t + el)%N, stuck)
                  | _ => ([s], t, false)
                  end
              end
  end.
