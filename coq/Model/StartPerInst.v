(* C12, round 7: instances firing their OWN RPS profile (rps-per-instance).

   engine.newInstance calls the pool's NewRPSSchedule factory once per instance; the factory made by the
   plugin registry decodes the configuration again on every call, so every call builds new schedule
   objects.  What matters to the property ("an instance keeps firing until ITS RPS profile is exhausted")
   is WHICH schedule object an instance draws its tokens from: [obj_of].  A schedule object is a budget of
   T tokens; an instance asks its object for a token, shoots when it gets one and leaves its loop when the
   object has none left.  Executable definitions only. *)
From Coq Require Import List Arith Bool.
Import ListNotations.

(* which object the factory call made for instance number [id] returns *)
Inductive factory :=
  | Fresh          (* the configuration is decoded on every call: new objects (the code) *)
  | DecodedOnce.   (* the configuration decoded at factory creation is reused: the nested schedule objects of a
                      list / composite profile are the same for every call (used by one Example only) *)

Definition obj_of (f : factory) (id : nat) : nat :=
  match f with Fresh => id | DecodedOnce => O end.

Record pistate := { rem : nat -> nat;       (* tokens left in each schedule object *)
                    pshots : list nat;      (* ids of the instances that shot, newest first *)
                    pleft : list nat }.     (* instances that found their profile exhausted and left *)

Definition piinit (T : nat) : pistate := {| rem := fun _ => T; pshots := []; pleft := [] |}.

Inductive piact := PINext (id : nat).   (* instance id asks its RPS schedule for the next token *)

Definition pistep (f : factory) (a : piact) (s : pistate) : option pistate :=
  match a with
  | PINext id =>
      if existsb (Nat.eqb id) (pleft s) then None
      else let o := obj_of f id in
           match rem s o with
           | O => Some {| rem := rem s; pshots := pshots s; pleft := id :: pleft s |}
           | S n => Some {| rem := fun x => if Nat.eqb x o then n else rem s x;
                            pshots := id :: pshots s; pleft := pleft s |}
           end
  end.

Fixpoint pirun (f : factory) (l : list piact) (s : pistate) : option pistate :=
  match l with
  | [] => Some s
  | a :: r => match pistep f a s with Some s' => pirun f r s' | None => None end
  end.

Definition shots_of (id : nat) (s : pistate) : nat := count_occ Nat.eq_dec (pshots s) id.

(* canonical complete run for the driver: instances 0..k-1, each asks until it leaves *)
Fixpoint pifire (f : factory) (n id : nat) (s : pistate) : pistate :=
  match n with
  | O => s
  | S m => match pistep f (PINext id) s with Some s' => pifire f m id s' | None => s end
  end.

Definition pidrive (f : factory) (T k : nat) : pistate :=
  fold_left (fun s id => pifire f (S T) id s) (seq 0 k) (piinit T).
