(* Model of the scenario templaters (property C15: "renders URI, headers and body from
   data-source variables and from values captured by earlier steps").  Executable definitions
   only (no proofs here).

   Anchors:
     components/providers/scenario/http/templater/templater_text.go  TextTemplater.Apply / getTemplate
     components/providers/scenario/http/templater/templater_html.go  HTMLTemplater.Apply / getTemplate
     text/template exec.go (evalFieldChain / evalField / printValue) for the fragment below

   Apply(parts, vs, scenarioName, stepName):
     tmpl := getTemplate(parts.URL, .., "url")        parse error -> error
     strBuilder := &strings.Builder{}                 a FRESH builder per call
     tmpl.Execute(strBuilder, vs)                     error -> error (what was written stays in the builder)
     parts.URL = strBuilder.String(); strBuilder.Reset()
     for k, v := range parts.Headers { getTemplate(v, .., k); Execute; parts.Headers[k] = ..; Reset }
     if parts.Body != nil { getTemplate(body, .., "body"); Execute; parts.Body = ..; Reset }
   getTemplate: templatesCache (sync.Map) keyed by (scenario, step, part); a template that parsed is
   stored and reused by every later call with the same key (the text handed in later is NOT looked at);
   a text that does not parse is not stored.

   The template fragment modelled (everything else of text/template is outside the model; the
   harness only generates this fragment): a template is a sequence of pieces
     literal text | {{.f1.f2...fn}} (field chain from the data; {{.}} for n = 0)
     | a call of a template function (randInt / randString / uuid) whose result is an oracle
       carried by the piece (Some text / None = the function returned an error).
   Execute walks the pieces in order and WRITES AS IT GOES: when a piece fails, the output of the
   earlier pieces is already in the writer.
   Data values: strings, nil, map[string]any, slices.  Field evaluation as in evalField:
     invalid receiver (a missing key earlier in the chain)  -> invalid again, no error
     nil interface receiver                                 -> error "nil pointer evaluating"
     map: the entry, or invalid when the key is missing (missingkey=default)
     string / slice receiver                                -> error "can't evaluate field"
   Printing as printValue + fmt: invalid or nil -> "<no value>" (text) or "" (html: the escaper
   receives nil and prints nothing); a string as is; map[k:v ...] with sorted keys; [a b ...];
   a nil inside a map or slice prints <nil>.
   html/template in the text context (the harness generates no '<' in literal text): the printed
   value goes through the HTML escaper (ampersand, angle brackets, both quotes, plus, NUL), literal text is copied. *)
From Coq Require Import List NArith ZArith Bool.
From PV Require Import Model.Iterator Model.Scenario.
Import ListNotations.

Inductive tval :=
| TStr (s : bytes)
| TNil
| TMap (m : list (bytes * tval))
| TList (l : list tval).

Fixpoint tassoc (m : list (bytes * tval)) (k : bytes) : option tval :=
  match m with
  | [] => None
  | (a, v) :: r => if beq a k then Some v else tassoc r k
  end.

Inductive piece :=
| PLit (s : bytes)
| PChain (fs : list bytes)
| PFunc (r : option bytes).

(* ---------- field chains ---------- *)
Inductive chain_res := ChVal (v : option tval) | ChErr.

Fixpoint eval_chain (fs : list bytes) (recv : option tval) : chain_res :=
  match fs with
  | [] => ChVal recv
  | f :: rest =>
      match recv with
      | None => eval_chain rest None
      | Some TNil => ChErr
      | Some (TMap m) => eval_chain rest (tassoc m f)
      | Some (TStr _) => ChErr
      | Some (TList _) => ChErr
      end
  end.

(* ---------- printing ---------- *)
Fixpoint bytes_leb (a b : bytes) : bool :=
  match a, b with
  | [], _ => true
  | _ :: _, [] => false
  | x :: a', y :: b' => if N.ltb x y then true else if N.ltb y x then false else bytes_leb a' b'
  end.

Fixpoint ins_sorted (p : bytes * bytes) (l : list (bytes * bytes)) : list (bytes * bytes) :=
  match l with
  | [] => [p]
  | q :: r => if bytes_leb (fst p) (fst q) then p :: l else q :: ins_sorted p r
  end.
Definition sort_pairs (l : list (bytes * bytes)) : list (bytes * bytes) := fold_right ins_sorted [] l.

Fixpoint join_sp (l : list bytes) : bytes :=
  match l with
  | [] => []
  | [x] => x
  | x :: r => x ++ 32%N :: join_sp r
  end.

Definition s_novalue : bytes := [60;110;111;32;118;97;108;117;101;62]%N.   (* <no value> *)
Definition s_nil : bytes := [60;110;105;108;62]%N.                          (* <nil> *)
Definition s_map_open : bytes := [109;97;112;91]%N.                         (* map[ *)

(* fmt.Fprint of a value (inside a container a nil prints <nil>) *)
Fixpoint fmt_val (v : tval) : bytes :=
  match v with
  | TStr s => s
  | TNil => s_nil
  | TMap m =>
      s_map_open
      ++ join_sp (map (fun p => fst p ++ 58%N :: snd p)
                      (sort_pairs (map (fun p => (fst p, fmt_val (snd p))) m)))
      ++ [93%N]
  | TList l => 91%N :: join_sp (map fmt_val l) ++ [93%N]
  end.

(* HTML escaper of html/template (htmlReplacementTable) *)
Definition html_esc_byte (c : N) : bytes :=
  if N.eqb c 0 then [239;191;189]%N            (* U+FFFD *)
  else if N.eqb c 34 then [38;35;51;52;59]%N    (* &#34; *)
  else if N.eqb c 38 then [38;97;109;112;59]%N  (* &amp; *)
  else if N.eqb c 39 then [38;35;51;57;59]%N    (* &#39; *)
  else if N.eqb c 43 then [38;35;52;51;59]%N    (* &#43; *)
  else if N.eqb c 60 then [38;108;116;59]%N     (* &lt; *)
  else if N.eqb c 62 then [38;103;116;59]%N     (* &gt; *)
  else [c].
Definition html_esc (s : bytes) : bytes := flat_map html_esc_byte s.

(* the text an action writes for its final value; html = the HTML templater *)
Definition print_final (html : bool) (v : option tval) : bytes :=
  match v with
  | None | Some TNil => if html then [] else s_novalue
  | Some x => if html then html_esc (fmt_val x) else fmt_val x
  end.

Definition print_func (html : bool) (s : bytes) : bytes := if html then html_esc s else s.

(* ---------- Execute: appends to the writer, stops at the first failing piece ---------- *)
Fixpoint exec_tmpl (html : bool) (t : list piece) (data : tval) (buf : bytes) : bytes * bool :=
  match t with
  | [] => (buf, true)
  | PLit s :: r => exec_tmpl html r data (buf ++ s)
  | PChain fs :: r =>
      match eval_chain fs (Some data) with
      | ChErr => (buf, false)
      | ChVal v => exec_tmpl html r data (buf ++ print_final html v)
      end
  | PFunc None :: r => (buf, false)
  | PFunc (Some s) :: r => exec_tmpl html r data (buf ++ print_func html s)
  end.

(* ---------- Apply ---------- *)
(* a template text: one that parses to the pieces, or one that template.Parse rejects *)
Inductive tsrc := TOk (ps : list piece) | TUnparsable.

Record parts := { pa_url : tsrc; pa_hdrs : list (bytes * tsrc); pa_body : option tsrc }.
Record rparts := { rp_url : bytes; rp_hdrs : list (bytes * bytes); rp_body : option bytes }.

(* which part failed; a failing header is not told apart further (Go ranges over the header map
   in random order, and both header failures carry the same message) *)
Inductive ap_err := AeParseUrl | AeExecUrl | AeHdr | AeParseBody | AeExecBody.
Inductive ap_res := ApOk (r : rparts) | ApErr (e : ap_err).

(* the cache key: (scenario, step, part) with part = url | header k | body *)
Inductive tpart := KUrl | KHdr (k : bytes) | KBody.
Definition tkey := (bytes * bytes * tpart)%type.

Definition tpart_eqb (a b : tpart) : bool :=
  match a, b with
  | KUrl, KUrl => true
  | KBody, KBody => true
  | KHdr x, KHdr y => beq x y
  | _, _ => false
  end.
Definition tkey_eqb (a b : tkey) : bool :=
  let '(s1, n1, p1) := a in
  let '(s2, n2, p2) := b in
  (beq s1 s2 && beq n1 n2 && tpart_eqb p1 p2)%bool.

Definition cache := list (tkey * list piece).
Fixpoint cache_get (c : cache) (k : tkey) : option (list piece) :=
  match c with
  | [] => None
  | (k', t) :: r => if tkey_eqb k' k then Some t else cache_get r k
  end.

(* getTemplate *)
Definition get_template (c : cache) (src : tsrc) (k : tkey) : cache * option (list piece) :=
  match cache_get c k with
  | Some t => (c, Some t)
  | None => match src with
            | TOk ps => ((k, ps) :: c, Some ps)
            | TUnparsable => (c, None)
            end
  end.

(* the header loop; [b] is the shared builder: empty on entry of every iteration *)
Fixpoint apply_hdrs (html : bool) (c : cache) (scen step : bytes) (hs : list (bytes * tsrc)) (data : tval)
         (b : bytes) (acc : list (bytes * bytes)) : cache * bytes * option (list (bytes * bytes)) :=
  match hs with
  | [] => (c, b, Some acc)
  | (k, src) :: rest =>
      match get_template c src (scen, step, KHdr k) with
      | (c1, None) => (c1, b, None)
      | (c1, Some t) =>
          match exec_tmpl html t data b with
          | (b1, false) => (c1, b1, None)
          | (b1, true) => apply_hdrs html c1 scen step rest data [] (acc ++ [(k, b1)])   (* String(); Reset() *)
          end
      end
  end.

(* Apply with the builder [b0] it starts from.  The code: b0 = [] (a fresh strings.Builder).
   Returns the cache, the content of the builder when the call returns, and the result. *)
Definition apply_from (html : bool) (c : cache) (b0 : bytes) (scen step : bytes) (p : parts) (data : tval)
  : cache * bytes * ap_res :=
  match get_template c (pa_url p) (scen, step, KUrl) with
  | (c1, None) => (c1, b0, ApErr AeParseUrl)
  | (c1, Some t) =>
      match exec_tmpl html t data b0 with
      | (b1, false) => (c1, b1, ApErr AeExecUrl)
      | (url, true) =>
          match apply_hdrs html c1 scen step (pa_hdrs p) data [] [] with
          | (c2, b2, None) => (c2, b2, ApErr AeHdr)
          | (c2, b2, Some hdrs) =>
              match pa_body p with
              | None => (c2, b2, ApOk {| rp_url := url; rp_hdrs := hdrs; rp_body := None |})
              | Some src =>
                  match get_template c2 src (scen, step, KBody) with
                  | (c3, None) => (c3, b2, ApErr AeParseBody)
                  | (c3, Some t) =>
                      match exec_tmpl html t data b2 with
                      | (b3, false) => (c3, b3, ApErr AeExecBody)
                      | (body, true) => (c3, [], ApOk {| rp_url := url; rp_hdrs := hdrs; rp_body := Some body |})
                      end
                  end
              end
          end
      end
  end.

Definition apply_go (html : bool) (c : cache) (scen step : bytes) (p : parts) (data : tval) : cache * ap_res :=
  let '(c1, _, r) := apply_from html c [] scen step p data in (c1, r).

(* a history of Apply calls on ONE templater (any interleaving of steps, shots, scenarios) *)
Record tcall := { tc_scen : bytes; tc_step : bytes; tc_parts : parts; tc_data : tval }.

Fixpoint run_applies (html : bool) (c : cache) (calls : list tcall) : list ap_res :=
  match calls with
  | [] => []
  | x :: rest =>
      let '(c1, r) := apply_go html c (tc_scen x) (tc_step x) (tc_parts x) (tc_data x) in
      r :: run_applies html c1 rest
  end.

(* ---------- specification: every part rendered on its own from THIS call's data ---------- *)
Definition render (html : bool) (t : list piece) (data : tval) : option bytes :=
  match exec_tmpl html t data [] with
  | (out, true) => Some out
  | (_, false) => None
  end.

Fixpoint spec_hdrs (html : bool) (hs : list (bytes * tsrc)) (data : tval) : option (list (bytes * bytes)) :=
  match hs with
  | [] => Some []
  | (k, TUnparsable) :: _ => None
  | (k, TOk t) :: rest =>
      match render html t data, spec_hdrs html rest data with
      | Some v, Some l => Some ((k, v) :: l)
      | _, _ => None
      end
  end.

Definition apply_spec (html : bool) (p : parts) (data : tval) : ap_res :=
  match pa_url p with
  | TUnparsable => ApErr AeParseUrl
  | TOk tu =>
      match render html tu data with
      | None => ApErr AeExecUrl
      | Some url =>
          match spec_hdrs html (pa_hdrs p) data with
          | None => ApErr AeHdr
          | Some hdrs =>
              match pa_body p with
              | None => ApOk {| rp_url := url; rp_hdrs := hdrs; rp_body := None |}
              | Some TUnparsable => ApErr AeParseBody
              | Some (TOk tb) =>
                  match render html tb data with
                  | None => ApErr AeExecBody
                  | Some body => ApOk {| rp_url := url; rp_hdrs := hdrs; rp_body := Some body |}
                  end
              end
          end
      end
  end.

Definition spec_applies (html : bool) (calls : list tcall) : list ap_res :=
  map (fun x => apply_spec html (tc_parts x) (tc_data x)) calls.

(* ---------- the contrast: a builder taken from a pool and given back as it is ----------
   (not the code: the builder of an Apply that failed goes back with the partial output of the
   failing template in it, and the next Apply starts from that) *)
Fixpoint run_applies_pooled (html : bool) (c : cache) (pool : bytes) (calls : list tcall) : list ap_res :=
  match calls with
  | [] => []
  | x :: rest =>
      let '(c1, b, r) := apply_from html c pool (tc_scen x) (tc_step x) (tc_parts x) (tc_data x) in
      r :: run_applies_pooled html c1 b rest
  end.

(* ---------- the variable tree of the scenario instance as the templater sees it ----------
   templateVars = {"source": ..., "request": {<step>: {"preprocessor": {..}, "postprocessor": {..}}}}
   (Model/Scenario.v keeps the request part as association lists of byte strings) *)
Definition s_source : bytes := [115;111;117;114;99;101]%N.
Definition s_request : bytes := [114;101;113;117;101;115;116]%N.
Definition s_preproc : bytes := [112;114;101;112;114;111;99;101;115;115;111;114]%N.
Definition s_postproc : bytes := [112;111;115;116;112;114;111;99;101;115;115;111;114]%N.
Definition s_tok : bytes := [116;111;107]%N.
Definition s_id : bytes := [105;100]%N.

Definition tval_of_vars (m : list (bytes * bytes)) : tval :=
  TMap (map (fun p => (fst p, TStr (snd p))) m).
Definition tval_of_stepvars (sv : stepvars bytes) : tval :=
  TMap ((match sv_pre sv with Some m => [(s_preproc, tval_of_vars m)] | None => [] end)
        ++ (match sv_post sv with Some m => [(s_postproc, tval_of_vars m)] | None => [] end)).
Definition tval_of_reqmap (m : reqmap bytes) : tval :=
  TMap (map (fun p => (fst p, tval_of_stepvars (snd p))) m).
Definition tval_of_tree (src : tval) (t : ctree) : tval :=
  TMap [(s_source, src); (s_request, tval_of_reqmap (t_req t))].

(* the X-Ref header templates of the scenario instance *)
Definition ref_tmpl (r : bytes) : list piece := [PChain [s_request; r; s_postproc; s_tok]].
Definition refbad_tmpl (r : bytes) : list piece :=
  [PLit [118;61]%N; PChain [s_request; r; s_postproc; s_tok; s_id]].
