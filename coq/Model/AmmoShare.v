(* Requests that several instances hold from ONE http provider (property C11: "the ammo ... seen by one
   instance are never altered by another", "no built-in provider ... touches shared state unsafely").

   components/providers/http: a decoded ammo keeps its header as a Go map  key -> []string.  With `preload`
   (and with the array form of jsonline) the decoded ammo are kept and delivered again on every pass, so the
   same decoded ammo reaches several instances.  Provider.Acquire runs on the INSTANCE goroutines:
       req := ammo.BuildRequest()        http.NewRequest (raw: the request parsed from the ammo's bytes) +
                                         util.EnrichRequestWithHeaders: req.Header[key] = values[:n:n] for every
                                         key the request does not have yet — the VALUE SLICES of the stored ammo
                                         are shared by every request built from it (capacity clipped to the length)
       for mw in Middlewares: mw.UpdateRequest(req)      header/date: req.Header.Add(name, now)
   and the instance keeps the request while it waits for its schedule token.

   The model is below the level of Go values: a heap of backing arrays, slices (pointer, len, cap), Go's append
   (write in place while len < cap, else a new array), maps as key list + lookup function.  Operations of any number of
   instances in any order.  Everything here is executable; K (header keys) and V (header values) are parameters. *)
From Coq Require Import List Bool Arith.
Import ListNotations.

Section AmmoShare.
Variables K V : Type.
Variable keqb : K -> K -> bool.

Record slice := { s_ptr : nat; s_len : nat; s_cap : nat }.
Definition heap := list (list V).                       (* backing arrays; a slice always starts at index 0 of its array *)
Record hmap := { hm_keys : list K; hm_get : K -> option slice }.

Definition arr (H : heap) (p : nat) : list V := nth p H [].
Definition read (H : heap) (s : slice) : list V := firstn (s_len s) (arr H (s_ptr s)).

Definition hm_empty : hmap := {| hm_keys := []; hm_get := fun _ => None |}.
Definition hm_set (k : K) (s : slice) (m : hmap) : hmap :=
  {| hm_keys := match hm_get m k with Some _ => hm_keys m | None => hm_keys m ++ [k] end;
     hm_get := fun k' => if keqb k k' then Some s else hm_get m k' |}.

(* a[i] = v for i <= len(a) (i = len(a): the first write into spare capacity) *)
Definition upd_arr (a : list V) (i : nat) (v : V) : list V := firstn i a ++ v :: skipn (S i) a.
Fixpoint upd_heap (H : heap) (p : nat) (a : list V) : heap :=
  match H, p with
  | [], _ => []
  | _ :: t, O => a :: t
  | x :: t, S p' => x :: upd_heap t p' a
  end.

Definition alloc (H : heap) (vs : list V) : nat * heap := (length H, H ++ [vs]).

(* values with their spare capacity, as a decoder leaves them: http.Header.Clone gives 0 spare,
   append([]string(nil), vv...) rounds up to a size class (17 values: capacity 18) *)
Definition hspec := list (K * list V * nat).

Fixpoint alloc_map (H : heap) (sp : hspec) (m : hmap) : heap * hmap :=
  match sp with
  | [] => (H, m)
  | (k, vs, slack) :: t =>
      let '(p, H1) := alloc H vs in
      alloc_map H1 t (hm_set k {| s_ptr := p; s_len := length vs; s_cap := length vs + slack |} m)
  end.

(* util.EnrichRequestWithHeaders: keys the request lacks get the ammo's slice itself *)
Definition clip_slice (clip : bool) (s : slice) : slice :=
  if clip then {| s_ptr := s_ptr s; s_len := s_len s; s_cap := s_len s |} else s.

Fixpoint enrich (clip : bool) (ks : list K) (stored req : hmap) : hmap :=
  match ks with
  | [] => req
  | k :: t =>
      match hm_get stored k, hm_get req k with
      | Some s, None => enrich clip t stored (hm_set k (clip_slice clip s) req)
      | _, _ => enrich clip t stored req
      end
  end.

(* middleware bodies *)
Inductive mw := MwAdd (k : K) | MwSet (k : K) | MwRefresh (k : K).

(* h[k] = append(h[k], v); gc n = spare capacity of a freshly grown array of n values *)
Definition go_add (gc : nat -> nat) (k : K) (v : V) (H : heap) (req : hmap) : heap * hmap :=
  match hm_get req k with
  | Some s =>
      if s_len s <? s_cap s then
        (upd_heap H (s_ptr s) (upd_arr (arr H (s_ptr s)) (s_len s) v),
         hm_set k {| s_ptr := s_ptr s; s_len := S (s_len s); s_cap := s_cap s |} req)
      else
        let '(p, H1) := alloc H (read H s ++ [v]) in
        (H1, hm_set k {| s_ptr := p; s_len := S (s_len s); s_cap := S (s_len s) + gc (S (s_len s)) |} req)
  | None =>
      let '(p, H1) := alloc H [v] in
      (H1, hm_set k {| s_ptr := p; s_len := 1; s_cap := 1 + gc 1 |} req)
  end.

Definition mw_step (gc : nat -> nat) (m : mw) (v : V) (H : heap) (req : hmap) : heap * hmap :=
  match m with
  | MwAdd k => go_add gc k v H req
  | MwSet k => let '(p, H1) := alloc H [v] in (H1, hm_set k {| s_ptr := p; s_len := 1; s_cap := 1 |} req)
  | MwRefresh k =>                                (* if vs := h.Values(k); len(vs) > 0 { vs[0] = v } else { h.Add(k, v) } *)
      match hm_get req k with
      | Some s => if 0 <? s_len s then (upd_heap H (s_ptr s) (upd_arr (arr H (s_ptr s)) 0 v), req) else go_add gc k v H req
      | None => go_add gc k v H req
      end
  end.

Fixpoint mw_run (gc : nat -> nat) (ms : list mw) (v : V) (H : heap) (req : hmap) : heap * hmap :=
  match ms with
  | [] => (H, req)
  | m :: t => let '(H1, r1) := mw_step gc m v H req in mw_run gc t v H1 r1
  end.

(* configuration of one provider: per ammo its own (re-parsed for every request: raw) and stored headers *)
Record pcfg := { p_clip : bool; p_gc : nat -> nat; p_mws : list mw; p_own : nat -> hspec; p_stored : nat -> hspec }.

Record pstate := { st_heap : heap; st_stored : nat -> option hmap; st_held : nat -> option hmap }.
Definition pinit : pstate := {| st_heap := []; st_stored := fun _ => None; st_held := fun _ => None |}.

Definition fupd {A} (f : nat -> option A) (i : nat) (x : option A) : nat -> option A :=
  fun j => if Nat.eqb i j then x else f j.

Inductive pop :=
| ODecode (a : nat)            (* the provider goroutine decodes ammo a (again) *)
| OAcq (i a : nat) (v : V)     (* instance i acquires ammo a; v = what the middlewares write (their clock reading) *)
| OShoot (i : nat).            (* instance i looks at its request and lets it go *)

Definition render (H : heap) (m : hmap) : list (K * list V) :=
  map (fun k => (k, match hm_get m k with Some s => read H s | None => [] end)) (hm_keys m).

Definition acquire (c : pcfg) (a : nat) (v : V) (H : heap) (stored : hmap) : heap * hmap :=
  let '(H1, own) := alloc_map H (p_own c a) hm_empty in
  mw_run (p_gc c) (p_mws c) v H1 (enrich (p_clip c) (hm_keys stored) stored own).

Definition pstep (c : pcfg) (st : pstate) (o : pop) : pstate * option (list (K * list V)) :=
  match o with
  | ODecode a =>
      let '(H1, m) := alloc_map (st_heap st) (p_stored c a) hm_empty in
      ({| st_heap := H1; st_stored := fupd (st_stored st) a (Some m); st_held := st_held st |}, None)
  | OAcq i a v =>
      match st_stored st a with
      | Some stored =>
          let '(H1, req) := acquire c a v (st_heap st) stored in
          ({| st_heap := H1; st_stored := st_stored st; st_held := fupd (st_held st) i (Some req) |}, Some (render H1 req))
      | None => (st, None)
      end
  | OShoot i =>
      match st_held st i with
      | Some req => ({| st_heap := st_heap st; st_stored := st_stored st; st_held := fupd (st_held st) i None |},
                     Some (render (st_heap st) req))
      | None => (st, None)
      end
  end.

Fixpoint prun (c : pcfg) (st : pstate) (ops : list pop) : list (option (list (K * list V))) :=
  match ops with
  | [] => []
  | o :: t => let '(st1, out) := pstep c st o in out :: prun c st1 t
  end.

(* ---------- the specification: plain values, no heap ---------- *)

Record vmap := { vm_keys : list K; vm_get : K -> option (list V) }.
Definition vm_empty : vmap := {| vm_keys := []; vm_get := fun _ => None |}.
Definition vm_set (k : K) (vs : list V) (m : vmap) : vmap :=
  {| vm_keys := match vm_get m k with Some _ => vm_keys m | None => vm_keys m ++ [k] end;
     vm_get := fun k' => if keqb k k' then Some vs else vm_get m k' |}.

Fixpoint vmap_of (sp : hspec) (m : vmap) : vmap :=
  match sp with
  | [] => m
  | (k, vs, _) :: t => vmap_of t (vm_set k vs m)
  end.

Fixpoint venrich (ks : list K) (stored req : vmap) : vmap :=
  match ks with
  | [] => req
  | k :: t =>
      match vm_get stored k, vm_get req k with
      | Some vs, None => venrich t stored (vm_set k vs req)
      | _, _ => venrich t stored req
      end
  end.

(* what the middleware means: Add appends one value, Set replaces all values *)
Definition vmw_step (m : mw) (v : V) (req : vmap) : vmap :=
  match m with
  | MwAdd k | MwRefresh k => vm_set k (match vm_get req k with Some vs => vs ++ [v] | None => [v] end) req
  | MwSet k => vm_set k [v] req
  end.

Definition vrender (m : vmap) : list (K * list V) :=
  map (fun k => (k, match vm_get m k with Some vs => vs | None => [] end)) (vm_keys m).

(* the request of ammo a acquired when the middlewares write v: a function of the ammo file, the config and v alone *)
Definition spec_request (c : pcfg) (a : nat) (v : V) : vmap :=
  let stored := vmap_of (p_stored c a) vm_empty in
  fold_left (fun r m => vmw_step m v r) (p_mws c) (venrich (vm_keys stored) stored (vmap_of (p_own c a) vm_empty)).

(* per instance: what it acquired is what it shoots *)
Fixpoint spec_run (c : pcfg) (decoded : nat -> bool) (held : nat -> option (list (K * list V))) (ops : list pop)
  : list (option (list (K * list V))) :=
  match ops with
  | [] => []
  | ODecode a :: t => None :: spec_run c (fun j => Nat.eqb a j || decoded j) held t
  | OAcq i a v :: t =>
      if decoded a then
        let r := vrender (spec_request c a v) in Some r :: spec_run c decoded (fupd held i (Some r)) t
      else None :: spec_run c decoded held t
  | OShoot i :: t =>
      match held i with
      | Some r => Some r :: spec_run c decoded (fupd held i None) t
      | None => None :: spec_run c decoded held t
      end
  end.

(* the provider's delivery order seen by a sequential driver: the j-th Acquire gets ammo j mod n; without
   preload (and outside the jsonline array form) every delivery is decoded afresh *)
Inductive plan_op := PAcq (i : nat) (v : V) | PShoot (i : nat).

Fixpoint ops_of_plan (fresh : bool) (n : nat) (j : nat) (pl : list plan_op) : list pop :=
  match pl with
  | [] => []
  | PAcq i v :: t => (if fresh then [ODecode (Nat.modulo j n)] else []) ++ OAcq i (Nat.modulo j n) v :: ops_of_plan fresh n (S j) t
  | PShoot i :: t => OShoot i :: ops_of_plan fresh n j t
  end.

Definition decode_all (n : nat) : list pop := map ODecode (seq 0 n).

End AmmoShare.

Arguments hm_empty {K}.
Arguments vm_empty {K V}.
Arguments MwAdd {K}.
Arguments MwSet {K}.
Arguments MwRefresh {K}.
Arguments ODecode {V}.
Arguments OAcq {V}.
Arguments OShoot {V}.
Arguments PAcq {V}.
Arguments PShoot {V}.
Arguments pinit {K V}.
