(* Model of the read loop of the grpc/json ammo provider (property C05, "if the ammo provider
   ... fails, the run returns an error that carries that cause" -- the provider as a component
   whose own report the engine relies on):
   components/providers/grpc/grpcjson/provider.go  (Provider).start.

     for {                                            -- one iteration = one pass over the file
       passNum++
       scanner := bufio.NewScanner(ammoFile)
       for line := 1; scanner.Scan() && (p.Limit == 0 || ammoNum < p.Limit); line++ {
         a, err := decodeAmmo(...)
         if err != nil { if ContinueOnError { a.Invalidate() } else { return decode error } }
         ammoNum++
         select { case p.Sink <- a: ; case <-ctx.Done(): return nil }
       }
       if scanner.Err() != nil { return scan error }
       if ammoNum == 0 { return "no ammo in file" }
       if p.Limit != 0 && ammoNum >= p.Limit { break }
       if p.Passes != 0 && passNum >= p.Passes { break }
       ammoFile.Seek(0, 0)
     }
     return nil

   The file is abstracted to what the scanner makes of it: the complete lines it yields (each
   decodes or does not) and how it stops -- at the end of the file, or with an error (a read
   failure of the underlying file, a token longer than the buffer).  Every pass sees the same
   file.  ChosenCases is empty (every ammo is chosen).  Executable definitions only. *)
From Coq Require Import List Arith Bool.
Import ListNotations.

Inductive jline := JGood | JBad.          (* a complete line: decodeAmmo succeeds / fails *)
Inductive jtail := TEof | TErr.           (* scanner.Scan() finally returns false: Err() == nil / != nil *)

Record jfile := { jlines : list jline; jend : jtail }.

Record jconf := {
  j_limit : nat;       (* Config.Limit, 0 = unlimited *)
  j_passes : nat;      (* Config.Passes, 0 = unlimited *)
  j_coe : bool         (* Config.ContinueOnError *)
}.

Inductive jres :=
| JNil                 (* return nil after the loop: limit or passes reached *)
| JCancelled           (* return nil from the select: ctx.Done() *)
| JFailDecode          (* "failed to decode ammo at line ..." *)
| JFailScan            (* "gPRC Provider scan() err" *)
| JFailNoAmmo          (* "no ammo in file" *)
| JOutOfFuel.          (* the model's pass budget is exhausted (excluded by a proved bound) *)

Definition jres_is_failure (r : jres) : bool :=
  match r with JFailDecode | JFailScan | JFailNoAmmo => true | _ => false end.

(* [budget]: how many sends into the sink succeed before ctx is done; None = ctx is never done *)
Definition budget_take (b : option nat) : option (option nat) :=
  match b with
  | None => Some None
  | Some 0 => None
  | Some (S k) => Some (Some k)
  end.

(* how one pass ends *)
Inductive pass_end :=
| PassTokensOut (ammoNum : nat) (b : option nat)   (* scanner.Scan() returned false *)
| PassLimit (ammoNum : nat) (b : option nat)       (* Scan() returned true but ammoNum >= Limit *)
| PassReturn (r : jres) (ammoNum : nat).           (* return from inside the loop *)

Fixpoint scan_pass (cf : jconf) (ls : list jline) (ammoNum : nat) (b : option nat) : pass_end :=
  match ls with
  | [] => PassTokensOut ammoNum b
  | l :: r =>
      if negb (j_limit cf =? 0) && (j_limit cf <=? ammoNum) then PassLimit ammoNum b
      else
        match l, j_coe cf with
        | JBad, false => PassReturn JFailDecode ammoNum
        | _, _ =>
            match budget_take b with
            | None => PassReturn JCancelled (S ammoNum)
            | Some b' => scan_pass cf r (S ammoNum) b'
            end
        end
  end.

(* the code after the inner loop: Some result, or None = seek and go round again *)
Definition after_pass (cf : jconf) (f : jfile) (tokens_out : bool) (ammoNum passNum : nat) : option jres :=
  if tokens_out && match jend f with TErr => true | TEof => false end then Some JFailScan
  else if ammoNum =? 0 then Some JFailNoAmmo
  else if negb (j_limit cf =? 0) && (j_limit cf <=? ammoNum) then Some JNil
  else if negb (j_passes cf =? 0) && (j_passes cf <=? passNum) then Some JNil
  else None.

(* [fuel] bounds the number of passes; [passNum] = passes completed so far.
   Result: what start returns and the number of ammo it put into the sink. *)
Fixpoint gj_loop (fuel : nat) (cf : jconf) (f : jfile) (ammoNum passNum : nat) (b : option nat) : jres * nat :=
  match fuel with
  | 0 => (JOutOfFuel, ammoNum)
  | S fuel' =>
      match scan_pass cf (jlines f) ammoNum b with
      | PassReturn r n => (r, n)
      | PassTokensOut n b' =>
          match after_pass cf f true n (S passNum) with
          | Some r => (r, n)
          | None => gj_loop fuel' cf f n (S passNum) b'
          end
      | PassLimit n b' =>
          match after_pass cf f false n (S passNum) with
          | Some r => (r, n)
          | None => gj_loop fuel' cf f n (S passNum) b'
          end
      end
  end.

Definition gj_start (fuel : nat) (cf : jconf) (f : jfile) (b : option nat) : jres * nat :=
  gj_loop fuel cf f 0 0 b.

(* enough passes for every configuration that ends by itself *)
Definition gj_fuel (cf : jconf) : nat :=
  if negb (j_passes cf =? 0) then j_passes cf
  else if negb (j_limit cf =? 0) then S (j_limit cf)
  else 1.

(* ---------------------------------------------------------------------------------------- *)
(* The specification side (not code shaped): does this configuration, run to its end without
   being cancelled, have to report a failure?  Only the lines the configuration asks for count:
   with Limit = L only the first L lines are turned into ammo. *)
Definition is_bad (l : jline) : bool := match l with JBad => true | JGood => false end.

Definition gj_wanted (cf : jconf) (f : jfile) : list jline :=
  if j_limit cf =? 0 then jlines f else firstn (j_limit cf) (jlines f).

Definition gj_spec_fails (cf : jconf) (f : jfile) : bool :=
  (* an undecodable line among the wanted ones (unless errors are to be skipped) *)
  (negb (j_coe cf) && existsb is_bad (gj_wanted cf f))
  (* the scanner runs into its error: the file does not hold more complete lines than wanted *)
  || (match jend f with TErr => true | TEof => false end
      && ((j_limit cf =? 0) || (length (jlines f) <=? j_limit cf)))
  (* nothing to deliver at all *)
  || match jlines f with [] => true | _ => false end.

(* the ammo a successful, uncancelled run delivers *)
Definition gj_spec_delivered (cf : jconf) (f : jfile) : nat :=
  let per_pass := length (jlines f) in
  if j_limit cf =? 0 then j_passes cf * per_pass
  else if j_passes cf =? 0 then j_limit cf
  else Nat.min (j_limit cf) (j_passes cf * per_pass).

(* the file of the correspondence run: [k] good lines, then the broken element, then [m] good lines *)
Inductive poison := PoNone | PoJson | PoRead.   (* none / an undecodable line / the scanner stops with an error *)

Definition gj_file (k m : nat) (po : poison) : jfile :=
  match po with
  | PoNone => {| jlines := repeat JGood (k + m); jend := TEof |}
  | PoJson => {| jlines := repeat JGood k ++ JBad :: repeat JGood m; jend := TEof |}
  | PoRead => {| jlines := repeat JGood k; jend := TErr |}
  end.
