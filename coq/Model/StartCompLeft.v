(* Round 8.  "How many tokens are left" of a composite profile (core/schedule/composite.go NewComposite /
   compositeSchedule.Left) - the answer the engine uses to decide that the shared RPS profile has finished
   (instance.Run's IsFinished test and coreutil's finish callback, which cancels instance start).
   Executable definitions only; proofs are in Proofs/StartCompLeftProofs.v.

     NewComposite(scheds):   left := make([]int, n); unknown := false; acc := 0
                             for i := n-1; i >= 0; i-- {
                                 left[i] = acc
                                 l := scheds[i].Left()
                                 if l < 0 { l = -1; unknown = true; acc = -1 }
                                 if !unknown { acc += l }
                             }
     Left():                 one part left           -> its Left()
                             head.Left() == 0        -> leftAfter[0] if known (>= 0);
                                                        -1 if the composite has not started;
                                                        else start the next part and ask again
                             head.Left() < 0 or leftAfter[0] < 0 -> -1
                             else head.Left() + leftAfter[0]

   A part is a schedule with a known number of tokens left (once, const, instance_step, a nested finite
   composite) or an unlimited one (Left() = -1 until its duration is over, then 0). *)
From Coq Require Import List ZArith Bool Arith.
Import ListNotations.
Local Open Scope Z_scope.

Inductive cpart := CKnown (n : nat) | CUnl (finished : bool).

(* Left() of a part that has not been started (what NewComposite reads) / of a part now *)
Definition tbl_left (p : cpart) : Z := match p with CKnown n => Z.of_nat n | CUnl _ => -1 end.
Definition cur_left (p : cpart) : Z :=
  match p with CKnown n => Z.of_nat n | CUnl false => -1 | CUnl true => 0 end.

(* when the backward pass adds a part's tokens to the accumulator: Sticky = the code (never again once an
   unknown part was met); CurrentKnown = whenever the part itself is known (one Example only) *)
Inductive accrule := Sticky | CurrentKnown.

Definition acc_step (r : accrule) (p : cpart) (st : bool * Z) : bool * Z :=
  let sl := tbl_left p in
  if sl <? 0 then (true, -1)
  else match r with
       | Sticky => if fst st then st else (fst st, snd st + sl)
       | CurrentKnown => (fst st, snd st + sl)
       end.

(* leftAfter of a part = the accumulator after the parts behind it were visited, last one first *)
Definition left_after (r : accrule) (behind : list cpart) : Z := snd (fold_right (acc_step r) (false, 0) behind).

(* compositeSchedule.Left(); the table entry of the head is left_after of the parts behind it (they have not
   been touched since NewComposite read them) *)
Fixpoint comp_left (r : accrule) (started : bool) (ps : list cpart) : Z :=
  match ps with
  | [] => 0
  | p :: behind =>
      match behind with
      | [] => cur_left p
      | _ :: _ =>
          let l := cur_left p in
          let la := left_after r behind in
          if l =? 0 then
            if 0 <=? la then la
            else if negb started then -1
            else comp_left r started behind
          else if (l <? 0) || (la <? 0) then -1
          else l + la
      end
  end.

(* the specification: unknown as long as any remaining part is unlimited, else the sum *)
Definition left_spec (ps : list cpart) : Z :=
  if existsb (fun p => cur_left p <? 0) ps then -1
  else fold_right (fun p a => cur_left p + a) 0 ps.

(* Next(): the head gives a token, or is exhausted and the next part is started *)
Fixpoint cnext (ps : list cpart) : option (list cpart) :=
  match ps with
  | [] => None
  | CKnown (S n) :: r => Some (CKnown n :: r)
  | CUnl false :: r => Some (CUnl false :: r)
  | _ :: r => match r with [] => None | _ :: _ => cnext r end
  end.

(* Left() before the first Next and after each of [draws] calls of Next *)
Fixpoint cleft_run (f : bool -> list cpart -> Z) (draws : nat) (ps : list cpart) : list Z :=
  match draws with
  | O => []
  | S d => match cnext ps with
           | Some ps' => f true ps' :: cleft_run f d ps'
           | None => []
           end
  end.
Definition cleft_trace (r : accrule) (draws : nat) (ps : list cpart) : list Z :=
  comp_left r false ps :: cleft_run (comp_left r) draws ps.
Definition cleft_spec_trace (draws : nat) (ps : list cpart) : list Z :=
  left_spec ps :: cleft_run (fun _ => left_spec) draws ps.

(* only the head can be a finished unlimited part *)
Definition untouched (p : cpart) : bool := match p with CUnl true => false | _ => true end.
