(* Model of the sample reporting of the guns (property C10, second half):
   BaseGun.Shoot (components/guns/http/base.go) as its control flow, the HTTP scenario gun
   (components/guns/http_scenario/gun.go), the gRPC gun and the gRPC scenario gun
   (components/guns/grpc/core.go, components/guns/grpc/scenario/core.go).
   Executable definitions only. *)
From Coq Require Import List NArith Bool.
From PV Require Import Lib.Table Model.Sample Model.GrpcStatus.
Import ListNotations.
Local Open Scope N_scope.

Record sample := mkSample { sm_tags : bytes; sm_proto : N; sm_net : N; sm_id : N }.

Definition set_tags (s : sample) (t : bytes) := mkSample t (sm_proto s) (sm_net s) (sm_id s).
Definition set_proto (s : sample) (p : N) := mkSample (sm_tags s) p (sm_net s) (sm_id s).
Definition set_net (s : sample) (n : N) := mkSample (sm_tags s) (sm_proto s) n (sm_id s).

(* ---------- BaseGun.Shoot ---------- *)

(* The optional Connect hook of BaseGun.  None of pandora's gun constructors sets it
   (NewHTTP1Gun, NewHTTP2Gun, NewConnectGun, the scenario guns: the CONNECT exchange of the
   connect gun happens inside the dial function, i.e. inside Client.Do). *)
Inductive hook := HNone | HOk | HFail.

(* What the network did: [timeout] = the error value implements net.Error with Timeout(). *)
Inductive bodyres := BodyOk | BodyErr (timeout : bool) (e : nerr).
Inductive exchange :=
| XErr (timeout : bool) (e : nerr)          (* Client.Do returned an error *)
| XResp (status : N) (b : bodyres).         (* a response arrived; then the body was read *)

Definition base_shoot (cfg : autotag_cfg) (h : hook) (invalid : bool) (id : N)
           (ammo_tag path : bytes) (x : exchange) : list sample :=
  match h with
  | HFail => []                               (* "Connect fail": return before ammo.Request() *)
  | _ =>
      let s0 := mkSample ammo_tag 0 0 id in   (* ammo.Request(): Acquire(tag); SetID(id) *)
      if invalid then
        [set_proto (set_tags s0 (add_tag (sm_tags s0) empty_tag)) 0]   (* Report; return *)
      else
        let s1 := set_tags s0 (shoot_tags cfg (sm_tags s0) path) in   (* autotag, __EMPTY__ *)
        (* body of Shoot up to its return; [err] is the variable the deferred func reads *)
        let '(s2, err) :=
          match x with
          | XErr t e => (s1, Some (t, e))                              (* "Request fail": return *)
          | XResp st b =>
              let s := set_proto s1 st in                              (* SetProtoCode(res.StatusCode) *)
              match b with
              | BodyOk => (s, None)
              | BodyErr t e => (s, Some (t, e))                        (* "Body read fail": return *)
              end
          end in
        (* deferred: if err != nil { sample.SetErr(err) }; Aggregator.Report(sample) *)
        [match err with Some (t, e) => set_net s2 (get_errno t e) | None => s2 end]
  end.

(* ---------- HTTP scenario gun ---------- *)

(* a step either completes (response with this status read, postprocessors passed) or fails
   somewhere in shootStep (preprocessor, template, request build, Do, body read, postprocessor) *)
Inductive hstep := HStepOk (status : N) | HStepFail.

Definition dot : N := 46.
Definition step_tag (name step : bytes) : bytes := name ++ dot :: step.

(* every error shootStep returns is wrapped by fmt.Errorf("... %w"): for getErrno this is
   "anything else" and never a net.Error *)
Definition hscen_fail_net : N := get_errno false EOther.

Fixpoint hscen_shoot (name : bytes) (steps : list (bytes * hstep)) : list sample :=
  match steps with
  | [] => []
  | (nm, HStepOk st) :: r =>
      mkSample (step_tag name nm) st 0 0 :: hscen_shoot name r        (* SetProtoCode; Report *)
  | (nm, HStepFail) :: _ =>
      (* reportErr: AddTag(EmptyTag); SetProtoCode(0); SetErr(err); Report; return err *)
      [mkSample (add_tag (step_tag name nm) empty_tag) 0 hscen_fail_net 0]
  end.

(* ---------- gRPC gun ---------- *)

Inductive gcall :=
| GUnknown                 (* ammo.Call not among the reflected methods *)
| GBadPayload              (* payload does not fit the input message *)
| GCalled (status : N).    (* invoked; the call ended with this gRPC status code *)

Definition gcall_code (c : gcall) : N :=
  match c with GUnknown => 0 | GBadPayload => 400 | GCalled st => grpc_code st end.

(* shoot: sample acquired first, reported by the deferred func on every path *)
Definition grpc_shoot (tag : bytes) (c : gcall) : list sample := [mkSample tag (gcall_code c) 0 0].

(* ---------- gRPC scenario gun ---------- *)

Inductive gstep :=
| GSPre                    (* a preprocessor failed *)
| GSTmpl                   (* templating failed *)
| GSBadCall                (* unknown method *)
| GSBadPayload
| GSCalled (status : N) (post_fail : bool).   (* invoked; then a postprocessor failed or not *)

Definition gstep_code (s : gstep) : N :=
  match s with
  | GSPre | GSTmpl | GSBadCall => 0
  | GSBadPayload => 400
  | GSCalled st _ => grpc_code st
  end.
(* shootStep returns an error: the scenario stops after this step *)
Definition gstep_stops (s : gstep) : bool :=
  match s with GSCalled _ pf => pf | _ => true end.

Fixpoint gscen_shoot (name : bytes) (steps : list (bytes * gstep)) : list sample :=
  match steps with
  | [] => []
  | (tg, s) :: r =>
      let smp := mkSample (step_tag name tg) (gstep_code s) 0 0 in     (* deferred Report *)
      if gstep_stops s then [smp] else smp :: gscen_shoot name r
  end.

(* ====================================================================================
   Specification side (what the property says), used for the verdict on observations.
   ==================================================================================== *)

(* steps executed by a scenario shot: all steps up to and including the first one that stops *)
Fixpoint executed {A : Type} (stops : A -> bool) (steps : list A) : list A :=
  match steps with
  | [] => []
  | s :: r => if stops s then [s] else s :: executed stops r
  end.

Definition hstep_stops (s : hstep) : bool := match s with HStepFail => true | HStepOk _ => false end.
Definition hstep_sample (name : bytes) (x : bytes * hstep) : sample :=
  match snd x with
  | HStepOk st => mkSample (step_tag name (fst x)) st 0 0
  | HStepFail => mkSample (step_tag name (fst x) ++ 124 :: empty_tag) 0 proto_code_error 0
  end.
Definition hscen_spec (name : bytes) (steps : list (bytes * hstep)) : list sample :=
  map (hstep_sample name) (executed (fun x => hstep_stops (snd x)) steps).

Definition gstep_sample (name : bytes) (x : bytes * gstep) : sample :=
  mkSample (step_tag name (fst x)) (gstep_code (snd x)) 0 0.
Definition gscen_spec (name : bytes) (steps : list (bytes * gstep)) : list sample :=
  map (gstep_sample name) (executed (fun x => gstep_stops (snd x)) steps).

(* one HTTP shot through a gun pandora constructs (no hook) or with a well-behaved hook *)
Definition base_spec (cfg : autotag_cfg) (invalid : bool) (id : N) (ammo_tag path : bytes) (x : exchange) : sample :=
  if invalid then mkSample (match ammo_tag with [] => empty_tag | _ => ammo_tag ++ 124 :: empty_tag end) 0 0 id
  else
    mkSample (shoot_tags cfg ammo_tag path)
             (match x with XResp st _ => st | XErr _ _ => 0 end)
             (match x with
              | XResp _ BodyOk => 0
              | XResp _ (BodyErr t e) | XErr t e => get_errno t e
              end)
             id.
