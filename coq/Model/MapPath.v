(* Model of lib/mp/map.go GetMapValue / extractFromSlice / calcIndex for ARBITRARY path strings
   over arbitrary variable trees (property C15: which [next] counter a path expression uses).
   Executable definitions only (no proofs here).

   GetMapValue(current, path, iter):
     segments := Split(TrimPrefix(path, "."), ".")
     for every segment (TrimSpace'd):  curSegment += "." + segment          <- the counter key
       "name[idx]" (contains "[" and ends with "]"; name = text before the FIRST "[",
                    idx = ToLower(TrimSpace(text between that "[" and the final "]"))):
            value := current[name] (missing -> error); must be one of the slice types (else error);
            index := calcIndex(idx, curSegment, len, iter); element := value[index]
       "name":  value := current[name] (missing -> error)
       a value that is not a map[string]any ends the walk: returned if this was the last
       segment, otherwise an error.
   calcIndex: empty list -> error; integer literal -> index normalised into [0,len);
     last -> len-1; rand -> iter.Rand(len); next -> iter.Next(curSegment) reduced modulo len.

   The key handed to Iterator.Next is the text of the path walked so far (all trimmed segments,
   each preceded by a dot), NOT the bare segment: two lists that only share their last name
   (source.eu.users[next], source.us.users[next]) have different counters.

   Modelling restrictions: strings.TrimSpace / ToLower for ASCII only; Go values are
   strings (VStr), map[string]any (VMap), the slice types accepted by extractFromSlice (VList;
   elements of a []map[string]string are maps) and everything else (VOpaque: never a map, never
   indexable).  iter.Rand is an oracle: the draws are taken from a list ([GvNoDraw] when it is
   exhausted); a draw outside [0,len) makes the slice access panic. *)
From Coq Require Import List NArith ZArith Bool.
From PV Require Import Model.Iterator Model.Scenario.
Import ListNotations.

Inductive val :=
| VStr (s : bytes)
| VOpaque
| VMap (m : list (bytes * val))
| VList (l : list val).

Fixpoint vassoc (m : list (bytes * val)) (k : bytes) : option val :=
  match m with
  | [] => None
  | (a, v) :: r => if beq a k then Some v else vassoc r k
  end.

Definition c_dot : N := 46.
Definition c_lb : N := 91.
Definition c_rb : N := 93.

(* ---------- path syntax ---------- *)
Definition ascii_lower (c : N) : N := if (N.leb 65 c && N.leb c 90)%bool then (c + 32)%N else c.

Definition ends_with (c : N) (s : bytes) : bool :=
  match rev s with
  | x :: _ => N.eqb x c
  | [] => false
  end.

(* a trimmed segment: its text (what is appended to the counter key), the map key, and the
   index text when the segment has the form name[idx] *)
Record pseg := { ps_text : bytes; ps_name : bytes; ps_idx : option bytes }.

Definition parse_seg (raw : bytes) : pseg :=
  let t := trim raw in
  match break_at c_lb t with
  | Some (name, rest) =>
      if ends_with c_rb t
      then {| ps_text := t; ps_name := name; ps_idx := Some (map ascii_lower (trim (removelast rest))) |}
      else {| ps_text := t; ps_name := t; ps_idx := None |}
  | None => {| ps_text := t; ps_name := t; ps_idx := None |}
  end.

Definition trim_prefix_dot (p : bytes) : bytes :=
  match p with
  | c :: r => if N.eqb c c_dot then r else p
  | [] => []
  end.

Definition parse_path (p : bytes) : list pseg := map parse_seg (split c_dot (trim_prefix_dot p)).

Definition s_next : bytes := [110;101;120;116]%N.
Definition s_rand : bytes := [114;97;110;100]%N.
Definition s_last : bytes := [108;97;115;116]%N.

Inductive idx := INext | IRand | ILast | IInt (z : Z) | IBad.

Definition classify (s : bytes) : idx :=
  if beq s s_next then INext
  else if beq s s_rand then IRand
  else if beq s s_last then ILast
  else match atoi s with
       | Some z => IInt z
       | None => IBad
       end.

(* ---------- evaluation ---------- *)
Record gstate := { g_iter : iter_state; g_draws : list nat }.

Inductive gres := GvOk (v : val) | GvErr | GvPanic | GvNoDraw.

Inductive cires := CiErr | CiPanic | CiNoDraw | CiIdx (i : nat).

(* the integer branch of calcIndex, as written: in range -> itself; otherwise the truncated
   remainder, plus len when negative *)
Definition norm_index (z : Z) (len : nat) : nat :=
  let l := Z.of_nat len in
  if ((0 <=? z) && (z <? l))%Z%bool then Z.to_nat z
  else let m := Z.rem z l in Z.to_nat (if (m <? 0)%Z then (m + l)%Z else m).

(* calcIndex + the bounds check of the slice access that follows it.  The last component is
   the ghost list of counter keys Next was called on (at most one). *)
Definition calc_index (ix : bytes) (key : seg) (len : nat) (st : gstate) : cires * gstate * list seg :=
  match len with
  | O => (CiErr, st, [])
  | _ =>
      match classify ix with
      | IBad => (CiErr, st, [])
      | IInt z => (CiIdx (norm_index z len), st, [])
      | ILast => (CiIdx (len - 1), st, [])
      | IRand =>
          match g_draws st with
          | [] => (CiNoDraw, st, [])
          | d :: r =>
              let st' := {| g_iter := g_iter st; g_draws := r |} in
              if Nat.ltb d len then (CiIdx d, st', []) else (CiPanic, st', [])
          end
      | INext =>
          let '(v, it') := it_next (g_iter st) key in
          let st' := {| g_iter := it'; g_draws := g_draws st |} in
          match next_row len v with
          | NxPanic => (CiPanic, st', [key])
          | NxRow i => (CiIdx i, st', [key])
          end
      end
  end.

(* how the counter key grows with every segment.  [kext_go] is the code; [kext_bare] (the bare
   segment, forgetting the parents) is for contrast only. *)
Definition kext_go (key : seg) (text : bytes) : seg := key ++ c_dot :: text.
Definition kext_bare (key : seg) (text : bytes) : seg := text.

(* what one segment does: either the walk ends with a result, or it descends into a map *)
Inductive sres := SDone (r : gres) | SInto (m : list (bytes * val)).

(* a value that is not a map[string]any ends the walk: returned if this was the last segment,
   otherwise the error "not last segment" *)
Definition settle (e : val) (last : bool) : sres :=
  match e with
  | VMap m => SInto m
  | _ => if last then SDone (GvOk e) else SDone GvErr
  end.

Definition seg_step (cur : list (bytes * val)) (sg : pseg) (key' : seg) (last : bool) (st : gstate)
  : sres * gstate * list seg :=
  match vassoc cur (ps_name sg) with
  | None => (SDone GvErr, st, [])                  (* ErrSegmentNotFound *)
  | Some pv =>
      match ps_idx sg with
      | None => (settle pv last, st, [])
      | Some ix =>
          match pv with
          | VList l =>
              match calc_index ix key' (length l) st with
              | (CiIdx i, st1, ks) =>
                  match nth_error l i with
                  | Some e => (settle e last, st1, ks)
                  | None => (SDone GvPanic, st1, ks)
                  end
              | (CiErr, st1, ks) => (SDone GvErr, st1, ks)
              | (CiPanic, st1, ks) => (SDone GvPanic, st1, ks)
              | (CiNoDraw, st1, ks) => (SDone GvNoDraw, st1, ks)
              end
          | _ => (SDone GvErr, st, [])             (* "invalid type of value" *)
          end
      end
  end.

Definition is_nil {A} (l : list A) : bool := match l with [] => true | _ => false end.

Fixpoint gmv_go (kext : seg -> bytes -> seg) (cur : list (bytes * val)) (segs : list pseg) (key : seg)
         (st : gstate) : gres * gstate * list seg :=
  match segs with
  | [] => (GvOk (VMap cur), st, [])
  | sg :: rest =>
      let key' := kext key (ps_text sg) in
      match seg_step cur sg key' (is_nil rest) st with
      | (SDone r, st1, ks) => (r, st1, ks)
      | (SInto m, st1, ks) =>
          let '(r, st2, ks2) := gmv_go kext m rest key' st1 in (r, st2, ks ++ ks2)
      end
  end.

(* GetMapValue(tree, path, iter); [pfx] identifies the iterator when several iterators live in
   one iter_state (empty for a single iterator) *)
Definition get_map_value (tree : list (bytes * val)) (path : bytes) (pfx : seg) (st : gstate)
  : gres * gstate * list seg :=
  gmv_go kext_go tree (parse_path path) pfx st.

Definition get_map_value_bare (tree : list (bytes * val)) (path : bytes) (pfx : seg) (st : gstate)
  : gres * gstate * list seg :=
  gmv_go kext_bare tree (parse_path path) pfx st.

(* a sequence of evaluations sharing one iterator (one history: the order in which the
   evaluations' critical sections were admitted) *)
Fixpoint run_paths (pfx : seg) (h : list (list (bytes * val) * bytes)) (st : gstate) : list gres :=
  match h with
  | [] => []
  | (t, p) :: r =>
      let '(res, st1, _) := get_map_value t p pfx st in
      res :: run_paths pfx r st1
  end.

Fixpoint run_paths_bare (pfx : seg) (h : list (list (bytes * val) * bytes)) (st : gstate) : list gres :=
  match h with
  | [] => []
  | (t, p) :: r =>
      let '(res, st1, _) := get_map_value_bare t p pfx st in
      res :: run_paths_bare pfx r st1
  end.

(* ------------------------------------------------------------------------------------ *)
(** * Specification side: canonical paths and per-list counters *)

(* A canonical path, as the documentation writes them: names separated by dots, a list
   addressed as name[<digits>] or name[next].  No blanks, no capitals in the index. *)
Inductive cseg :=
| CPlain (n : bytes)
| CAt (n : bytes) (ds : bytes)       (* name[ds], ds a decimal literal *)
| CNext (n : bytes).                 (* name[next] *)

Definition print_cseg (c : cseg) : bytes :=
  match c with
  | CPlain n => n
  | CAt n ds => n ++ c_lb :: ds ++ [c_rb]
  | CNext n => n ++ c_lb :: s_next ++ [c_rb]
  end.

Fixpoint print_cpath (cp : list cseg) : bytes :=
  match cp with
  | [] => []
  | [c] => print_cseg c
  | c :: r => print_cseg c ++ c_dot :: print_cpath r
  end.

Definition name_char (c : N) : bool :=
  (negb (is_space c) && negb (N.eqb c c_dot) && negb (N.eqb c c_lb))%bool.

Definition cname_ok (n : bytes) : bool :=
  match n with
  | [] => false
  | _ => forallb name_char n
  end.

Definition lit_val (ds : bytes) : Z := fold_left (fun a c => (a * 10 + Z.of_N (c - 48))%Z) ds 0%Z.

Definition lit_ok (ds : bytes) : bool :=
  match ds with
  | [] => false
  | _ => (forallb is_digit ds && (lit_val ds <=? int64_max)%Z)%bool
  end.

Definition cseg_ok (c : cseg) : bool :=
  match c with
  | CPlain n => cname_ok n
  | CAt n ds => (cname_ok n && lit_ok ds)%bool
  | CNext n => cname_ok n
  end.

Definition is_cnext (c : cseg) : bool := match c with CNext _ => true | _ => false end.

(* well-formed: at least one segment, every segment well-formed, at most one [next] *)
Definition cpath_ok (cp : list cseg) : bool :=
  (match cp with [] => false | _ => true end
   && forallb cseg_ok cp
   && Nat.leb (length (filter is_cnext cp)) 1)%bool.

(* the list a path indexes with [next]: the path up to and including that segment (the
   address of the list in the variable tree, as written); [] when there is none *)
Fixpoint next_loc (cp : list cseg) : list cseg :=
  match cp with
  | [] => []
  | c :: r => if is_cnext c then [c]
              else match next_loc r with
                   | [] => []
                   | l => c :: l
                   end
  end.

Definition cseg_eqb (a b : cseg) : bool :=
  match a, b with
  | CPlain n, CPlain m => beq n m
  | CAt n d, CAt m e => (beq n m && beq d e)%bool
  | CNext n, CNext m => beq n m
  | _, _ => false
  end.

Fixpoint loc_eqb (a b : list cseg) : bool :=
  match a, b with
  | [], [] => true
  | x :: a', y :: b' => (cseg_eqb x y && loc_eqb a' b')%bool
  | _, _ => false
  end.

(* evaluation of a canonical path when [k] earlier evaluations have used its [next] list:
   the list hands out element k mod len.  Second component: was the [next] list reached (one
   counter value consumed)? *)
Definition sstep (cur : list (bytes * val)) (c : cseg) (k : nat) (last : bool) : sres * bool :=
  match c with
  | CPlain n =>
      match vassoc cur n with
      | Some e => (settle e last, false)
      | None => (SDone GvErr, false)
      end
  | CAt n ds =>
      match vassoc cur n with
      | Some (VList l) =>
          match l with
          | [] => (SDone GvErr, false)
          | _ => match nth_error l (Z.to_nat (lit_val ds mod Z.of_nat (length l))) with
                 | Some e => (settle e last, false)
                 | None => (SDone GvPanic, false)
                 end
          end
      | _ => (SDone GvErr, false)
      end
  | CNext n =>
      match vassoc cur n with
      | Some (VList l) =>
          match l with
          | [] => (SDone GvErr, false)
          | _ => match nth_error l (k mod length l) with
                 | Some e => (settle e last, true)
                 | None => (SDone GvPanic, true)
                 end
          end
      | _ => (SDone GvErr, false)
      end
  end.

Fixpoint sgmv (cur : list (bytes * val)) (cp : list cseg) (k : nat) : gres * bool :=
  match cp with
  | [] => (GvOk (VMap cur), false)
  | c :: rest =>
      match sstep cur c k (is_nil rest) with
      | (SDone r, b) => (r, b)
      | (SInto m, b) => let '(r, b2) := sgmv m rest k in (r, (b || b2)%bool)
      end
  end.

Definition reaches (cur : list (bytes * val)) (cp : list cseg) : bool := snd (sgmv cur cp 0).

(* how many evaluations of a history reached the list L *)
Fixpoint count_loc (L : list cseg) (h : list (list (bytes * val) * list cseg)) : nat :=
  match h with
  | [] => O
  | (t, cp) :: r => (if (reaches t cp && loc_eqb (next_loc cp) L)%bool then 1 else 0) + count_loc L r
  end.

(* the specified results of a history of canonical-path evaluations: every list addressed with
   [next] hands out its own consecutive elements, whatever else is evaluated in between.
   [done] = the evaluations already made (most recent first). *)
Fixpoint spec_paths (done : list (list (bytes * val) * list cseg)) (h : list (list (bytes * val) * list cseg)) : list gres :=
  match h with
  | [] => []
  | (t, cp) :: r => fst (sgmv t cp (count_loc (next_loc cp) done)) :: spec_paths ((t, cp) :: done) r
  end.

(* the path strings of a history of canonical paths *)
Definition to_paths (h : list (list (bytes * val) * list cseg)) : list (list (bytes * val) * bytes) :=
  map (fun e => (fst e, print_cpath (snd e))) h.

(* the counter key of the [next] list of a canonical path, as the code accumulates it from
   [key]: a dot and the printed segment for every segment up to and including name[next] *)
Fixpoint nkey (key : seg) (cp : list cseg) : seg :=
  match cp with
  | [] => key
  | c :: r => let key' := kext_go key (print_cseg c) in
              if is_cnext c then key' else nkey key' r
  end.

(* recognising a canonical path in a path string (used by the driver to decide whether the
   specification applies to a generated path): the segments are split at dots, a segment
   name[next] / name[digits] / name is read back *)
Definition cseg_of_text (t : bytes) : option cseg :=
  match break_at c_lb t with
  | None => if cname_ok t then Some (CPlain t) else None
  | Some (n, rest) =>
      if ends_with c_rb t then
        let ix := removelast rest in
        if beq ix s_next then (if cname_ok n then Some (CNext n) else None)
        else if (cname_ok n && lit_ok ix)%bool then Some (CAt n ix) else None
      else None
  end.

Fixpoint all_some {A} (l : list (option A)) : option (list A) :=
  match l with
  | [] => Some []
  | Some x :: r => match all_some r with Some t => Some (x :: t) | None => None end
  | None :: _ => None
  end.

Definition canon_of (p : bytes) : option (list cseg) :=
  match all_some (map cseg_of_text (split c_dot p)) with
  | Some cp => if (cpath_ok cp && beq (print_cpath cp) p)%bool then Some cp else None
  | None => None
  end.
