(* C17, round 6: "the option applied to the component".
   A configuration section is decoded onto the registered default of the component and handed to its constructor; what
   the constructed component then HOLDS of configuration is observable: its own config struct, and -- for a component
   that wraps another one (the grpc/scenario gun wraps the grpc gun) -- the configuration it assembles for the wrapped
   component, option by option, from its own options.  Executable definitions only; proofs in
   Proofs/ConfigAppliedProofs.v. *)
From Coq Require Import List NArith ZArith Bool QArith.
From PV Require Import Model.ConfigDecode.
Import ListNotations.
Local Open Scope N_scope.

(* ---- option positions: key paths through the (squashed) struct fields of a config, keys as the schema spells them *)
Fixpoint field_index (k : str) (ffs : list fld) : option nat :=
  match ffs with
  | [] => None
  | f :: r => if str_eqb (f_key f) k then Some O else option_map S (field_index k r)
  end.

(* the option at a key path of a decoded config: its schema and its value *)
Fixpoint opt_at (p : list str) (s : schema) (c : cval) : option (schema * cval) :=
  match p with
  | [] => Some (s, c)
  | k :: p' =>
      match c with
      | CStruct cs =>
          match field_index k (flat_fields s) with
          | Some i =>
              match nth_error (flat_fields s) i, nth_error cs i with
              | Some f, Some c' => opt_at p' (f_schema f) c'
              | _, _ => None
              end
          | None => None
          end
      | _ => None
      end
  end.

(* what the section writes at the path (keys are matched the way the decoder matches them: exact, else folded) *)
Fixpoint written_path (p : list str) (v : value) : option value :=
  match p with
  | [] => Some v
  | k :: p' =>
      match v with
      | VMap kvs => match find_key k kvs with Some (_, x) => written_path p' x | None => None end
      | _ => None
      end
  end.

(* the section does not write the option: a key on the way is absent, or something on the way is written as null *)
Fixpoint unwritten_path (p : list str) (v : value) : bool :=
  match v with
  | VNull => true
  | VMap kvs =>
      match p with
      | [] => false
      | k :: p' => match find_key k kvs with None => true | Some (_, x) => unwritten_path p' x end
      end
  | _ => false
  end.

(* ---- what a component holds.  A rule (dst, src): the option at path dst of the held configuration is the component's
   own option at path src.  For the component's own config struct every rule is (p, p). *)
Definition fwd_rule := (list str * list str)%type.

Definition forwarded (rules : list fwd_rule) (s : schema) (c : cval) : list (list str * option cval) :=
  map (fun r => (fst r, option_map snd (opt_at (snd r) s c))) rules.

(* one held configuration: label (`own`, or the registered name of the wrapped component) and its rules *)
Definition held := (str * list fwd_rule)%type.
(* per registered component (interface, name): what its products hold -- regenerated from the source *)
Definition applied_table := list (str * str * list held).

Definition s_own : str := [111;119;110].

Fixpoint lookup_applied (t : applied_table) (iface name : str) : list held :=
  match t with
  | [] => []
  | (i, n, hs) :: r => if str_eqb i iface && str_eqb n name then hs else lookup_applied r iface name
  end.

Definition applied_of (t : applied_table) (iface name : str) (s : schema) (c : cval)
  : list (str * list (list str * option cval)) :=
  map (fun h => (fst h, forwarded (snd h) s c)) (lookup_applied t iface name).

(* ---- specification side (evaluated on the IMPLEMENTATION's answer by the driver): the value that has to arrive at a
   rule's destination, computed from the written section and the registered default alone -- the decoding of what the
   section writes at src onto the default there, the default itself when the section does not write it. *)
Section Spec.
Variable env : str -> option str.
Variable prop : str -> str -> option str.
Variable orc : okind -> str -> option Z.
Variable orcq : str -> option Q.
Variable reg : list entry.
Variable lz : bool.

Definition expected_opt (cs : schema) (d : cval) (sec : value) (src : list str) : option (res cval) :=
  match opt_at src cs d with
  | None => None
  | Some (s', d') =>
      match written_path src sec with
      | Some x => Some (decode env prop orc orcq reg lz (fuel_for x) s' d' x)
      | None => if unwritten_path src sec then Some (Ok d') else None
      end
  end.

Definition expected_group (cs : schema) (d : cval) (sec : value) (rules : list fwd_rule)
  : list (list str * option (res cval)) :=
  map (fun r => (fst r, expected_opt cs d sec (snd r))) rules.

End Spec.

(* ---- side conditions computed on a generated table (bridge) *)
Fixpoint path_eqb (a b : list str) : bool :=
  match a, b with
  | [], [] => true
  | x :: a', y :: b' => str_eqb x y && path_eqb a' b'
  | _, _ => false
  end.

Fixpoint path_mem (p : list str) (l : list (list str)) : bool :=
  match l with [] => false | q :: r => path_eqb p q || path_mem p r end.

Fixpoint paths_nodup (l : list (list str)) : bool :=
  match l with [] => true | p :: r => negb (path_mem p r) && paths_nodup r end.

(* every held configuration receives each of its options from exactly one rule *)
Definition table_functional (t : applied_table) : bool :=
  forallb (fun e => forallb (fun h : held => paths_nodup (map fst (snd h))) (snd e)) t.

Fixpoint schema_eqb (a b : schema) {struct a} : bool :=
  match a, b with
  | SScalar k1, SScalar k2 =>
      match k1, k2 with
      | KBool, KBool | KFloat, KFloat | KString, KString | KDuration, KDuration | KSize, KSize | KOpaque, KOpaque => true
      | KInt x, KInt y | KUint x, KUint y | KText x, KText y => x =? y
      | _, _ => false
      end
  | SMap e1, SMap e2 | SSlice e1, SSlice e2 => schema_eqb e1 e2
  | SAny, SAny => true
  | SPlugin i1 f1, SPlugin i2 f2 => str_eqb i1 i2 && (f1 =? f2)
  | _, _ => false
  end.

(* every rule of every component resolves: the source is an option of the component's own config (looked up in the
   registered default); for a wrapped component (label = its registered name under the same interface) the destination
   is an option of ITS config, of the same type *)
Definition rule_resolves (reg : list entry) (iface : str) (cs : schema) (d : cval) (label : str) (r : fwd_rule) : bool :=
  match opt_at (snd r) cs d with
  | None => false
  | Some (s', _) =>
      if str_eqb label s_own then path_eqb (fst r) (snd r)
      else
        match lookup_entry reg iface label with
        | Some e' =>
            match e_conf e' with
            | Some (cs', d') => match opt_at (fst r) cs' d' with Some (s'', _) => schema_eqb s' s'' | None => false end
            | None => false
            end
        | None => false
        end
  end.

Definition table_resolves (reg : list entry) (t : applied_table) : bool :=
  forallb (fun e =>
    match e with
    | (iface, name, hs) =>
        match lookup_entry reg iface name with
        | Some en =>
            match e_conf en with
            | Some (cs, d) => forallb (fun h : held => forallb (rule_resolves reg iface cs d (fst h)) (snd h)) hs
            | None => false
            end
        | None => false
        end
    end) t.

(* the wrappers: components holding a configuration for another registered component *)
Definition wrappers (t : applied_table) : list (str * str * list held) :=
  filter (fun e => negb (forallb (fun h : held => str_eqb (fst h) s_own) (snd e)))
    (map (fun e => match e with (i, n, hs) => (i, n, filter (fun h : held => negb (str_eqb (fst h) s_own)) hs) end) t).
