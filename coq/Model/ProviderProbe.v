(* runFullScan (components/providers/http/provider/provider.go) with its whole-pass probe as a
   parameter (property C08, round 8).

   Under a chosencases filter that matches nothing the full-scan path has exactly one way out when
   `passes` is 0: `if delivered == 0 && p.fullPassDone() { return ErrNoAmmo }`, where
   fullPassDone asks the decoder through an anonymous interface,
   `d, ok := p.Decoder.(interface{ PassNum() uint }); return ok && d.PassNum() >= 1`.
   Whether that type assertion holds is decided by the method set of the decoder type, not by
   anything the loop computes: [probe] is that answer as a function of the decoder state.
   [probe_code]: the assertion holds (decoders.protoDecoder has `PassNum() uint`) — this is the
   HStream branch of [http_step] in Model/Provider.v, copied; [probe_dead]: it does not hold
   (ok = false), fullPassDone is false whatever the decoder has done.

   Executable definitions only; proofs in Proofs/ProviderFilterProofs.v. *)
From Coq Require Import List Arith Bool.
From PV Require Import Model.Provider.
Import ListNotations.

Definition probe_code (d : dstate) : bool := 1 <=? passNum d.
Definition probe_dead (d : dstate) : bool := false.

(* state: the decoder and `delivered` *)
Definition stream_step_p (probe : dstate -> bool) (k : dkind) (cf : cfg) (es : list entry)
           (c : bool) (s : dstate * nat) : sres (dstate * nat) :=
  let '(d, dl) := s in
  if negb (inloop d) && c then Stop (Failed ECtx) true
  else if negb (inloop d) && nz (limit cf) && (limit cf <=? dl) then Stop Ok true
  else
    match dec_step k c 0 (passes cf) es d with
    | DAgain d' => Cont (d', dl)
    | DErr e => Stop (fullscan_result dl e) true
    | DAmmo e d' =>
        if negb (is_chosen (e_tag e) (chosen cf)) then
          if (dl =? 0) && probe d' then Stop (Failed ENoAmmo) true
          else Cont (d', dl)
        else if c then Stop (Failed ECtx) true
        else Emit e (d', S dl)
    end.

Definition stream_run_p (probe : dstate -> bool) (k : dkind) (cf : cfg) (es : list entry)
           (cancel : option nat) (fuel : nat) : result :=
  run_steps (stream_step_p probe k cf es) cancel fuel 0 (dinit, 0).
