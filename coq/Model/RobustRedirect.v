(* Model for property C19, third layer: a target that answers with REDIRECTS.
   Model/Robust.v abstracts Client.Do to one exchange.  With the gun option `redirect: true` the client is a
   net/http Client, whose Do is a LOOP: send, and while the answer is a redirect (301 302 303 307 308 for the
   body-less requests of the ammo) with a Location, ask the redirect policy (Client.CheckRedirect; when the field is
   nil: defaultCheckRedirect = "stopped after 10 redirects"), build the next request and send again.  The target
   decides what every hop answers, so the number of iterations is in the TARGET's hands unless the policy bounds it.
   Here the target is a graph (step index -> what that URI answers, and where its Location points), the loop is
   written with fuel and an explicit OutOfFuel outcome (None); Proofs/RobustRedirectProofs.v shows that the default
   policy excludes it for EVERY graph (10 requests at most), and that a policy that always allows does not.
   Also new: at the redirect limit Do returns BOTH the last response (body closed) and an error, so "response
   present" and "no error" are separate inputs of the branches after Do.  Executable definitions only. *)
From Coq Require Import String.
From Coq Require Import List ZArith Bool.
From PV Require Import Model.Robust.
Import ListNotations.
Local Open Scope list_scope.
Local Open Scope Z_scope.

(* where the Location header of a hop points *)
Inductive loc :=
| LocNone              (* no Location header: the 3xx response is the result, no error *)
| LocBad               (* a Location that does not parse: error, no response *)
| LocDead              (* parses, nobody listens there: the next send fails *)
| LocStep (j : nat).   (* the URI of step j of the same target (possibly the same step, possibly an earlier one) *)

Record hop := { hp_resp : response; hp_loc : loc }.
Definition target := nat -> hop.

(* net/http redirectBehavior for a request without a body *)
Definition should_redirect (status : Z) : bool :=
  (status =? 301) || (status =? 302) || (status =? 303) || (status =? 307) || (status =? 308).

(* the redirect policy: given len(via) = requests made so far, may the next one be sent? *)
Definition redirect_limit : nat := 10.
Definition default_check (via : nat) : bool := Nat.ltb via redirect_limit.   (* defaultCheckRedirect *)
Definition always_check (via : nat) : bool := true.                          (* a CheckRedirect that returns nil *)

(* which policy a Client literal has, given the names of the fields it sets (harness/cmd/translate redirclient):
   CheckRedirect left alone = the default; set = some function this model knows nothing about *)
Inductive policy := PolicyDefault | PolicyCustom.
Definition policy_of_fields (fields : list string) : policy :=
  if existsb (String.eqb "CheckRedirect"%string) fields then PolicyCustom else PolicyDefault.
(* what may be assumed of the policy: the default is the default; of a custom one nothing (it may allow every redirect) *)
Definition check_of (p : policy) : nat -> bool :=
  match p with PolicyDefault => default_check | PolicyCustom => always_check end.

Record do_result := {
  dr_present : bool;       (* the *Response Do returned is not nil *)
  dr_resp : response;      (* rs_conn <> ConnOk = Do returned an error *)
  dr_trace : list nat      (* the requests made, in order (step indices) *)
}.

(* the error Do makes out of a redirect it does not follow (limit reached / Location unparsable) *)
Definition redirect_err (r : response) : response :=
  {| rs_conn := ConnProto; rs_status := rs_status r; rs_body_ok := false; rs_h2 := rs_h2 r |}.
Definition dead_err (r : response) : response :=
  {| rs_conn := ConnRefused; rs_status := 0; rs_body_ok := false; rs_h2 := rs_h2 r |}.

(* http.Client.do.  [via] = requests already made, [cur] = the one to send now. *)
Fixpoint client_loop (check : nat -> bool) (tgt : target) (fuel : nat) (via : list nat) (cur : nat) : option do_result :=
  match fuel with
  | O => None
  | S f =>
      let h := tgt cur in
      let r := hp_resp h in
      let reqs := via ++ [cur] in
      if negb (conn_ok (rs_conn r)) then Some {| dr_present := false; dr_resp := r; dr_trace := reqs |}
      else if negb (should_redirect (rs_status r)) then Some {| dr_present := true; dr_resp := r; dr_trace := reqs |}
      else match hp_loc h with
           | LocNone => Some {| dr_present := true; dr_resp := r; dr_trace := reqs |}
           | LocBad => Some {| dr_present := false; dr_resp := redirect_err r; dr_trace := reqs |}
           | LocDead =>
               if check (length reqs) then Some {| dr_present := false; dr_resp := dead_err r; dr_trace := reqs |}
               else Some {| dr_present := true; dr_resp := redirect_err r; dr_trace := reqs |}
           | LocStep j =>
               if check (length reqs) then client_loop check tgt f reqs j
               else Some {| dr_present := true; dr_resp := redirect_err r; dr_trace := reqs |}   (* resp AND error *)
           end
  end.

(* noRedirectClient: one round trip *)
Definition single_trip (tgt : target) (cur : nat) : do_result :=
  let r := hp_resp (tgt cur) in
  {| dr_present := conn_ok (rs_conn r); dr_resp := r; dr_trace := [cur] |}.

(* Client.Do of the gun: redirect option off = one round trip; on = the loop with the default policy.
   Fuel 11 is more than every target can use up (client_do_total: at most 10 requests). *)
Definition client_fuel : nat := S redirect_limit.
Definition client_do (redirect : bool) (tgt : target) (cur : nat) : option do_result :=
  if redirect then client_loop default_check tgt client_fuel [] cur else Some (single_trip tgt cur).

(* ---- the branches after Do with "response present" and "error" as separate facts ----
     if DumpEnabled && res != nil { DumpResponse(res) }
     if err != nil { return }
     if DebugLog { verboseLogging(res) };  if AnswLog.Enabled { per filter: answLogging(.., res) } *)
Definition side_branches_do (o : gun_opts) (present : bool) (r : response) : outcome unit :=
  let no_err := conn_ok (rs_conn r) in
  match (if go_dump o && present then deref_response present else Done tt) with
  | Done _ =>
      if negb no_err then Done tt
      else match (if go_debug o then deref_response present else Done tt) with
           | Done _ => match go_answlog o with
                       | Some f => if answ_applies f (rs_status r) then deref_response present else Done tt
                       | None => Done tt
                       end
           | x => x
           end
  | x => x
  end.

(* BaseGun.Shoot over a Do result *)
Definition base_shoot_do (c : base_cfg) (invalid_ammo : bool) (d : do_result) : shot :=
  let r := dr_resp d in
  if negb (bc_bound c) then ShotPanic []
  else match bc_connect c with
       | Some false => Returned []
       | _ =>
           if invalid_ammo then Returned [{| sm_code := 0; sm_err := false |}]
           else if bc_http2 c && negb (rs_h2 r) && conn_ok (rs_conn r) then ShotPanic [{| sm_code := 0; sm_err := false |}]
           else if is_panic (side_branches_do (bc_opts c) (dr_present d) r) then
             ShotPanic [{| sm_code := 0; sm_err := negb (conn_ok (rs_conn r)) |}]
           else if negb (conn_ok (rs_conn r)) then Returned [{| sm_code := 0; sm_err := true |}]
           else Returned [{| sm_code := rs_status r; sm_err := negb (rs_body_ok r) |}]
       end.

(* ScenarioGun.shootStep over a Do result (saveTrace has the same `resp != nil` guard) *)
Definition shoot_step_do (s : step_in) (d : do_result) : step_out :=
  let r := dr_resp d in
  if is_panic (si_pre s) then StepPanic
  else if negb (match si_pre s with Done _ => true | _ => false end) then StepErr
  else if negb (si_tmpl_ok s) then StepErr
  else if negb (si_prep_ok s) then StepErr
  else if is_panic (side_branches_do (si_opts s) (dr_present d) r) then StepPanic
  else if negb (conn_ok (rs_conn r)) then StepErr
  else if negb (rs_body_ok r) then StepErr
  else match run_pps (si_pps s) with
       | Done _ => StepOk {| sm_code := rs_status r; sm_err := false |}
       | Failed => StepErr
       | Panicked => StepPanic
       end.

(* one shot of the http-family guns at the URI of step [cur] of a redirecting target.
   None = the client never came back (out of fuel). *)
Definition base_shoot_redir (c : base_cfg) (redirect : bool) (tgt : target) (cur : nat) : option shot :=
  match client_do redirect tgt cur with
  | Some d => Some (base_shoot_do c false d)
  | None => None
  end.

(* redirects the client FOLLOWED to a step of the target = requests after the first *)
Definition followed (d : do_result) : nat := pred (length (dr_trace d)).
Definition last_step (d : do_result) (dflt : nat) : nat := last (dr_trace d) dflt.
