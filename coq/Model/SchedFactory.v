(* Schedules made by a schedule FACTORY (property C02: "any schedule").

   pandora does not hand schedules to the engine, it hands out factories: the pool option `rps` is
   decoded (core/config + core/plugin/registry.go NewFactory, pluginconfig hooks) into a
   `func() (core.Schedule, error)`, which the engine calls once for a shared schedule or - with
   rps-per-instance - once per instance.  For a plugin constructor the registry fills a configuration
   value on EVERY factory call; filling a schedule.CompositeConf constructs the nested schedule
   objects, so every call runs the constructors again ([build]) and no part of the schedule it returns
   is reachable from a schedule returned earlier.

   The model is store-free: a factory call is [build] of the configuration, the system is the list of
   the schedules made so far, and an operation touches the instance it is addressed to.  (Whether the
   real factory hands out objects that share nothing is a question about object identity which this
   model cannot express; it is what the `fact` cases of the correspondence run observe on the real
   registry: K schedules of one factory, operations interleaved, each compared with its own run.)
   Executable definitions only. *)
From Coq Require Import List ZArith Bool Arith.
From PV Require Import Model.SchedTree Model.SchedConc.
Import ListNotations.
Local Open Scope Z_scope.

(* an instance that panicked is dead: its caller saw the panic, later operations on it are skipped *)
Definition inst : Type := option sched.

Fixpoint sys_init (fuel : nat) (now : Z) (c : cfg) (k : nat) : res (list inst) :=
  match k with
  | O => Ok []
  | S k' => do s <- build fuel now c ;; do r <- sys_init fuel now c k' ;; Ok (Some s :: r)
  end.

Definition inst_step (fuel : nat) (s : sched) (now : Z) (o : op) : obs * inst :=
  match o with
  | OStart t => match s_start t s with
                | Ok s' => (RStart, Some s') | Panic k => (RPanic k, None) | OutOfFuel => (RFuel, None) end
  | ONext => match s_next fuel now s with
             | Ok (s', t, ok) => (RNext t ok, Some s') | Panic k => (RPanic k, None) | OutOfFuel => (RFuel, None) end
  | OLeft => match s_left fuel now s with
             | Ok (s', k) => (RLeft k, Some s') | Panic k => (RPanic k, None) | OutOfFuel => (RFuel, None) end
  end.

(* operations (instance, clock, op) executed in order by one caller; observations tagged by instance *)
Fixpoint sys_run (fuel : nat) (ss : list inst) (ops : list (nat * (Z * op))) : list (nat * obs) :=
  match ops with
  | [] => []
  | (j, (now, o)) :: r =>
      match nth_error ss j with
      | Some (Some s) => let '(ob, i') := inst_step fuel s now o in (j, ob) :: sys_run fuel (upd j i' ss) r
      | _ => sys_run fuel ss r
      end
  end.

Definition proj_ops (j : nat) (ops : list (nat * (Z * op))) : list (Z * op) :=
  map snd (filter (fun x => Nat.eqb (fst x) j) ops).
Definition proj_obs (j : nat) (l : list (nat * obs)) : list obs :=
  map snd (filter (fun x => Nat.eqb (fst x) j) l).
