(* Model of the `locals` stage of the HCL scenario front-end (property C16; hcl.go decodeLocals / decodeLocalBlock /
   mergeMaps / buildHclContext, and the body decoded with the resulting context).

   A scenario file is a list of `locals` blocks (in file order) followed by a body.  The code walks the blocks with an
   accumulator `vars`: the attributes of a block are evaluated in the context built from `vars` (the locals of ALL the
   blocks above -- not of the block itself), the results are merged into `vars` (a later definition of a name replaces
   the earlier one), and the body is decoded in the context of the final `vars`.  `decode_locals_from` / `parse_hcl`
   follow that shape.

   The specification side does not use an accumulator: `lookup_above` gives a reference `local.n` the meaning
   "the nearest definition of n in a block above, evaluated at its own place"; `spec_locals` evaluates the body under
   all blocks provided every definition evaluates at its place; `inline_lookup`/`subst` replace references by their
   defining expressions (a description without locals).

   Expressions: the fragment the correspondence harness prints -- literals (string, list of strings, map of strings,
   null), references, string interpolation, concat() on lists, merge() on maps, coalesce() (first argument that is not
   null).  null is a VALUE: a local set to null exists, hides an earlier definition of its name, and an attribute of the
   body that evaluates to null leaves its field out (`field_val`, `parse_hcl_fields`).  The other registered functions are library
   oracles exercised by the `scn` cases.  Evaluation is partial: an unknown attribute of `local`, a type mismatch and
   an attribute defined twice in a block are explicit failures (None = the file is rejected with diagnostics).
   Executable definitions only. *)
From Coq Require Import List NArith Bool.
From PV Require Import Model.ConfigDecode.
Import ListNotations.
Local Open Scope N_scope.

Inductive lval :=
| LS (s : str)
| LL (l : list str)
| LM (kvs : list (str * str))
| LNull.                         (* cty null: what `null`, and any local bound to it, evaluates to *)

Inductive lexpr :=
| ELit (v : lval)
| ERef (name : str)              (* local.name *)
| ECat (a b : lexpr)             (* "${a}${b}" *)
| EConcat (a b : lexpr)          (* concat(a, b) *)
| EMerge (a b : lexpr)           (* merge(a, b): the keys of b replace those of a; a null argument is skipped *)
| ECoalesce (a b : lexpr).       (* coalesce(a, b): the first argument that is not null *)

Definition block := list (str * lexpr).

Fixpoint assoc {A : Type} (n : str) (l : list (str * A)) : option A :=
  match l with
  | [] => None
  | (k, x) :: r => if str_eqb n k then Some x else assoc n r
  end.

Definition has_key (k : str) (kvs : list (str * str)) : bool :=
  match assoc k kvs with Some _ => true | None => false end.

(* cty merge: every key once, the value of the later argument *)
Definition merge_kvs (a b : list (str * str)) : list (str * str) :=
  filter (fun kv => negb (has_key (fst kv) b)) a ++ b.

(* merge() skips null arguments (stdlib.MergeFunc: AllowNull, `if arg.IsNull() { continue }`) *)
Definition as_map (v : lval) : option (list (str * str)) :=
  match v with LM x => Some x | LNull => Some [] | _ => None end.

(* coalesce(): all arguments are evaluated; they must have one type (null has any); the first non-null one is the
   result; "no non-null arguments" is an error *)
Definition coalesce2 (x y : lval) : option lval :=
  match x, y with
  | LNull, LNull => None
  | LNull, v => Some v
  | v, LNull => Some v
  | LS _, LS _ => Some x
  | LL _, LL _ => Some x
  | LM _, LM _ => Some x
  | _, _ => None
  end.

(* evaluation with the meaning of `local.n` given by `look` *)
Fixpoint eval_with (look : str -> option lval) (e : lexpr) : option lval :=
  match e with
  | ELit v => Some v
  | ERef n => look n
  | ECat a b =>
      match eval_with look a, eval_with look b with
      | Some (LS x), Some (LS y) => Some (LS (x ++ y))
      | _, _ => None
      end
  | EConcat a b =>
      match eval_with look a, eval_with look b with
      | Some (LL x), Some (LL y) => Some (LL (x ++ y))
      | _, _ => None
      end
  | EMerge a b =>
      match eval_with look a, eval_with look b with
      | Some x, Some y =>
          match as_map x, as_map y with
          | Some x', Some y' => Some (LM (merge_kvs x' y'))
          | _, _ => None
          end
      | _, _ => None
      end
  | ECoalesce a b =>
      match eval_with look a, eval_with look b with
      | Some x, Some y => coalesce2 x y
      | _, _ => None
      end
  end.

Fixpoint map_opt {A B : Type} (f : A -> option B) (l : list A) : option (list B) :=
  match l with
  | [] => Some []
  | x :: r =>
      match f x, map_opt f r with
      | Some y, Some ys => Some (y :: ys)
      | _, _ => None
      end
  end.

(* an attribute may be set once in a block (hclsyntax: "Attribute redefined") *)
Fixpoint names_nodup (l : list str) : bool :=
  match l with [] => true | x :: r => negb (mem_str x r) && names_nodup r end.
Definition block_wf (b : block) : bool := names_nodup (map fst b).

(* ---- the code's shape ---------------------------------------------------------------------------------------- *)

(* the Go map `vars`: an association list, the first entry of a name is its value *)
Definition env := list (str * lval).

(* decodeLocalBlock: every attribute in the context handed in *)
Definition decode_block (ctx : env) (b : block) : option env :=
  if block_wf b
  then map_opt (fun ne => match eval_with (fun n => assoc n ctx) (snd ne) with
                          | Some v => Some (fst ne, v) | None => None end) b
  else None.

(* mergeMaps(vars, newVars): the new entries replace the old ones *)
Definition merge_maps (vars newVars : env) : env := newVars ++ vars.

(* decodeLocals: the loop over the blocks *)
Fixpoint decode_locals_from (vars : env) (blocks : list block) : option env :=
  match blocks with
  | [] => Some vars
  | b :: rest =>
      match decode_block vars b with
      | None => None
      | Some newVars => decode_locals_from (merge_maps vars newVars) rest
      end
  end.

Definition decode_locals (blocks : list block) : option env := decode_locals_from [] blocks.

(* ParseHCLFile: the body expressions in the final context *)
Definition parse_hcl (blocks : list block) (body : list lexpr) : option (list lval) :=
  match decode_locals blocks with
  | None => None
  | Some vars => map_opt (eval_with (fun n => assoc n vars)) body
  end.

(* ---- the specification's shape ------------------------------------------------------------------------------- *)

(* the meaning of local.n for a reader standing below the blocks `above` (nearest block first) *)
Fixpoint lookup_above (above : list block) (n : str) : option lval :=
  match above with
  | [] => None
  | b :: rest =>
      match assoc n b with
      | Some e => eval_with (lookup_above rest) e
      | None => lookup_above rest n
      end
  end.

Definition is_some {A : Type} (o : option A) : bool := match o with Some _ => true | None => false end.

(* every definition evaluates at its place and no block sets a name twice *)
Fixpoint defs_ok (above : list block) : bool :=
  match above with
  | [] => true
  | b :: rest =>
      defs_ok rest && block_wf b && forallb (fun ne => is_some (eval_with (lookup_above rest) (snd ne))) b
  end.

Definition spec_locals (blocks : list block) (body : list lexpr) : option (list lval) :=
  if defs_ok (rev blocks) then map_opt (eval_with (lookup_above (rev blocks))) body else None.

(* ---- locals as a convenience: the same description without them ---------------------------------------------- *)

Fixpoint subst (look : str -> option lexpr) (e : lexpr) : option lexpr :=
  match e with
  | ELit v => Some (ELit v)
  | ERef n => look n
  | ECat a b => match subst look a, subst look b with Some a', Some b' => Some (ECat a' b') | _, _ => None end
  | EConcat a b => match subst look a, subst look b with Some a', Some b' => Some (EConcat a' b') | _, _ => None end
  | EMerge a b => match subst look a, subst look b with Some a', Some b' => Some (EMerge a' b') | _, _ => None end
  | ECoalesce a b => match subst look a, subst look b with Some a', Some b' => Some (ECoalesce a' b') | _, _ => None end
  end.

Fixpoint inline_lookup (above : list block) (n : str) : option lexpr :=
  match above with
  | [] => None
  | b :: rest =>
      match assoc n b with
      | Some e => subst (inline_lookup rest) e
      | None => inline_lookup rest n
      end
  end.

Definition inline_body (blocks : list block) (e : lexpr) : option lexpr := subst (inline_lookup (rev blocks)) e.

Fixpoint ref_free (e : lexpr) : bool :=
  match e with
  | ELit _ => true
  | ERef _ => false
  | ECat a b | EConcat a b | EMerge a b | ECoalesce a b => ref_free a && ref_free b
  end.

(* evaluation of a description that has no locals at all *)
Definition eval_closed (e : lexpr) : option lval := eval_with (fun _ => None) e.

(* ---- the attributes of the body: null leaves a field out ---------------------------------------------------------

   gohcl.DecodeBody hands the value of an attribute to the Go field: a null value leaves a field that can be nil
   (pointer: tag, body, weight, ...; map: headers; slice: requests) nil -- the AmmoHCL -> YAML hop then writes no key
   (omitempty) or an empty collection, i.e. the field is LEFT OUT --, and is refused by a plain field (uri, method:
   "null value is not allowed").  An attribute is (nullable, expression). *)
Definition field_val (nullable : bool) (v : lval) : option (option lval) :=
  match v with
  | LNull => if nullable then Some None else None
  | _ => Some (Some v)
  end.

Definition decode_attr (look : str -> option lval) (a : bool * lexpr) : option (option lval) :=
  match eval_with look (snd a) with Some v => field_val (fst a) v | None => None end.

Definition decode_fields (look : str -> option lval) (attrs : list (bool * lexpr)) : option (list (option lval)) :=
  map_opt (decode_attr look) attrs.

(* code shape / specification shape *)
Definition parse_hcl_fields (blocks : list block) (attrs : list (bool * lexpr)) : option (list (option lval)) :=
  match decode_locals blocks with
  | None => None
  | Some vars => decode_fields (fun n => assoc n vars) attrs
  end.

Definition spec_fields (blocks : list block) (attrs : list (bool * lexpr)) : option (list (option lval)) :=
  if defs_ok (rev blocks) then decode_fields (lookup_above (rev blocks)) attrs else None.

Definition is_null_val (o : option lval) : bool := match o with Some LNull => true | _ => false end.

(* the same body with the attributes that evaluate to null deleted from the text *)
Definition written_attrs (look : str -> option lval) (attrs : list (bool * lexpr)) : list (bool * lexpr) :=
  filter (fun a => negb (is_null_val (eval_with look (snd a)))) attrs.
