(* The time model (Model/GrpcTime.v) instantiated for the example service: the replays the C20
   correspondence driver runs for cases with think time / a slow target.  Executable definitions only. *)
From Coq Require Import List NArith ZArith Bool.
From PV Require Import Model.GrpcCall Model.GrpcExample Model.GrpcWire Model.GrpcTime.
Import ListNotations.
Local Open Scope Z_scope.

Section TimedReplay.
  Variable code_of_status : N -> N.
  Variable target : list (sent msg_c) -> sent msg_c -> N.
  Variable latency : list (sent msg_c) -> sent msg_c -> Z.

  (* think time of each step of a shot (missing = none) *)
  Fixpoint zip_sleeps (os : outs) (sl : list Z) : list (outcome msg_c * Z) :=
    match os with
    | [] => []
    | o :: r => match sl with [] => (o, 0) :: zip_sleeps r [] | s :: sl' => (o, s) :: zip_sleeps r sl' end
    end.

  (* shot j executes scenario j mod n (see scen_spec); [scen_sleeps] = think times of each scenario's steps *)
  Fixpoint attach_sleeps (scen_sleeps : list (list Z)) (j : nat) (shots : list outs)
    : list (list (outcome msg_c * Z)) :=
    match shots with
    | [] => []
    | os :: r =>
        zip_sleeps os (nth (Nat.modulo j (length scen_sleeps)) scen_sleeps []) :: attach_sleeps scen_sleeps (S j) r
    end.

  (* code-shaped: the clock of the harness' single thread, deadline scope [sc] *)
  Definition scen_timed (sc : dscope) (timeout : Z) (scen_sleeps : list (list Z)) (shots : list outs)
    : list (list (tstep msg_c)) :=
    snd (timed_shots msg_c code_of_status target latency sc (eff_timeout timeout) 0 []
           (attach_sleeps scen_sleeps 0 shots)).

  Definition scen_timed_spec (shots : list outs) : list (list (tstep msg_c)) :=
    snd (spec_timed_shots msg_c code_of_status target latency [] shots).

  (* grpc/json entries: every entry is a shot of its own *)
  Definition json_timed (sc : dscope) (timeout : Z) (os : outs) : list (list (tstep msg_c)) :=
    snd (timed_shots msg_c code_of_status target latency sc (eff_timeout timeout) 0 []
           (map (fun o => [(o, 0)]) os)).
  Definition json_timed_spec (os : outs) : list (list (tstep msg_c)) :=
    snd (spec_timed_shots msg_c code_of_status target latency [] (map (fun o => [o]) os)).
End TimedReplay.

(* the deadline scope of the guns as re-read from the source; anything else: the bridge obligation
   fails and the replay goes on with the scope the property states *)
Definition scope_or_default (o : option dscope) : dscope := match o with Some s => s | None => PerCall end.
