(* What an HTTP scenario shot must put on the wire (specification side of the sequential
   aliasing differential of C11): every step rendered from the CONFIGURED request definition
   with the variables of that shot.  Uses the template subset and the [next] bookkeeping of
   Model/GrpcExample.v.  Executable definitions only. *)
From Coq Require Import List NArith ZArith Bool.
From PV Require Import Model.GrpcCall Model.GrpcExample.
Import ListNotations.

Record hdef := mkH { h_name : gbytes; h_method : gbytes; h_uri : gbytes; h_headers : gmeta;
                     h_body : option gbytes; h_pp : bool }.
Record hparts := mkP { p_method : gbytes; p_url : gbytes; p_headers : gmeta; p_body : option gbytes }.

Definition rspec (text : gbytes) (v : vars_c) : option gbytes :=
  render_spec tmpl_c vars_c parse_t_c exec_t_c text v.

(* RequestParts{URL: step.URI, Method, Body: GetBody(), Headers: GetHeaders()} + Templater.Apply *)
Definition http_render (d : hdef) (v : vars_c) : option hparts :=
  match rspec (h_uri d) v with
  | None => None
  | Some url =>
      match render_meta_spec tmpl_c vars_c parse_t_c exec_t_c (h_headers d) v with
      | None => None
      | Some hs =>
          match h_body d with
          | None => Some (mkP (h_method d) url hs None)
          | Some b => match rspec b v with Some rb => Some (mkP (h_method d) url hs (Some rb)) | None => None end
          end
      end
  end.

Fixpoint hsteps_of (defs : list hdef) (idx : list nat) : list hdef :=
  match idx with
  | [] => []
  | i :: r => match nth_error defs i with Some d => d :: hsteps_of defs r | None => hsteps_of defs r end
  end.

(* steps of one shot with their variables and the [next] counter after each of them; a step whose
   templates fail ends the shot (the gun reports a code-0 sample for it) *)
Fixpoint http_shot (users : list (gbytes * gbytes)) (ctr : nat) (cur : vars_c) (sts : list hdef)
  : list (option hparts) * nat :=
  match sts with
  | [] => ([], ctr)
  | d :: r =>
      let '(v, ctr1) := if h_pp d then (nth_error users (Nat.modulo ctr (length users)), S ctr) else (cur, ctr) in
      match http_render d v with
      | None => ([None], ctr1)
      | Some p => let '(rest, c2) := http_shot users ctr1 v r in (Some p :: rest, c2)
      end
  end.

Fixpoint http_spec (users : list (gbytes * gbytes)) (defs : list hdef) (scens : list (gbytes * list nat))
         (ctr : nat) (j : nat) (order : list nat) : list (list (option hparts)) :=
  match order with
  | [] => []
  | _ :: rest =>
      match nth_error scens (Nat.modulo j (length scens)) with
      | Some (_, idx) =>
          let '(os, ctr1) := http_shot users ctr None (hsteps_of defs idx) in
          os :: http_spec users defs scens ctr1 (S j) rest
      | None => [] :: http_spec users defs scens ctr (S j) rest
      end
  end.
