(* What an HTTP scenario shot must put on the wire (specification side of the sequential
   aliasing differential of C11): every step rendered from the CONFIGURED request definition
   with the variables of that shot.  Uses the template subset and the [next] bookkeeping of
   Model/GrpcExample.v.  Executable definitions only. *)
From Coq Require Import List NArith ZArith Bool.
From PV Require Import Model.GrpcCall Model.GrpcExample.
Import ListNotations.

Record hdef := mkH { h_name : gbytes; h_method : gbytes; h_uri : gbytes; h_headers : gmeta;
                     h_body : option gbytes; h_pp : bool;
                     h_assert : bool }.   (* an assert/response postprocessor on the answer's body *)
Record hparts := mkP { p_method : gbytes; p_url : gbytes; p_headers : gmeta; p_body : option gbytes }.

Definition rspec (text : gbytes) (v : vars_c) : option gbytes :=
  render_spec tmpl_c vars_c parse_t_c exec_t_c text v.

(* RequestParts{URL: step.URI, Method, Body: GetBody(), Headers: GetHeaders()} + Templater.Apply *)
Definition http_render (d : hdef) (v : vars_c) : option hparts :=
  match rspec (h_uri d) v with
  | None => None
  | Some url =>
      match render_meta_spec tmpl_c vars_c parse_t_c exec_t_c (h_headers d) v with
      | None => None
      | Some hs =>
          match h_body d with
          | None => Some (mkP (h_method d) url hs None)
          | Some b => match rspec b v with Some rb => Some (mkP (h_method d) url hs (Some rb)) | None => None end
          end
      end
  end.

Fixpoint hsteps_of (defs : list hdef) (idx : list nat) : list hdef :=
  match idx with
  | [] => []
  | i :: r => match nth_error defs i with Some d => d :: hsteps_of defs r | None => hsteps_of defs r end
  end.

(* outcome of one step: delivered and accepted / delivered but a postprocessor rejected the answer
   (one sample with code 0, the shot stops) / templates failed (nothing sent, one sample, code 0) *)
Inductive hout := HOk (p : hparts) | HPostFail (p : hparts) | HTmplErr.

Fixpoint starts_with (s pre : gbytes) : bool :=
  match pre, s with
  | [], _ => true
  | a :: pr, b :: sr => N.eqb a b && starts_with sr pr
  | _ :: _, [] => false
  end.
Fixpoint has_sub (s sub : gbytes) : bool :=
  starts_with s sub || match s with [] => false | _ :: r => has_sub r sub end.

(* the in-process target answers "result":"bad" exactly when the request URI contains "nok" *)
Definition b_nok : gbytes := [110;111;107]%N.
Definition answer_bad (p : hparts) : bool := has_sub (p_url p) b_nok.

(* steps of one shot with their variables and the [next] counter after each of them *)
Fixpoint http_shot (users : list (gbytes * gbytes)) (ctr : nat) (cur : vars_c) (sts : list hdef)
  : list hout * nat :=
  match sts with
  | [] => ([], ctr)
  | d :: r =>
      let '(v, ctr1) := if h_pp d then (nth_error users (Nat.modulo ctr (length users)), S ctr) else (cur, ctr) in
      match http_render d v with
      | None => ([HTmplErr], ctr1)
      | Some p =>
          if h_assert d && answer_bad p then ([HPostFail p], ctr1)
          else let '(rest, c2) := http_shot users ctr1 v r in (HOk p :: rest, c2)
      end
  end.

Fixpoint http_spec (users : list (gbytes * gbytes)) (defs : list hdef) (scens : list (gbytes * list nat))
         (ctr : nat) (j : nat) (order : list nat) : list (list hout) :=
  match order with
  | [] => []
  | _ :: rest =>
      match nth_error scens (Nat.modulo j (length scens)) with
      | Some (_, idx) =>
          let '(os, ctr1) := http_shot users ctr None (hsteps_of defs idx) in
          os :: http_spec users defs scens ctr1 (S j) rest
      | None => [] :: http_spec users defs scens ctr (S j) rest
      end
  end.
