(* Model of the JSON decode provider as a component of a run (property C05: "a run always terminates ... it succeeds only
   if every pool ran out of ammo ... if the ammo provider ... fails, the run returns an error that carries that cause -
   a component error is never swallowed into a successful result"):

   core/provider/json.go  NewJSONAmmoDecoder / JSONAmmoDecoder.Decode

       errTrackingReader: n, err = r.Read(p)
                          if n > 0 { return n, nil }            -- an error that comes WITH data is not noted
                          if err != nil { readError = err }
                          return n, err
       Decode: iter.ReadVal(ammo); if iter.Error != nil { if readError != nil { return readError }; return iter.Error }

   core/provider/decoder.go  DecodeProvider.Run: the source is wrapped into the empty-pass guard (passGuard: a rewind
   after a pass in which no ammo was decoded reports io.EOF; its Read turns (n > 0, io.EOF) into (n, nil)) whenever it can be sought, whatever `passes` says, and read
   through lib/ioutil2 MultiPassReader (rewinds at io.EOF while passes = 0 or fewer than `passes` passes are done; a source
   that returned no data at all is not rewound); the loop `for ; limit <= 0 || ammoNum < limit; ammoNum++`:
   io.EOF -> "Ammo finished", return nil; another error -> "ammo #n decode failed"; otherwise the ammo is handed out.

   Part A is one pass at the granularity of the source's reads (any chunking; the last read may carry io.EOF together with
   its data, as gzip readers / http bodies / iotest.DataErrReader do); part B is the sequence of passes over a source
   that can be sought and reports its end on a read of its own (files, strings.Reader).  Executable definitions only. *)
From Coq Require Import List Arith Bool.
Import ListNotations.

Inductive jitem := JiAmmo | JiBlank | JiBad.   (* an object that decodes / white space / an object that does not decode *)
Inductive jdres := JdNil | JdFail | JdOutOfFuel.

Record jdvariant := {
  jv_record_with_data : bool;    (* the tracking reader notes the source's error also when it came with data *)
  jv_guard : nat -> bool;        (* passes -> the empty-pass guard is installed on a source that can be sought *)
  jv_defers_eof : bool           (* passGuard.Read hands data that comes together with io.EOF out WITHOUT the io.EOF: the
                                    end of the source is reported by the next read (repair c78f643) *)
}.
Definition jd_tree : jdvariant := {| jv_record_with_data := false; jv_guard := fun _ => true; jv_defers_eof := true |}.
Definition jd_current : jdvariant := jd_tree.
(* the plausible edits the model distinguishes *)
Definition jd_notes_error_with_data : jdvariant :=
  {| jv_record_with_data := true; jv_guard := fun _ => true; jv_defers_eof := true |}.
Definition jd_guard_for_several_passes : jdvariant :=
  {| jv_record_with_data := false; jv_guard := fun p => 1 <? p; jv_defers_eof := true |}.
(* the tree before the repair: the guard had no Read of its own *)
Definition jd_guard_without_read : jdvariant :=
  {| jv_record_with_data := false; jv_guard := fun _ => true; jv_defers_eof := false |}.

Definition jd_lim_reached (limit d : nat) : bool := (0 <? limit) && (limit <=? d).

(* ---- part A: one pass ---- *)

(* the iterator works through what it has buffered; rerr: a read error has been noted *)
Fixpoint jd_scan (limit : nat) (rerr : bool) (b : list jitem) (d : nat) : option jdres * nat :=
  match b with
  | [] => (None, d)
  | JiBlank :: r => jd_scan limit rerr r d
  | JiAmmo :: r => if jd_lim_reached limit (S d) then (Some JdNil, S d) else jd_scan limit rerr r (S d)
  | JiBad :: _ => (Some (if rerr then JdNil else JdFail), d)     (* Decode prefers the noted read error: io.EOF *)
  end.

Definition jd_is_last {A : Type} (r : list A) : bool := match r with [] => true | _ => false end.

(* rem: the reads still to come (each hands out data); eofwl: the last of them carries io.EOF with its data *)
Fixpoint jd_pass (v : jdvariant) (limit : nat) (eofwl : bool) (rem : list (list jitem)) (rerr : bool) (d : nat) : jdres * nat :=
  match rem with
  | [] => (JdNil, d)                 (* Read = (0, io.EOF): noted, returned by Decode, "Ammo finished" *)
  | c :: r =>
      let rerr' := rerr || (jv_record_with_data v && eofwl && jd_is_last r) in
      match jd_scan limit rerr' c d with
      | (Some res, d') => (res, d')
      | (None, d') => jd_pass v limit eofwl r rerr' d'
      end
  end.

(* ---- part B: the passes over a source that can be sought (a ammo per pass, nothing that does not decode) ---- *)
(* pc: passes done, d: ammo decoded, db: the guard's "decoded at the previous rewind";
   pend: how many of the pass's ammo are handed out but not yet decoded at the moment the source reports its end -- 0 for
   a source that reports its end on a read of its own (files, strings.Reader: everything handed out before has been
   decoded when the next read is made); a for a source that hands ALL its data out in one read together with io.EOF
   (MultiPassReader would rewind inside that very read, the guard compare before any ammo of the pass is decoded --
   unless the guard's own Read keeps the io.EOF back: jv_defers_eof). *)
Fixpoint jd_passes (fuel : nat) (v : jdvariant) (passes limit a pend : nat) (nonempty : bool) (pc d db : nat) : jdres * nat :=
  match fuel with
  | 0 => (JdOutOfFuel, d)
  | S f =>
      if jd_lim_reached limit (d + a) then (JdNil, limit)
      else
        let d' := d + a in
        let pc' := S pc in
        (* what the guard reads in *decoded when it is asked to rewind: with its own Read the end of the source comes on a
           read of its own, everything handed out before has been decoded *)
        let seen := d' - (if jv_defers_eof v then 0 else pend) in
        if negb nonempty then (JdNil, d')                              (* a source without data is not rewound *)
        else if (passes =? 0) || (pc' <? passes) then
          if jv_guard v passes && (seen =? db) then (JdNil, d')        (* "nothing decoded in this pass": no rewind *)
          else jd_passes f v passes limit a pend nonempty pc' d' seen
        else (JdNil, d')
  end.

(* ---- specification side ---- *)
Definition ji_bad (i : jitem) : bool := match i with JiBad => true | _ => false end.
Definition ji_ammo (i : jitem) : bool := match i with JiAmmo => true | _ => false end.

(* something in the data does not decode: once it is handed to the provider (and neither a limit nor the schedules end
   the reading before), the provider has failed *)
Definition jd_spec_fails (l : list jitem) : bool := existsb ji_bad l.

Fixpoint jd_ammo_before_bad (l : list jitem) : nat :=
  match l with
  | [] => 0
  | JiAmmo :: r => S (jd_ammo_before_bad r)
  | JiBlank :: r => jd_ammo_before_bad r
  | JiBad :: _ => 0
  end.

Definition jd_count_ammo (l : list jitem) : nat := length (filter ji_ammo l).

(* what data and configuration ask for when nothing is broken (passes = 0 with ammo and no limit never ends: the caller
   of this function excludes it) *)
Definition jd_spec_delivered (seekable : bool) (passes limit : nat) (l : list jitem) : nat :=
  let a := jd_count_ammo l in
  let total := if seekable then (if passes =? 0 then (if a =? 0 then 0 else limit) else passes * a) else a in
  if 0 <? limit then Nat.min limit total else total.

(* the data of the correspondence cases: k objects (white space after the first), the broken element, m more *)
Inductive jpoison := JpNone | JpBad | JpBlank.

Definition jd_items (k m : nat) (po : jpoison) : list jitem :=
  let head := match k with 0 => [] | S k' => JiAmmo :: JiBlank :: repeat JiAmmo k' end in
  match po with
  | JpNone => head ++ repeat JiAmmo m
  | JpBad => head ++ JiBad :: repeat JiAmmo m
  | JpBlank => repeat JiBlank k
  end.
