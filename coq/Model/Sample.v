(* Model of sample result coding (property C10): gRPC status mapping (table regenerated
   from the source in Gen/GrpcStatusGen.v), autotag, tag choice, errno extraction.
   Executable definitions only. *)
From Coq Require Import List NArith ZArith Bool.
From PV Require Import Lib.Table.
Import ListNotations.
Local Open Scope N_scope.

Definition byte := N.
Definition bytes := list N.
Definition slash : N := 47.

(* components/guns/http/base.go: autotag(depth, URL): scan the path; stop at the
   (depth+1)-th '/' ; return path[:ind]. *)
Fixpoint autotag_go (depth : nat) (path : bytes) : bytes :=
  match path with
  | [] => []
  | c :: r =>
      if N.eqb c slash then
        match depth with
        | O => []
        | S d => c :: autotag_go d r
        end
      else c :: autotag_go depth r
  end.

(* Specification side: split at '/', keep the first depth+1 pieces, join with '/'. *)
Fixpoint split_on (sep : N) (acc : bytes) (s : bytes) : list bytes :=
  match s with
  | [] => [rev acc]
  | c :: r => if N.eqb c sep then rev acc :: split_on sep [] r else split_on sep (c :: acc) r
  end.

Fixpoint join_with (sep : N) (l : list bytes) : bytes :=
  match l with
  | [] => []
  | [x] => x
  | x :: r => x ++ sep :: join_with sep r
  end.

Definition autotag_spec (depth : nat) (path : bytes) : bytes :=
  join_with slash (firstn (S depth) (split_on slash [] path)).

(* Tag choice in BaseGun.Shoot. Tags are byte strings; AddTag joins with '|' (124). *)
Definition add_tag (tags tag : bytes) : bytes :=
  match tags with
  | [] => tag
  | _ => tags ++ 124 :: tag
  end.

Definition empty_tag : bytes := [95;95;69;77;80;84;89;95;95]. (* "__EMPTY__", bridged to Gen *)

Record autotag_cfg := { at_enabled : bool; at_depth : nat; at_notagonly : bool }.

Definition is_nil (b : bytes) : bool := match b with [] => true | _ => false end.

Definition shoot_tags (cfg : autotag_cfg) (ammo_tag path : bytes) : bytes :=
  let t1 :=
    if at_enabled cfg && (negb (at_notagonly cfg) || is_nil ammo_tag)
    then add_tag ammo_tag (autotag_go (at_depth cfg) path)
    else ammo_tag in
  if is_nil t1 then add_tag t1 empty_tag else t1.

(* Error shapes seen by getErrno (core/aggregator/netsample/sample.go). *)
Inductive nerr :=
| EOp (e : nerr)            (* *net.OpError{Err: e} *)
| ESys (e : nerr)           (* *os.SyscallError{Err: e} *)
| EUrl (e : nerr)           (* *url.Error{Err: e} *)
| EWrap (e : nerr)          (* pkg/errors wrapper (errors.Cause unwraps) *)
| EUnder (e : nerr)         (* a value with an Underlying() error method (stackerr.Error and the like) *)
| EErrno (n : N)            (* syscall.Errno *)
| EOther.                   (* anything else *)

Definition proto_code_error : N := 999.

(* getErrno first follows Underlying() as long as the value has one, then errors.Cause follows
   Cause() as long as the value has one - in this order, each at the top of the value only *)
Fixpoint strip_under (e : nerr) : nerr :=
  match e with EUnder e' => strip_under e' | _ => e end.
Fixpoint strip_cause (e : nerr) : nerr :=
  match e with EWrap e' => strip_cause e' | _ => e end.
Definition strip_wrap (e : nerr) : nerr := strip_cause (strip_under e).

(* After errors.Cause: loop over OpError/SyscallError/url.Error; Errno n -> n; else 999.
   A pkg/errors wrapper or an Underlying() value below a net wrapper, and an Underlying()
   value below a pkg/errors wrapper, are not unwrapped again (default branch). *)
Fixpoint errno_loop (e : nerr) : N :=
  match e with
  | EOp e' | ESys e' | EUrl e' => errno_loop e'
  | EErrno n => n
  | _ => proto_code_error
  end.

(* [timeout] = "the error value implements net.Error and its Timeout() is true". *)
Definition get_errno (timeout : bool) (e : nerr) : N :=
  if timeout then 110 else errno_loop (strip_wrap e).

(* Atomic id source: fetch-add. ids handed out from a start value over n acquisitions. *)
Fixpoint ids_from (start : N) (n : nat) : list N :=
  match n with O => [] | S k => start :: ids_from (start + 1) k end.
