(* Concurrent semantics of one compositeSchedule (core/schedule/composite.go) whose children are
   atomic objects: interleavings of the atomic sections delimited by its RWMutex.

   A child operation ([s_next]/[s_left]/[s_start] of Model/SchedTree.v) is one atomic action:
   for a leaf this is the single atomic counter / clock operation of do_at.go / unlilmited.go;
   for a nested composite child it is an ASSUMPTION (the child is treated as a linearizable
   object), see C02_conc_nested_partial.

   Sections (every one takes the clock value [now] it reads as an input):
     sec_next0   RLock; tx, ok = scheds[0].Next(); started=true; len(scheds); RUnlock
     sec_next1   Lock; re-check len; [startNext(tx)]; scheds[0].Next(); Unlock
     sec_left0   RLock; len, leftAfter[0], scheds[0].Left(); RUnlock; started.Load(); arithmetic
     sec_left1   Lock; re-check len; scheds[0].Next() must fail; startNext; Unlock
   "return s.Next()" / "return s.Left()" restart the operation (pc back to PIdle, the operation
   stays at the head of the thread's todo list).
   Executable definitions only. *)
From Coq Require Import List ZArith Bool Arith.
From PV Require Import Model.SchedTree.
Import ListNotations.
Local Open Scope Z_scope.

Inductive pc : Type :=
| PIdle                      (* between operations, or about to (re)start the current one *)
| N1 (tx : Z) (k : nat)      (* Next: head exhausted at tx, k = len(scheds) seen under the read lock; wants the write lock *)
| L1 (k : nat).              (* Left: head empty, remainder unknown, k = len(scheds) seen; wants the write lock *)

(* outcome of a section: the thread continues at a pc, or its operation returns *)
Inductive outcome : Type :=
| Goto (p : pc)
| RetN (t : Z) (ok : bool)
| RetL (k : Z).

Definition comp_len (c : sched) : nat := match c with Comp l _ _ => length l | _ => 0%nat end.

(* startNext(tx) *)
Definition shift (c : sched) (tx : Z) : res sched :=
  match c with
  | Comp (_ :: h2 :: r2) la cs => do h2s <- s_start tx h2 ;; Ok (Comp (h2s :: r2) (tl la) cs)
  | _ => Panic PIndex
  end.

Definition sec_next0 (fuel : nat) (now : Z) (c : sched) : res (sched * outcome) :=
  match c with
  | Comp (h :: r) la _ =>
      do x <- s_next fuel now h ;;
      let '(h', tx, ok) := x in
      let c' := Comp (h' :: r) la true in
      if ok then Ok (c', RetN tx true)
      else if (length (h :: r) =? 1)%nat then Ok (c', RetN tx false)
      else Ok (c', Goto (N1 tx (length (h :: r))))
  | _ => Panic PIndex
  end.

Definition sec_next1 (fuel : nat) (now : Z) (c : sched) (tx : Z) (k : nat) : res (sched * outcome) :=
  let kn := comp_len c in
  if (kn <? k)%nat then
    (* somebodyStartedNextBeforeUs *)
    match c with
    | Comp (h :: r) la cs =>
        do x <- s_next fuel now h ;;
        let '(h', tx2, ok2) := x in
        let c' := Comp (h' :: r) la cs in
        if ok2 || (kn =? 1)%nat then Ok (c', RetN tx2 ok2) else Ok (c', Goto PIdle)
    | _ => Panic PIndex
    end
  else
    do c1 <- shift c tx ;;
    match c1 with
    | Comp (h :: r) la cs =>
        do x <- s_next fuel now h ;;
        let '(h', tx2, ok2) := x in
        let c' := Comp (h' :: r) la cs in
        if negb ok2 && (1 <? kn)%nat then Ok (c', Goto PIdle) else Ok (c', RetN tx2 ok2)
    | _ => Panic PIndex
    end.

Definition sec_left0 (fuel : nat) (now : Z) (c : sched) : res (sched * outcome) :=
  match c with
  | Comp (h :: r) (la0 :: la') cs =>
      do x <- s_left fuel now h ;;
      let '(h', lft) := x in
      let c' := Comp (h' :: r) (la0 :: la') cs in
      let k := length (h :: r) in
      if (k =? 1)%nat then Ok (c', RetL lft)
      else if lft =? 0 then
        if 0 <=? la0 then Ok (c', RetL la0)
        else if negb cs then Ok (c', RetL (-1))
        else Ok (c', Goto (L1 k))
      else if (lft <? 0) || (la0 <? 0) then Ok (c', RetL (-1))
      else Ok (c', RetL (lft + la0))
  | _ => Panic PIndex
  end.

Definition sec_left1 (fuel : nat) (now : Z) (c : sched) (k : nat) : res (sched * outcome) :=
  if (comp_len c =? k)%nat then
    match c with
    | Comp (h :: r) la cs =>
        do x <- s_next fuel now h ;;
        let '(h', fin, ok) := x in
        if ok then Panic PNotFinished
        else do c1 <- shift (Comp (h' :: r) la cs) fin ;; Ok (c1, Goto PIdle)
    | _ => Panic PIndex
    end
  else Ok (c, Goto PIdle).

(* ---------------------------------------------------------------- threads *)
Record thread : Type := { t_pc : pc; t_todo : list op; t_hist : list obs }.

(* one section of a thread; None = the thread has nothing to do *)
Definition thread_section (fuel : nat) (now : Z) (c : sched) (th : thread) : option (res (sched * outcome)) :=
  match t_todo th with
  | [] => None
  | o :: _ =>
      match t_pc th, o with
      | PIdle, ONext => Some (sec_next0 fuel now c)
      | PIdle, OLeft => Some (sec_left0 fuel now c)
      | N1 tx k, ONext => Some (sec_next1 fuel now c tx k)
      | L1 k, OLeft => Some (sec_left1 fuel now c k)
      | _, _ => None
      end
  end.

Definition thread_after (th : thread) (out : outcome) : thread :=
  match out with
  | Goto p => {| t_pc := p; t_todo := t_todo th; t_hist := t_hist th |}
  | RetN t ok => {| t_pc := PIdle; t_todo := tl (t_todo th); t_hist := t_hist th ++ [RNext t ok] |}
  | RetL k => {| t_pc := PIdle; t_todo := tl (t_todo th); t_hist := t_hist th ++ [RLeft k] |}
  end.

Fixpoint upd {A} (i : nat) (x : A) (l : list A) : list A :=
  match l, i with
  | [], _ => []
  | _ :: r, O => x :: r
  | y :: r, S j => y :: upd j x r
  end.

Record gstate : Type := { g_c : sched; g_lo : Z; g_threads : list thread }.

(* one step of the whole system: any thread, any clock value not before the last one *)
Inductive gstep (fuel : nat) : gstate -> gstate -> Prop :=
| gstep_intro g i th now c' out :
    nth_error (g_threads g) i = Some th -> g_lo g <= now ->
    thread_section fuel now (g_c g) th = Some (Ok (c', out)) ->
    gstep fuel g {| g_c := c'; g_lo := now; g_threads := upd i (thread_after th out) (g_threads g) |}.

(* a step that panics or runs out of fuel *)
Definition gstuck (fuel : nat) (g : gstate) : Prop :=
  exists i th now, nth_error (g_threads g) i = Some th /\ g_lo g <= now /\
    match thread_section fuel now (g_c g) th with
    | Some (Ok _) | None => False
    | Some _ => True
    end.
