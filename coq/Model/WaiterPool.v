(* Model of an instance POOL for property C04: how the pool's configuration reaches its instances
   (core/engine/engine.go, instancePool.startInstances / buildNewInstanceSchedule) and what the
   instances of a pool do with the tokens of the schedule -- every instance with a schedule of its
   own (rps-per-instance: true) or all instances drawing from one shared schedule.
   Executable definitions only; built on the one-instance model of Model/Waiter.v. *)
From Coq Require Import List ZArith Bool.
From PV Require Import Model.Waiter.
Import ListNotations.
Local Open Scope Z_scope.

(* The two boolean options of engine.InstancePoolConfig. *)
Record pool_cfg := {
  p_discard : bool;        (* discard_overflow *)
  p_per_instance : bool    (* rps-per-instance *)
}.

(* startInstances: instanceSharedDeps{ ..., discardOverflow: p.DiscardOverflow } -- the flag every
   instance of the pool runs with is the configured one, whatever the kind of schedule.
   (bridged to the expression re-read from the source: Gen/PoolDeps_bridge.v) *)
Definition instance_discard (p : pool_cfg) : bool := p_discard p.

(* buildNewInstanceSchedule: with rps-per-instance the constructor is called once per instance,
   otherwise once for the pool. *)
Definition schedules_built (p : pool_cfg) (instances : nat) : nat :=
  if p_per_instance p then instances else 1%nat.

(* ---------------------------------------------------------------------------------------- *)
(* One instance, one token (idealised timeline as in run_inst: the instance enters Wait at the
   instant it became free). *)
Record istate := {
  is_free : Z;          (* the instant the instance is free to take its next token *)
  is_w : wstate;        (* its Waiter *)
  is_durs : list Z      (* the durations of its future Shoot calls *)
}.

Definition step_inst (v : wvariant) (d : bool) (s : istate) (next : Z) : shot * istate :=
  let enter := is_free s in
  let c := {| c_ctx_done := false; c_tok := Some next; c_now := enter; c_cancel_in_sleep := false;
              c_wake := next |} in
  let '(st', o) := wait v (is_w s) c in
  let ret := return_lower enter c o in
  match decide d (is_slow_down st') with
  | Fire =>
      ({| s_tok := next; s_pickup := enter; s_entry := ret; s_dec := Fire |},
       {| is_free := ret + match is_durs s with x :: _ => x | [] => 0 end; is_w := st'; is_durs := tl (is_durs s) |})
  | Discard =>
      ({| s_tok := next; s_pickup := enter; s_entry := ret; s_dec := Discard |},
       {| is_free := ret; is_w := st'; is_durs := is_durs s |})
  end.

(* ---------------------------------------------------------------------------------------- *)
(* rps-per-instance: the instance that starts at [start] owns a copy of the profile (token offsets
   [offs] from the first Next(), i.e. from the instance's start). *)
Definition own_tokens (start : Z) (offs : list Z) : list (Z * Z) := map (fun o => (0, start + o)) offs.

Definition run_own (v : wvariant) (p : pool_cfg) (offs : list Z) (start : Z) (durs : list Z) : list shot :=
  run_inst v (instance_discard p) wstate_init start (own_tokens start offs) durs.

(* ---------------------------------------------------------------------------------------- *)
(* Shared schedule: the tokens are handed out in order, each to the instance that asks first, i.e.
   the one that is free earliest (the first of them on a tie). *)
Fixpoint argmin_from (best : nat) (bt : Z) (k : nat) (l : list istate) : nat :=
  match l with
  | [] => best
  | s :: r => if is_free s <? bt then argmin_from k (is_free s) (S k) r else argmin_from best bt (S k) r
  end.
Definition argmin (l : list istate) : nat :=
  match l with [] => O | s :: r => argmin_from O (is_free s) 1%nat r end.

Fixpoint update {A} (l : list A) (k : nat) (x : A) : list A :=
  match l, k with
  | [], _ => []
  | _ :: r, O => x :: r
  | y :: r, S k' => y :: update r k' x
  end.

(* (taking instance, shot) per token, in token order; a pool without instances fires nothing *)
Fixpoint run_shared (v : wvariant) (d : bool) (sts : list istate) (toks : list Z) : list (nat * shot) :=
  match toks with
  | [] => []
  | next :: r =>
      let k := argmin sts in
      match nth_error sts k with
      | None => []
      | Some s =>
          let '(sh, s') := step_inst v d s next in
          (k, sh) :: run_shared v d (update sts k s') r
      end
  end.

(* Shared schedule, ANY hand-out: [assign] says which instance takes the k-th token. *)
Fixpoint taken_by {A} (i : nat) (assign : list nat) (toks : list A) : list A :=
  match assign, toks with
  | a :: ar, t :: tr => if Nat.eqb a i then t :: taken_by i ar tr else taken_by i ar tr
  | _, _ => []
  end.

(* ---------------------------------------------------------------------------------------- *)
(* The pool: instances starting at [starts] (the startup schedule), the profile's token offsets,
   per instance the durations of its Shoot calls.  Result: (instance, shot) -- grouped by instance
   for own schedules, in token order for the shared one (which starts at its first Next(), i.e.
   when the first instance starts). *)
Definition init_states (starts : list Z) (durs : list (list Z)) : list istate :=
  map (fun sd => {| is_free := fst sd; is_w := wstate_init; is_durs := snd sd |})
      (combine starts (durs ++ repeat [] (length starts - length durs))).

Fixpoint tag_own (v : wvariant) (p : pool_cfg) (offs : list Z) (k : nat) (sts : list istate) : list (nat * shot) :=
  match sts with
  | [] => []
  | s :: r => map (pair k) (run_own v p offs (is_free s) (is_durs s)) ++ tag_own v p offs (S k) r
  end.

Definition run_pool (v : wvariant) (p : pool_cfg) (starts : list Z) (offs : list Z) (durs : list (list Z))
  : list (nat * shot) :=
  let sts := init_states starts durs in
  if p_per_instance p then tag_own v p offs O sts
  else run_shared v (instance_discard p) sts (map (fun o => hd 0 starts + o) offs).

(* ---------------------------------------------------------------------------------------- *)
(* The state every instance is left in when the schedule is exhausted (is_free = the instant the
   instance is done: the length of the run). *)
Fixpoint run_steps (v : wvariant) (d : bool) (s : istate) (toks : list Z) : list shot * istate :=
  match toks with
  | [] => ([], s)
  | next :: r =>
      let '(sh, s') := step_inst v d s next in
      let '(l, s'') := run_steps v d s' r in (sh :: l, s'')
  end.

Fixpoint shared_final (v : wvariant) (d : bool) (sts : list istate) (toks : list Z) : list istate :=
  match toks with
  | [] => sts
  | next :: r =>
      match nth_error sts (argmin sts) with
      | None => sts
      | Some s => shared_final v d (update sts (argmin sts) (snd (step_inst v d s next))) r
      end
  end.

Definition pool_final (v : wvariant) (p : pool_cfg) (starts : list Z) (offs : list Z) (durs : list (list Z))
  : list istate :=
  let sts := init_states starts durs in
  if p_per_instance p then
    map (fun s => snd (run_steps v (instance_discard p) s (map (fun o => is_free s + o) offs))) sts
  else shared_final v (instance_discard p) sts (map (fun o => hd 0 starts + o) offs).

(* ---------------------------------------------------------------------------------------- *)
(* Judging a run against the CONFIGURED profile without knowing which instance took which token:
   at any instant no more requests have been started (fired or reported discarded) than tokens
   of the profile were due.  [toks] = the configured token times, [ats] = the instants of the
   shots. *)
Definition due_by (x : Z) (l : list Z) : nat := length (filter (fun t => t <=? x) l).
Definition never_ahead_b (toks ats : list Z) : bool :=
  forallb (fun x => (due_by x ats <=? due_by x toks)%nat) ats.
