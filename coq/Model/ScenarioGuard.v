(* The entry point both scenario front-ends share (property C16; components/providers/scenario/config/decode.go):

     YAML:  ParseAmmoConfig   = DecodeMap (text)
     HCL:   ConvertHCLToAmmo  = DecodeMap (yaml.Marshal (AmmoHCL))

   DecodeMap = yaml.Unmarshal, config.DecodeAndValidate (the C17 decoder, Model/ConfigDecode.v) and the semantic guard
   on the decoded configuration: no scenario may have a negative weight.  The decoder is a Section variable: the
   statements about the guard hold for any decoder.  Executable definitions only. *)
From Coq Require Import List NArith ZArith Bool.
From PV Require Import Model.ConfigDecode Model.TagTables.
Import ListNotations.
Local Open Scope N_scope.

Definition k_scenarios : str := [115;99;101;110;97;114;105;111;115].
Definition k_weight : str := [119;101;105;103;104;116].

(* schema and value of the field `key` of a decoded struct (a struct value lists the values of flat_fields in order;
   Go field names are matched without case, as mapstructure does) *)
Fixpoint field_at (key : str) (ffs : list fld) (cs : list cval) : option (schema * cval) :=
  match ffs, cs with
  | f :: ffs', c :: cs' => if fold_eqb (f_key f) key then Some (f_schema f, c) else field_at key ffs' cs'
  | _, _ => None
  end.

Definition struct_field (key : str) (s : schema) (c : cval) : option (schema * cval) :=
  match c with CStruct cs => field_at key (flat_fields s) cs | _ => None end.

Definition weight_of (es : schema) (sc : cval) : list Z :=
  match struct_field k_weight es sc with Some (_, CInt z) => [z] | _ => [] end.

(* for _, sc := range ammoCfg.Scenarios { sc.Weight } *)
Definition scenario_weights (s : schema) (c : cval) : list Z :=
  match struct_field k_scenarios s c with
  | Some (SSlice es, CSlice l) => flat_map (weight_of es) l
  | _ => []
  end.

Definition weights_ok (s : schema) (c : cval) : bool := forallb (fun z => Z.leb 0 z) (scenario_weights s c).

Section Frontends.
Variable dv : value -> res cval.      (* config.DecodeAndValidate(data, &AmmoConfig{}) *)
Variable sch : schema.                (* the schema of config.AmmoConfig *)

Definition decode_map (t : value) : res cval :=
  match dv t with
  | Ok c => if weights_ok sch c then Ok c else Err EValidate
  | r => r
  end.

(* the YAML front-end on the tree of the document; the HCL front-end on the struct gohcl filled *)
Definition read_yaml (t : value) : res cval := decode_map t.
Definition read_hcl (root : list hfield) (hv : list hval) : res cval := decode_map (marshal_by_tags root hv).

End Frontends.
