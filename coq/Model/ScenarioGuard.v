(* The entry point both scenario front-ends share (property C16; components/providers/scenario/config/decode.go):

     YAML:  ParseAmmoConfig   = DecodeMap (text)
     HCL:   ConvertHCLToAmmo  = DecodeMap (yaml.Marshal (AmmoHCL))

   DecodeMap = yaml.Unmarshal, config.DecodeAndValidate (the C17 decoder, Model/ConfigDecode.v) and the semantic guard
   on the decoded configuration: no scenario may have a negative weight.  The decoder is a Section variable: the
   statements about the guard hold for any decoder.  Executable definitions only. *)
From Coq Require Import List NArith ZArith Bool.
From PV Require Import Model.ConfigDecode Model.TagTables.
Import ListNotations.
Local Open Scope N_scope.

Definition k_scenarios : str := [115;99;101;110;97;114;105;111;115].
Definition k_weight : str := [119;101;105;103;104;116].

(* schema and value of the field `key` of a decoded struct (a struct value lists the values of flat_fields in order;
   Go field names are matched without case, as mapstructure does) *)
Fixpoint field_at (key : str) (ffs : list fld) (cs : list cval) : option (schema * cval) :=
  match ffs, cs with
  | f :: ffs', c :: cs' => if fold_eqb (f_key f) key then Some (f_schema f, c) else field_at key ffs' cs'
  | _, _ => None
  end.

Definition struct_field (key : str) (s : schema) (c : cval) : option (schema * cval) :=
  match c with CStruct cs => field_at key (flat_fields s) cs | _ => None end.

Definition weight_of (es : schema) (sc : cval) : list Z :=
  match struct_field k_weight es sc with Some (_, CInt z) => [z] | _ => [] end.

(* for _, sc := range ammoCfg.Scenarios { sc.Weight } *)
Definition scenario_weights (s : schema) (c : cval) : list Z :=
  match struct_field k_scenarios s c with
  | Some (SSlice es, CSlice l) => flat_map (weight_of es) l
  | _ => []
  end.

Definition weights_ok (s : schema) (c : cval) : bool := forallb (fun z => Z.leb 0 z) (scenario_weights s c).

Section Frontends.
Variable dv : value -> res cval.      (* config.DecodeAndValidate(data, &AmmoConfig{}) *)
Variable sch : schema.                (* the schema of config.AmmoConfig *)

Definition decode_map (t : value) : res cval :=
  match dv t with
  | Ok c => if weights_ok sch c then Ok c else Err EValidate
  | r => r
  end.

(* the YAML front-end on the tree of the document; the HCL front-end on the struct gohcl filled *)
Definition read_yaml (t : value) : res cval := decode_map t.
Definition read_hcl (root : list hfield) (hv : list hval) : res cval := decode_map (marshal_by_tags root hv).

End Frontends.

(* ---- the constructor of the assert/response postprocessor (import/import.go NewAssertResponsePostprocessor ->
   postprocessor.AssertResponse.Validate): a `size` must have a non-negative `val` and one of six operators.  It runs
   inside the common decoder (plugin construction), on whatever tree the front-end hands over; read here off the
   tree with the decoder's own key lookup. *)
Definition k_reqs : str := [114;101;113;117;101;115;116;115].
Definition k_postprocessors : str := [112;111;115;116;112;114;111;99;101;115;115;111;114;115].
Definition k_size : str := [115;105;122;101].
Definition k_val : str := [118;97;108].
Definition k_op : str := [111;112].
Definition s_assert_response : str := [97;115;115;101;114;116;47;114;101;115;112;111;110;115;101].
Definition size_ops : list str := [[101;113]; [61]; [108;116]; [60]; [103;116]; [62]].   (* eq = lt < gt > *)

Definition tree_get (k : str) (kvs : list (str * value)) : option value := option_map snd (find_key k kvs).

Definition size_ok (sz : value) : bool :=
  match sz with
  | VMap kvs =>
      match tree_get k_val kvs with Some (VInt z) => Z.leb 0 z | _ => true end &&
      match tree_get k_op kvs with
      | Some (VStr s) => mem_str s size_ops
      | Some VNull | None => false        (* Op == "" is not an operator *)
      | Some _ => true                    (* left to the decoder *)
      end
  | _ => true
  end.

Definition post_ok (p : value) : bool :=
  match p with
  | VMap kvs =>
      match tree_get s_type kvs with
      | Some (VStr t) =>
          if str_eqb t s_assert_response
          then match tree_get k_size kvs with Some sz => size_ok sz | None => true end
          else true
      | _ => true
      end
  | _ => true
  end.

Definition request_ok (r : value) : bool :=
  match r with
  | VMap kvs => match tree_get k_postprocessors kvs with Some (VList l) => forallb post_ok l | _ => true end
  | _ => true
  end.

Definition ctor_checks (t : value) : bool :=
  match t with
  | VMap kvs => match tree_get k_reqs kvs with Some (VList l) => forallb request_ok l | _ => true end
  | _ => true
  end.

(* the decoder with that constructor *)
Definition with_ctor (dv : value -> res cval) (t : value) : res cval :=
  if ctor_checks t then dv t else match dv t with Ok _ => Err ECtor | r => r end.

(* ---- format selection (config.go ReadAmmoConfig): by the lower-cased base name of the file ------------------------ *)
Inductive format := FHcl | FYaml.

Definition ext_hcl : str := [46;104;99;108].
Definition ext_yaml : str := [46;121;97;109;108].
Definition ext_yml : str := [46;121;109;108].

Definition has_suffix (s suf : str) : bool :=
  match prefix_of (rev suf) (rev s) with Some _ => true | None => false end.

(* afero's FileInfo.Name(): what follows the last '/' *)
Fixpoint base_name (acc : str) (s : str) : str :=
  match s with
  | [] => acc
  | c :: r => if c =? 47 then base_name [] r else base_name (acc ++ [c]) r
  end.

Definition format_of (name : str) : option format :=
  let l := lower (base_name [] name) in
  if has_suffix l ext_hcl then Some FHcl
  else if has_suffix l ext_yaml || has_suffix l ext_yml then Some FYaml
  else None.

(* ReadAmmoConfig on a file that exists: the description as the YAML reader sees it (tree) / as gohcl fills it (hv);
   a file of another extension is refused *)
Definition read_file (dv : value -> res cval) (sch : schema) (root : list hfield)
           (name : str) (t : value) (hv : list hval) : res cval :=
  match name with
  | [] => Err EValidate
  | _ =>
      match format_of name with
      | Some FHcl => read_hcl dv sch root hv
      | Some FYaml => read_yaml dv sch t
      | None => Err EUnsupported
      end
  end.
