(* Model for property C09, round 6: the "[key: value]" header line syntax shared by the provider's `headers` option and the
   in-file header lines of the uri / uripost formats — util.DecodeHeader (components/providers/http/util/request.go).
   Executable definitions only.

   strings.TrimSpace is modelled on ASCII white space (TAB LF VT FF CR SPACE); Go also trims the Unicode spaces U+0085, U+00A0,
   U+1680, U+2000.. — multi-byte in UTF-8, never produced by the generator at the edge of a key or value. *)
From Coq Require Import List NArith Bool.
From PV Require Import Model.Headers.
Import ListNotations.
Local Open Scope N_scope.

Definition is_space (c : N) : bool := (c =? 32) || ((9 <=? c) && (c <=? 13)).

Fixpoint trim_left (s : str) : str :=
  match s with
  | c :: r => if is_space c then trim_left r else s
  | [] => []
  end.

(* strings.TrimSpace *)
Definition trim_space (s : str) : str := rev (trim_left (rev (trim_left s))).

(* strings.Cut(s, sep) for a one-byte separator: split at the FIRST occurrence *)
Fixpoint cut (sep : N) (s : str) : option (str * str) :=
  match s with
  | [] => None
  | c :: r => if c =? sep then Some ([], r)
              else match cut sep r with Some (a, b) => Some (c :: a, b) | None => None end
  end.

(* util.DecodeHeader: "[" inner "]", inner cut at the first ':', both parts trimmed, empty key refused (None = any error) *)
Definition decode_header (h : str) : option (str * str) :=
  match h with
  | 91 :: r =>
      match rev r with
      | 93 :: m =>
          match cut 58 (rev m) with
          | Some (k, v) => let k' := trim_space k in if is_nil k' then None else Some (k', trim_space v)
          | None => None
          end
      | _ => None
      end
  | _ => None
  end.

(* a header line as a user may write it: blanks p1..p4 around the key and around the value *)
Definition header_line (p1 k p2 p3 v p4 : str) : str := [91] ++ p1 ++ k ++ p2 ++ [58] ++ p3 ++ v ++ p4 ++ [93].
