(* Model of components/providers/http/decoders/raw.go (rawDecoder.Scan), raw/decoder.go
   (DecodeHeader) and the renderer of raw ammo files. Definitions only. *)
From Coq Require Import List NArith ZArith Bool.
From PV Require Import Lib.AmmoBytes Lib.AmmoDecimal Lib.AmmoLines Model.AmmoCommon.
Import ListNotations.
Local Open Scope N_scope.

(* raw.DecodeHeader: "size [tag]" *)
Definition raw_decode_header (d : bytes) : option (Z * bytes) :=
  let '(s, tag, _) := cut SP d in
  match atoi s with
  | Some n => Some (n, tag)
  | None => None
  end.

(* RawAmmo: the request bytes (parsed at Acquire by http.ReadRequest) and the tag *)
Record rentry := { rb_buf : bytes; rb_tag : bytes }.

Record rstate := {
  r_file : bytes;
  r_rest : bytes;
  r_ammo : N;
  r_pass : N
}.

Definition raw_init (file : bytes) : rstate :=
  {| r_file := file; r_rest := file; r_ammo := 0; r_pass := 0 |}.

(* One iteration of the for-loop of Scan that does not hit io.EOF: a blank chunk is skipped,
   anything else ends the call. *)
Inductive rblock :=
| RSkip (rest : bytes)
| RFound (e : rentry) (rest : bytes) (alloc : option (N * N))
| REof
| RErr (e : err) (alloc : option (N * N))
| RPanic.

Definition raw_block (rest : bytes) : rblock :=
  let '(data, rest1, ok) := read_string rest in
  (* io.EOF ends the pass; with data read so far the chunk is an unterminated last line and is
     still processed (a truncated entry then fails on its missing body) *)
  if negb ok && is_nil data then REof
  else
    let d := trim data in
    match d with
    | [] => RSkip rest1
    | _ =>
        match raw_decode_header d with
        | None => RErr EWrongSize None
        | Some (size, tag) =>
            if Z.eqb size 0 then RFound {| rb_buf := []; rb_tag := [] |} rest1 None
            else
              match alloc_read size rest1 with
              | APanic => RPanic
              | AErr e => RErr e None
              | AShort n => RErr EShortRead (Some (n, nlen rest1))
              | AOk buf r n => RFound {| rb_buf := buf; rb_tag := tag |} r (Some (n, nlen rest1))
              end
        end
    end.

Inductive rinner :=
| RIFound (e : rentry) (rest : bytes) (alloc : option (N * N))
| RIEof
| RIErr (e : err) (alloc : option (N * N))
| RIPanic
| RIOutOfFuel.

(* the iterations between two io.EOFs (every one consumes at least one byte) *)
Fixpoint raw_inner (fuel : nat) (rest : bytes) : rinner :=
  match fuel with
  | O => RIOutOfFuel
  | S f =>
      match raw_block rest with
      | RSkip r => raw_inner f r
      | RFound e r a => RIFound e r a
      | REof => RIEof
      | RErr e a => RIErr e a
      | RPanic => RIPanic
      end
  end.

(* the for-loop of Scan, cut at the io.EOF branch: [i] counts the wrap-arounds still allowed
   (one is always enough: C13_terminates_raw) *)
Fixpoint raw_outer (i : nat) (c : dcfg) (s : rstate) : sres rentry * rstate * option (N * N) :=
  match i with
  | O => (SOutOfFuel, s, None)
  | S i' =>
      let bump r := {| r_file := r_file s; r_rest := r; r_ammo := N.succ (r_ammo s); r_pass := r_pass s |} in
      match raw_inner (S (length (r_rest s))) (r_rest s) with
      | RIFound e r a => (SDeliver e, bump r, a)
      | RIErr e a => (SErr e, bump [], a)          (* ammoNum++ precedes the validation *)
      | RIPanic => (SPanic, bump [], None)
      | RIOutOfFuel => (SOutOfFuel, s, None)
      | RIEof =>
          let p := N.succ (r_pass s) in
          let s' := {| r_file := r_file s; r_rest := []; r_ammo := r_ammo s; r_pass := p |} in
          if passes_hit c p then (SPassLimit, s', None)
          else if N.eqb (r_ammo s) 0 then (SNoAmmo, s', None)
          else raw_outer i' c {| r_file := r_file s; r_rest := r_file s; r_ammo := r_ammo s; r_pass := p |}
      end
  end.

Definition raw_scan (c : dcfg) (s : rstate) : sres rentry * rstate * option (N * N) :=
  if limit_hit c (r_ammo s) then (SAmmoLimit, s, None) else raw_outer 2 c s.

Fixpoint raw_run (k : nat) (c : dcfg) (s : rstate) : list (sres rentry * option (N * N)) :=
  match k with
  | O => []
  | S k' =>
      let '(r, s', a) := raw_scan c s in
      match r with
      | SDeliver _ => (r, a) :: raw_run k' c s'
      | _ => [(r, a)]
      end
  end.

Definition raw_decode (c : dcfg) (k : nat) (file : bytes) : list (sres rentry) :=
  map fst (raw_run k c (raw_init file)).

(* ---------- rendering ---------- *)
Inductive ritem :=
| RReq (tag body : bytes)
| RBlank.

Definition ritem_text (i : ritem) : bytes :=
  match i with
  | RReq t b => dec (nlen b) ++ match t with [] => [] | _ => SP :: t end
  | RBlank => []
  end.

Definition ritem_body (i : ritem) : bytes :=
  match i with RReq _ b => b | RBlank => [] end.

Fixpoint render_raw (items : list (ritem * lay)) (final_nl : bool) : bytes :=
  match items with
  | [] => []
  | [(i, l)] =>
      wrap_line l (ritem_text i) ++
      (if final_nl || negb (is_nil (ritem_body i)) then [LF] else []) ++ ritem_body i
  | (i, l) :: r => wrap_line l (ritem_text i) ++ LF :: ritem_body i ++ render_raw r final_nl
  end.

Fixpoint raw_entries (items : list ritem) : list rentry :=
  match items with
  | [] => []
  | RReq t b :: r => {| rb_buf := b; rb_tag := t |} :: raw_entries r
  | RBlank :: r => raw_entries r
  end.

(* ---------- well-formed raw files ---------- *)
Definition wf_ritem (il : ritem * lay) : bool :=
  let '(i, l) := il in
  wf_lay l &&
  match i with
  | RBlank => true
  | RReq t b =>
      negb (is_nil b) && tight (ritem_text i) && nolf (ritem_text i)
      && Z.leb (Z.of_N (nlen b)) max_alloc
  end.
