(* Model of components/providers/http/decoders/raw.go (rawDecoder.Scan), raw/decoder.go
   (DecodeHeader) and the renderer of raw ammo files. Definitions only. *)
From Coq Require Import List NArith ZArith Bool.
From PV Require Import Lib.AmmoBytes Lib.AmmoDecimal Lib.AmmoLines Model.AmmoCommon.
Import ListNotations.
Local Open Scope N_scope.

(* raw.DecodeHeader: "size [tag]" *)
Definition raw_decode_header (d : bytes) : option (Z * bytes) :=
  let '(s, tag, _) := cut SP d in
  match atoi s with
  | Some n => Some (n, tag)
  | None => None
  end.

(* RawAmmo: the request bytes (parsed at Acquire by http.ReadRequest) and the tag *)
Record rentry := { rb_buf : bytes; rb_tag : bytes }.

Record rstate := {
  r_file : bytes;
  r_rest : bytes;
  r_ammo : N;
  r_pass : N
}.

Definition raw_init (file : bytes) : rstate :=
  {| r_file := file; r_rest := file; r_ammo := 0; r_pass := 0 |}.

(* the for-loop of Scan; every iteration either consumes a chunk or wraps around *)
Fixpoint raw_loop (fuel : nat) (c : dcfg) (s : rstate) : sres rentry * rstate * option (N * N) :=
  match fuel with
  | O => (SOutOfFuel, s, None)
  | S f =>
      let '(data, rest1, ok) := read_string (r_rest s) in
      if negb ok then
        (* io.EOF (data read so far is dropped) *)
        let p := N.succ (r_pass s) in
        let s' := {| r_file := r_file s; r_rest := []; r_ammo := r_ammo s; r_pass := p |} in
        if passes_hit c p then (SPassLimit, s', None)
        else if N.eqb (r_ammo s) 0 then (SNoAmmo, s', None)
        else raw_loop f c {| r_file := r_file s; r_rest := r_file s; r_ammo := r_ammo s; r_pass := p |}
      else
        let d := trim data in
        match d with
        | [] => raw_loop f c {| r_file := r_file s; r_rest := rest1; r_ammo := r_ammo s; r_pass := r_pass s |}
        | _ =>
            let s1 := {| r_file := r_file s; r_rest := rest1; r_ammo := N.succ (r_ammo s); r_pass := r_pass s |} in
            match raw_decode_header d with
            | None => (SErr EWrongSize, s1, None)
            | Some (size, tag) =>
                if Z.eqb size 0 then (SDeliver {| rb_buf := []; rb_tag := [] |}, s1, None)
                else
                  match alloc_read size rest1 with
                  | APanic => (SPanic, s1, None)
                  | AErr e => (SErr e, s1, None)
                  | AShort n => (SErr EShortRead, s1, Some (n, nlen rest1))
                  | AOk buf r n =>
                      (SDeliver {| rb_buf := buf; rb_tag := tag |},
                       {| r_file := r_file s; r_rest := r; r_ammo := N.succ (r_ammo s); r_pass := r_pass s |},
                       Some (n, nlen rest1))
                  end
            end
        end
  end.

Definition raw_fuel (s : rstate) : nat := (length (r_rest s) + length (r_file s) + 4)%nat.

Definition raw_scan (c : dcfg) (s : rstate) : sres rentry * rstate * option (N * N) :=
  if limit_hit c (r_ammo s) then (SAmmoLimit, s, None) else raw_loop (raw_fuel s) c s.

Fixpoint raw_run (k : nat) (c : dcfg) (s : rstate) : list (sres rentry * option (N * N)) :=
  match k with
  | O => []
  | S k' =>
      let '(r, s', a) := raw_scan c s in
      match r with
      | SDeliver _ => (r, a) :: raw_run k' c s'
      | _ => [(r, a)]
      end
  end.

Definition raw_decode (c : dcfg) (k : nat) (file : bytes) : list (sres rentry) :=
  map fst (raw_run k c (raw_init file)).

(* ---------- rendering ---------- *)
Inductive ritem :=
| RReq (tag body : bytes)
| RBlank.

Definition ritem_text (i : ritem) : bytes :=
  match i with
  | RReq t b => dec (nlen b) ++ match t with [] => [] | _ => SP :: t end
  | RBlank => []
  end.

Definition ritem_body (i : ritem) : bytes :=
  match i with RReq _ b => b | RBlank => [] end.

Fixpoint render_raw (items : list (ritem * lay)) (final_nl : bool) : bytes :=
  match items with
  | [] => []
  | [(i, l)] =>
      wrap_line l (ritem_text i) ++
      (if final_nl || negb (is_nil (ritem_body i)) then [LF] else []) ++ ritem_body i
  | (i, l) :: r => wrap_line l (ritem_text i) ++ LF :: ritem_body i ++ render_raw r final_nl
  end.

Fixpoint raw_entries (items : list ritem) : list rentry :=
  match items with
  | [] => []
  | RReq t b :: r => {| rb_buf := b; rb_tag := t |} :: raw_entries r
  | RBlank :: r => raw_entries r
  end.

(* ---------- well-formed raw files ---------- *)
Definition wf_ritem (il : ritem * lay) : bool :=
  let '(i, l) := il in
  wf_lay l &&
  match i with
  | RBlank => true
  | RReq t b =>
      negb (is_nil b) && tight (ritem_text i) && nolf (ritem_text i)
      && Z.leb (Z.of_N (nlen b)) max_alloc
  end.
