(* Model of lib/mp/iterator.go (NextIterator.Next) and of the `next` branch of
   lib/mp/map.go calcIndex + the slice access that follows it (property C15).
   Executable definitions only.

   NextIterator keeps one *atomic.Uint64 per segment string in a map guarded by a mutex.
   Next(segment) is ONE atomic section (mx.Lock ... defer mx.Unlock):
     - segment unknown: store a fresh counter holding 0, return 0;
     - otherwise: a.Add(1) (wraps modulo 2^64) and return int(add).                     *)
From Coq Require Import List NArith ZArith Bool.
Import ListNotations.

Definition seg := list N.            (* the segment string, e.g. ".source.users[next]" *)

Fixpoint seg_eqb (a b : seg) : bool :=
  match a, b with
  | [], [] => true
  | x :: a', y :: b' => N.eqb x y && seg_eqb a' b'
  | _, _ => false
  end.

Definition iter_state := list (seg * N).

Fixpoint it_get (st : iter_state) (s : seg) : option N :=
  match st with
  | [] => None
  | (k, v) :: r => if seg_eqb k s then Some v else it_get r s
  end.

Fixpoint it_set (st : iter_state) (s : seg) (v : N) : iter_state :=
  match st with
  | [] => [(s, v)]
  | (k, x) :: r => if seg_eqb k s then (k, v) :: r else (k, x) :: it_set r s v
  end.

Definition two64 : N := 18446744073709551616.
Definition two63 : N := 9223372036854775808.

(* one critical section of Next *)
Definition it_next (st : iter_state) (s : seg) : N * iter_state :=
  match it_get st s with
  | None => (0%N, it_set st s 0%N)
  | Some c => let c' := ((c + 1) mod two64)%N in (c', it_set st s c')
  end.

(* int(uint64) *)
Definition as_int (u : N) : Z :=
  if (u <? two63)%N then Z.of_N u else (Z.of_N u - Z.of_N two64)%Z.

(* calcIndex for "next" followed by v[index]:
     index = iter.Next(segment); if index >= length { index %= length }; v[index]
   Partial operations are explicit: `% 0` and an out-of-range slice index panic. *)
Inductive next_res := NxPanic | NxRow (i : nat).

Definition next_row (len : nat) (v : N) : next_res :=
  let i := as_int v in
  let l := Z.of_nat len in
  if (l <=? i)%Z then
    (if (l =? 0)%Z then NxPanic else NxRow (Z.to_nat (Z.rem i l)))
  else if (i <? 0)%Z then NxPanic
  else NxRow (Z.to_nat i).

(* A history of the iterator: the critical sections in the order the mutex admitted them.
   Each entry names the goroutine (instance) and the segment; the result is what Next returned. *)
Fixpoint it_run (st : iter_state) (tr : list (nat * seg)) : list (nat * seg * N) * iter_state :=
  match tr with
  | [] => ([], st)
  | (t, s) :: r =>
      let '(v, st1) := it_next st s in
      let '(out, st2) := it_run st1 r in
      ((t, s, v) :: out, st2)
  end.

(* The programs of the instances: instance t performs Next on the segments progs[t], in
   order.  [merge_of tr progs] : tr is an interleaving of these programs. *)
Fixpoint take_head (progs : list (list seg)) (t : nat) : option (seg * list (list seg)) :=
  match progs, t with
  | [], _ => None
  | p :: rest, O => match p with [] => None | s :: p' => Some (s, p' :: rest) end
  | p :: rest, S t' => match take_head rest t' with
                       | Some (s, rest') => Some (s, p :: rest')
                       | None => None
                       end
  end.

Fixpoint merge_of_b (tr : list (nat * seg)) (progs : list (list seg)) : bool :=
  match tr with
  | [] => forallb (fun p => match p with [] => true | _ => false end) progs
  | (t, s) :: r =>
      match take_head progs t with
      | Some (s', progs') => seg_eqb s s' && merge_of_b r progs'
      | None => false
      end
  end.

(* number of earlier critical sections on the same segment *)
Fixpoint count_seg (s : seg) (tr : list (nat * seg)) : nat :=
  match tr with
  | [] => O
  | (_, s') :: r => (if seg_eqb s' s then 1 else 0) + count_seg s r
  end.

(* For contrast only (NOT the code): Next split into two critical sections — a lookup under a
   read lock, then either an insert of a fresh counter (if the lookup missed) or the atomic
   add.  Used to show that the round-robin theorem needs the single critical section. *)
Inductive split_op := OpLookup (t : nat) (s : seg) | OpFinish (t : nat) (s : seg).

Fixpoint pend_get (p : list (nat * bool)) (t : nat) : bool :=
  match p with
  | [] => false
  | (t', b) :: r => if Nat.eqb t' t then b else pend_get r t
  end.

Fixpoint split_run (st : iter_state) (pend : list (nat * bool)) (ops : list split_op) : list (nat * N) :=
  match ops with
  | [] => []
  | OpLookup t s :: r =>
      split_run st ((t, match it_get st s with Some _ => true | None => false end) :: pend) r
  | OpFinish t s :: r =>
      if pend_get pend t then
        match it_get st s with
        | Some c => let c' := ((c + 1) mod two64)%N in (t, c') :: split_run (it_set st s c') pend r
        | None => (t, 0%N) :: split_run (it_set st s 0%N) pend r
        end
      else (t, 0%N) :: split_run (it_set st s 0%N) pend r
  end.
