(* Model for property C09 (HTTP wire fidelity): header maps, the four header merge sites of the
   http provider, Ammo.BuildRequest / EnrichRequestWithHeaders, and the gun's rewrite in
   BaseGun.Shoot.  Executable definitions only.

   Strings are byte lists.  [canon] is textproto.CanonicalMIMEHeaderKey; the functions are
   parameterised by it (Section variable) so that the theorems hold for every idempotent
   canonicalisation fixing "Host"; [canon_mime] is the concrete function the extracted model
   and the correspondence run use. *)
From Coq Require Import List NArith Bool.
Import ListNotations.
Local Open Scope N_scope.

Definition str := list N.

Fixpoint str_eqb (a b : str) : bool :=
  match a, b with
  | [], [] => true
  | x :: a', y :: b' => N.eqb x y && str_eqb a' b'
  | _, _ => false
  end.

Definition is_nil (s : str) : bool := match s with [] => true | _ => false end.

(* ---- textproto.CanonicalMIMEHeaderKey (ASCII): a key made of token bytes only gets its first
   letter and every letter after '-' upper-cased and all other letters lower-cased; any other
   key is returned unchanged. *)
Definition is_lower (c : N) : bool := (97 <=? c) && (c <=? 122).
Definition is_upper (c : N) : bool := (65 <=? c) && (c <=? 90).
Definition is_digit (c : N) : bool := (48 <=? c) && (c <=? 57).
Definition token_punct : list N := [33;35;36;37;38;39;42;43;45;46;94;95;96;124;126].
Definition valid_hdr_byte (c : N) : bool :=
  is_lower c || is_upper c || is_digit c || existsb (N.eqb c) token_punct.

Definition cap_byte (upper : bool) (c : N) : N :=
  if upper && is_lower c then c - 32
  else if negb upper && is_upper c then c + 32
  else c.

Fixpoint cap (upper : bool) (s : str) : str :=
  match s with
  | [] => []
  | c :: r => let c' := cap_byte upper c in c' :: cap (N.eqb c' 45) r
  end.

Definition canon_mime (s : str) : str := if forallb valid_hdr_byte s then cap true s else s.

Definition host_key : str := [72;111;115;116].            (* "Host" *)
Definition m_get : str := [71;69;84].                     (* "GET" *)
Definition m_post : str := [80;79;83;84].                 (* "POST" *)

(* ---- http.Header: map from (canonical) key to a NON-EMPTY value list (Set/Add/ReadRequest never
   store an empty slice, so values[0] in EnrichRequestWithHeaders is total by construction). *)
Definition hvals := (str * list str)%type.
Definition hv_list (v : hvals) : list str := fst v :: snd v.
Definition hmap := list (str * hvals).

Fixpoint hm_get (k : str) (m : hmap) : option hvals :=
  match m with
  | [] => None
  | (k', v) :: r => if str_eqb k k' then Some v else hm_get k r
  end.

(* m[k] = v : replace in place, or append a new key *)
Fixpoint hm_put (k : str) (v : hvals) (m : hmap) : hmap :=
  match m with
  | [] => [(k, v)]
  | (k', v') :: r => if str_eqb k k' then (k, v) :: r else (k', v') :: hm_put k v r
  end.

Fixpoint hm_del (k : str) (m : hmap) : hmap :=
  match m with
  | [] => []
  | (k', v) :: r => if str_eqb k k' then hm_del k r else (k', v) :: hm_del k r
  end.

Inductive fmt := FUri | FUripost | FJsonline | FRaw.

(* one ammo entry after the format's tokenizer: method token, request-URI (path?query), scheme/host of
   an absolute URL (jsonline: the "host" field), its own header lines in order, body *)
Record entry := {
  e_method : str;
  e_uri : str;
  e_scheme : N;            (* 0 = request-URI only, 1 = http://, 2 = https:// *)
  e_urlhost : str;
  e_hdrs : list (str * str);
  e_body : str
}.

Inductive item := IHdr (k v : str) | IEntry (e : entry).

(* *http.Request as produced by DecodedAmmo.BuildRequest *)
Record request := {
  r_method : str;
  r_uri : str;
  r_url_scheme : N;
  r_url_host : str;        (* req.URL.Host *)
  r_host : str;            (* req.Host *)
  r_hdrs : hmap;           (* req.Header *)
  r_body : str
}.

Definition with_host (r : request) (h : str) : request :=
  {| r_method := r_method r; r_uri := r_uri r; r_url_scheme := r_url_scheme r; r_url_host := r_url_host r;
     r_host := h; r_hdrs := r_hdrs r; r_body := r_body r |}.
Definition with_hdrs (r : request) (h : hmap) : request :=
  {| r_method := r_method r; r_uri := r_uri r; r_url_scheme := r_url_scheme r; r_url_host := r_url_host r;
     r_host := r_host r; r_hdrs := h; r_body := r_body r |}.

Record gun_cfg := { g_ssl : bool; g_target_host : str (* getHostWithoutPort(Target) *); g_resolved : str (* TargetResolved *) }.

(* what the target sees *)
Record wire := {
  w_tls : bool;
  w_addr : str;
  w_method : str;
  w_uri : str;
  w_host : str;
  w_hdrs : hmap;
  w_body : str
}.

Section WithCanon.
Variable canon : str -> str.

(* Header.Set / Header.Add *)
Definition hm_set (m : hmap) (k v : str) : hmap := hm_put (canon k) (v, []) m.
Definition hm_add (m : hmap) (k v : str) : hmap :=
  match hm_get (canon k) m with
  | Some (a, r) => hm_put (canon k) (a, r ++ [v]) m
  | None => hm_put (canon k) (v, []) m
  end.

(* util.DecodeHTTPConfigHeaders: Add per configured "[k: v]" *)
Definition cfg_map (cfg : list (str * str)) : hmap :=
  fold_left (fun m kv => hm_add m (fst kv) (snd kv)) cfg [].

(* uri.go readLine / uripost.go readBlock: commonHeader.Set per in-file "[k: v]" line in scope *)
Definition common_map (file_hdrs : list (str * str)) : hmap :=
  fold_left (fun m kv => hm_set m (fst kv) (snd kv)) file_hdrs [].

(* uri.go / uripost.go:   header := commonHeader.Clone()
                          for k, vv := range decodedConfigHeaders { if _, ok := header[k]; !ok { header[k] = copy(vv) } } *)
Definition merge_uri (common cfgm : hmap) : hmap :=
  fold_left (fun h kvs => match hm_get (fst kvs) h with Some _ => h | None => h ++ [kvs] end) cfgm common.

(* jsonline.go:  header := decodedConfigHeaders.Clone(); for k, v := range da.Headers { header.Set(k, v) } *)
Definition merge_json (cfgm : hmap) (ehdrs : list (str * str)) : hmap :=
  fold_left (fun m kv => hm_set m (fst kv) (snd kv)) ehdrs cfgm.

(* util.EnrichRequestWithHeaders *)
Definition enrich_one (r : request) (kvs : str * hvals) : request :=
  let k := canon (fst kvs) in
  match hm_get k (r_hdrs r) with
  | Some _ => r
  | None =>
      if str_eqb k host_key then (if is_nil (r_host r) then with_host r (fst (snd kvs)) else r)
      else with_hdrs r (r_hdrs r ++ [(k, snd kvs)])
  end.
Definition enrich (r : request) (h : hmap) : request := fold_left enrich_one h r.

(* http.NewRequest(method, url, body): Host = URL host, empty header *)
Definition new_request (method : str) (e : entry) (body : str) : request :=
  {| r_method := method; r_uri := e_uri e; r_url_scheme := e_scheme e; r_url_host := e_urlhost e;
     r_host := e_urlhost e; r_hdrs := []; r_body := body |}.

(* http.ReadRequest on a raw entry: header lines Add-ed under canonical keys; Host := URL host, else the
   first Host header; the Host header is removed from the map *)
Definition read_request (e : entry) : request :=
  let hm := fold_left (fun m kv => hm_add m (fst kv) (snd kv)) (e_hdrs e) [] in
  let host := if is_nil (e_urlhost e) then match hm_get host_key hm with Some (v, _) => v | None => [] end
              else e_urlhost e in
  {| r_method := e_method e; r_uri := e_uri e; r_url_scheme := e_scheme e; r_url_host := e_urlhost e;
     r_host := host; r_hdrs := hm_del host_key hm; r_body := e_body e |}.

(* the request a decoded ammo builds: decoder merge + BuildRequest *)
Definition effective (f : fmt) (file_hdrs cfg : list (str * str)) (e : entry) : request :=
  match f with
  | FUri => enrich (new_request m_get e []) (merge_uri (common_map file_hdrs) (cfg_map cfg))
  | FUripost => enrich (new_request m_post e (e_body e)) (merge_uri (common_map file_hdrs) (cfg_map cfg))
  | FJsonline => enrich (new_request (e_method e) e (e_body e)) (merge_json (cfg_map cfg) (e_hdrs e))
  | FRaw => enrich (read_request e) (cfg_map cfg)
  end.

(* one pass over a file: in-file header lines accumulate and apply to the entries after them *)
Fixpoint file_requests (f : fmt) (cfg common : list (str * str)) (items : list item) : list request :=
  match items with
  | [] => []
  | IHdr k v :: r => file_requests f cfg (common ++ [(k, v)]) r
  | IEntry e :: r => effective f common cfg e :: file_requests f cfg common r
  end.

(* ---- specification side (format independent): what the entry itself defines, left-biased union with the
   configured headers, Host kept apart *)
Definition entry_defined (f : fmt) (file_hdrs : list (str * str)) (e : entry) : hmap :=
  match f with
  | FUri | FUripost => common_map file_hdrs
  | FJsonline => fold_left (fun m kv => hm_set m (fst kv) (snd kv)) (e_hdrs e) []
  | FRaw => fold_left (fun m kv => hm_add m (fst kv) (snd kv)) (e_hdrs e) []
  end.

Definition spec_get (f : fmt) (file_hdrs cfg : list (str * str)) (e : entry) (k : str) : option hvals :=
  if str_eqb k host_key then None
  else match hm_get k (entry_defined f file_hdrs e) with
       | Some v => Some v
       | None => hm_get k (cfg_map cfg)
       end.

Definition spec_hdrs (f : fmt) (file_hdrs cfg : list (str * str)) (e : entry) : hmap :=
  let ed := hm_del host_key (entry_defined f file_hdrs e) in
  ed ++ filter (fun kv => match hm_get (fst kv) ed with Some _ => false | None => negb (str_eqb (fst kv) host_key) end) (cfg_map cfg).

(* the host the ammo gives: URL host / "host" field, else its Host header *)
Definition entry_host (f : fmt) (file_hdrs : list (str * str)) (e : entry) : option str :=
  if is_nil (e_urlhost e) then
    match hm_get host_key (entry_defined f file_hdrs e) with Some (v, _) => Some v | None => None end
  else Some (e_urlhost e).

Definition spec_host (f : fmt) (file_hdrs cfg : list (str * str)) (e : entry) (g : gun_cfg) : str :=
  let h := match entry_host f file_hdrs e with
           | Some h => h
           | None => match hm_get host_key (cfg_map cfg) with Some (v, _) => v | None => [] end
           end in
  if is_nil h then g_target_host g else h.

Definition spec_method (f : fmt) (e : entry) : str :=
  match f with FUri => m_get | FUripost => m_post | _ => e_method e end.
Definition spec_body (f : fmt) (e : entry) : str :=
  match f with FUri => [] | _ => e_body e end.

(* the request the property prescribes for an entry: format independent *)
Definition spec_wire (f : fmt) (file_hdrs cfg : list (str * str)) (e : entry) (g : gun_cfg) : wire :=
  {| w_tls := g_ssl g; w_addr := g_resolved g; w_method := spec_method f e; w_uri := e_uri e;
     w_host := spec_host f file_hdrs cfg e g; w_hdrs := spec_hdrs f file_hdrs cfg e; w_body := spec_body f e |}.

Fixpoint file_spec (f : fmt) (cfg common : list (str * str)) (g : gun_cfg) (items : list item) : list wire :=
  match items with
  | [] => []
  | IHdr k v :: r => file_spec f cfg (common ++ [(k, v)]) g r
  | IEntry e :: r => spec_wire f common cfg e g :: file_spec f cfg common g r
  end.

End WithCanon.

(* ---- BaseGun.Shoot: scheme by ssl, URL.Host = TargetResolved, Host defaulted to the target's host *)
Definition on_wire (g : gun_cfg) (r : request) : wire :=
  {| w_tls := g_ssl g;                       (* req.URL.Scheme = "https" iff Config.SSL; the request's own scheme is dropped *)
     w_addr := g_resolved g;                 (* req.URL.Host = Config.TargetResolved; the request's own URL host is dropped *)
     w_method := r_method r;
     w_uri := r_uri r;
     w_host := if is_nil (r_host r) then g_target_host g else r_host r;
     w_hdrs := r_hdrs r;
     w_body := r_body r |}.

(* ---- keep-alive, gun side (partial; see Properties/C09.v).  What Shoot does with the response body on each
   path, and which client object an instance's gun uses. *)
Inductive resp_kind := RespErr | RespOk (body_read_ok : bool).
Inductive body_ev := BodyDrained | BodyReadFailed | BodyClosed.
Definition shoot_body_events (r : resp_kind) : list body_ev :=
  match r with
  | RespErr => []                                  (* Client.Do failed: no body *)
  | RespOk true => [BodyDrained; BodyClosed]       (* io.Copy(Discard, Body) to EOF; deferred Body.Close *)
  | RespOk false => [BodyReadFailed; BodyClosed]   (* read error: return, deferred Body.Close still runs *)
  end.

(* client used by the n-th gun that is bound (n = 0,1,…; NewBaseGun builds one client per gun; Bind replaces it
   by clientPool.Next() when the shared client pool is enabled: Next = pool[(counter+1) mod client_number],
   client_number raised to 1 by prepareClientPool) *)
Inductive client_id := OwnClient (gun : nat) | PoolClient (slot : nat).
Definition gun_client (shared : bool) (client_number : nat) (gun : nat) : client_id :=
  if shared then PoolClient (Nat.modulo (S gun) (Nat.max 1 client_number)) else OwnClient gun.
