(* Round 8.  The pool option discard_overflow and the start loop.  discard_overflow is about SHOTS: an instance
   whose Waiter reports MaxOverdueDuration (2 s) of lateness discards the ammo instead of shooting it.  The
   start loop (engine.go startInstances) passes the flag on to the instances and does not look at it: a startup
   token becomes an instance however late the loop is (a first instance that takes seconds to create).
   Executable definitions only; proofs are in Proofs/StartOverflowProofs.v.

   ovrule = NeverSkip (the code) | SkipOverdue (a startup token that is at least MaxOverdueDuration late when
   the loop gets to it is dropped, as an overdue shot would be; used by one Example only). *)
From Coq Require Import List ZArith Bool Arith.
From PV Require Import Model.StartLoop.
Import ListNotations.
Local Open Scope Z_scope.

Inductive ovrule := NeverSkip | SkipOverdue.

Definition ostep (r : ovrule) (discard : bool) (a : saction) (s : sstate) : option sstate :=
  match r, a, spc s with
  | SkipOverdue, SLoop _ _, LCreate tk =>
      if discard && (0 <? length (started s))%nat && (max_overdue_ns <=? clock s - tk)
      then Some (set_spc s LEntry)
      else sstep a s
  | _, _, _ => sstep a s
  end.

Fixpoint orun (r : ovrule) (discard : bool) (l : list saction) (s : sstate) : option sstate :=
  match l with
  | [] => Some s
  | a :: t => match ostep r discard a s with Some s' => orun r discard t s' | None => None end
  end.

(* canonical complete run for the driver: the first creation takes [d0] ns, nothing cancels *)
Definition odrive_action (s : sstate) : saction :=
  match spc s with
  | LSleep tk => if tk <=? clock s then SLoop false true else STick (tk - clock s)
  | _ => SLoop false true
  end.

Fixpoint odrive (r : ovrule) (discard : bool) (fuel : nat) (d0 : Z) (s : sstate) : sstate :=
  match fuel with
  | O => s
  | S f =>
      let first_create := match spc s, started s with LCreate _, [] => true | _, _ => false end in
      match ostep r discard (odrive_action s) s with
      | Some s' =>
          if first_create then
            match ostep r discard (STick d0) s' with Some s'' => odrive r discard f d0 s'' | None => s' end
          else odrive r discard f d0 s'
      | None => s
      end
  end.
