(* Model of the tag layer between the two scenario front-ends (property C16).
   YAML:  text -> yaml.v2 -> generic map -> config.DecodeAndValidate (config tags)            -> AmmoConfig
   HCL:   text -> hcl + gohcl (hcl tags) -> AmmoHCL -> yaml.Marshal (yaml tags / lower-cased field names,
          omitempty) -> text -> the same path as YAML.
   The extra hop of the HCL path is a tag-driven structural map; it is modelled here over the struct table
   regenerated from components/providers/scenario/config/hcl.go (Gen/ScenarioTagsGen.v).  The decoder side is the
   model of C17 (Model/ConfigDecode.v) on the schema regenerated from config.AmmoConfig.
   yaml.Marshal followed by yaml.Unmarshal is taken as the identity on trees (library oracle, exercised by the
   correspondence harness).  Executable definitions only. *)
From Coq Require Import List NArith ZArith Bool QArith.
From PV Require Import Model.ConfigDecode.
Import ListNotations.
Local Open Scope N_scope.

(* one field of an HCL-side struct: Go name, yaml key (explicit tag or lower-cased name), hcl tag key,
   hcl kind (0 attribute, 1 label, 2 block), optional (pointer / slice / map that gohcl may leave nil),
   omitempty, and the kind of its value *)
Inductive hkind :=
| HStr | HInt | HBool
| HStrList
| HStrMap
| HStruct (fs : list (str * str * str * N * bool * bool * hkind))
| HStructList (fs : list (str * str * str * N * bool * bool * hkind)).

Definition hfield := (str * str * str * N * bool * bool * hkind)%type.
Definition h_goname (f : hfield) : str := fst (fst (fst (fst (fst (fst f))))).
Definition h_yaml (f : hfield) : str := snd (fst (fst (fst (fst (fst f))))).
Definition h_hcl (f : hfield) : str := snd (fst (fst (fst (fst f)))).
Definition h_hclkind (f : hfield) : N := snd (fst (fst (fst f))).
Definition h_optional (f : hfield) : bool := snd (fst (fst f)).
Definition h_omitempty (f : hfield) : bool := snd (fst f).
Definition h_kind (f : hfield) : hkind := snd f.

(* a value of the HCL-side struct as gohcl fills it *)
Inductive hval :=
| HAbsent                                  (* nil pointer / nil map / nil slice *)
| HS (s : str) | HI (z : Z) | HB (b : bool)
| HL (l : list str)
| HM (kvs : list (str * str))
| HR (fields : list hval)
| HRs (items : list (list hval)).

(* yaml.v2 isZero for omitempty *)
Definition h_empty (v : hval) : bool :=
  match v with
  | HAbsent => true
  | HS [] => true
  | HI z => Z.eqb z 0
  | HB b => negb b
  | HL [] => true
  | HM [] => true
  | HRs [] => true
  | _ => false
  end.

Fixpoint marshal_val (k : hkind) (v : hval) {struct k} : value :=
  match k, v with
  | _, HAbsent => VNull
  | HStr, HS s => VStr s
  | HInt, HI z => VInt z
  | HBool, HB b => VBool b
  | HStrList, HL l => VList (map VStr l)
  | HStrMap, HM kvs => VMap (map (fun kv => (fst kv, VStr (snd kv))) kvs)
  | HStruct fs, HR vals =>
      VMap ((fix go (fs : list hfield) (vals : list hval) : list (str * value) :=
               match fs, vals with
               | f :: fs', v' :: vals' =>
                   (if h_omitempty f && h_empty v' then [] else [(h_yaml f, marshal_val (h_kind f) v')]) ++ go fs' vals'
               | _, _ => []
               end) fs vals)
  | HStructList fs, HRs items =>
      VList (map (fun vals =>
               VMap ((fix go (fs : list hfield) (vals : list hval) : list (str * value) :=
                        match fs, vals with
                        | f :: fs', v' :: vals' =>
                            (if h_omitempty f && h_empty v' then [] else [(h_yaml f, marshal_val (h_kind f) v')]) ++ go fs' vals'
                        | _, _ => []
                        end) fs vals)) items)
  | _, _ => VNull
  end.

(* one struct level, with the value marshaller as a parameter (what the lemmas talk about) *)
Fixpoint marshal_fields (mv : hkind -> hval -> value) (fs : list hfield) (vals : list hval) : list (str * value) :=
  match fs, vals with
  | f :: fs', v :: vals' =>
      (if h_omitempty f && h_empty v then [] else [(h_yaml f, mv (h_kind f) v)]) ++ marshal_fields mv fs' vals'
  | _, _ => []
  end.

Definition marshal_by_tags (root : list hfield) (vals : list hval) : value := marshal_val (HStruct root) (HR vals).

(* ---------------------------------------------------------------- consistency of the two tag tables *)
Fixpoint fold_nodup (l : list str) : bool :=
  match l with [] => true | k :: r => negb (existsb (fold_eqb k) r) && fold_nodup r end.

(* one level: every yaml key is accepted by the config-side field list, no two yaml keys collide, optional fields
   are omitempty or at least marshal to null *)
Definition level_ok (hfs : list hfield) (ffs : list fld) : bool :=
  forallb (fun f => accepted_b (h_yaml f) (map f_key ffs)) hfs && fold_nodup (map h_yaml hfs).

Definition kind_compatible (k : hkind) (s : schema) : bool :=
  match k, s with
  | HStr, SScalar KString => true
  | HStr, SStruct true _ => false
  | HInt, SScalar (KInt _) => true
  | HBool, SScalar KBool => true
  | HStrList, SSlice (SScalar KString) => true
  | HStrMap, SMap (SScalar KString) => true
  | HStrMap, SMap SAny => true
  | HStruct _, SStruct _ _ => true
  | HStruct _, SPlugin _ _ => true
  | HStructList _, SSlice (SStruct _ _) => true
  | HStructList _, SSlice (SPlugin _ _) => true
  | _, _ => false
  end.

Section TableOk.
Variable reg : list entry.

(* the keys a plugin node accepts: `type` plus the union of the config keys of every registered component of the
   interface (the HCL struct of a plugin block is the union of the per-type options) *)
Definition iface_fields (iface : str) : list fld :=
  flat_map (fun e => if str_eqb (e_iface e) iface
                     then match e_conf e with Some (cs, _) => flat_fields cs | None => [] end else []) reg.

Definition type_fld : fld := (s_type, false, [], SScalar KString).

Fixpoint table_ok (n : nat) (hfs : list hfield) (ffs : list fld) : bool :=
  match n with
  | O => false
  | S n' =>
      level_ok hfs ffs &&
      forallb (fun f =>
        match find_field (h_yaml f) ffs with
        | None => false
        | Some cf =>
            kind_compatible (h_kind f) (f_schema cf) &&
            match h_kind f, f_schema cf with
            | HStruct sub, SStruct _ _ => table_ok n' sub (flat_fields (f_schema cf))
            | HStructList sub, SSlice ((SStruct _ _) as e) => table_ok n' sub (flat_fields e)
            | HStruct sub, SPlugin iface _ => table_ok n' sub (type_fld :: iface_fields iface)
            | HStructList sub, SSlice (SPlugin iface _) => table_ok n' sub (type_fld :: iface_fields iface)
            | _, _ => true
            end
        end) hfs
  end.

End TableOk.

(* an empty list / map and a nil one are the same ammo: observations and predictions are compared modulo this *)
Fixpoint norm_empty (c : cval) : cval :=
  match c with
  | CSlice [] => CNil
  | CMap [] => CNil
  | CStruct l => CStruct (map norm_empty l)
  | CSlice l => CSlice (map norm_empty l)
  | CMap kvs => CMap (map (fun kc => (fst kc, norm_empty (snd kc))) kvs)
  | CPlugin n l c' => CPlugin n l (norm_empty c')
  | _ => c
  end.

Definition norm_res (r : res cval) : res cval := rmap norm_empty r.
