(* Model of what the TARGET receives (property C20: "the server receives a call to exactly the
   named method … with the entry's metadata attached … a failed sample for that entry"):
   - the transport between InvokeRpc and the server under the dial options of
     components/guns/grpc/core.go MakeGRPCConnect (a retry policy is a dial option:
     grpc.WithDefaultServiceConfig), against a STATEFUL target whose answers pandora does not choose
     (any gRPC status, depending on everything the target has received before);
   - the warm-up reflection request (prepareMethodList) which carries the gun option
     reflect_metadata — a different request from every ammo call.
   Executable definitions only. *)
From Coq Require Import List NArith ZArith Bool.
From PV Require Import Model.GrpcCall.
Import ListNotations.

(* ---------- dial options and the retry policy they configure ---------- *)

(* retry policy of a connection: number of ADDITIONAL attempts and the statuses that are re-sent *)
Record policy := mkPolicy { p_extra : nat; p_retry : N -> bool }.
Definition no_retry : policy := mkPolicy 0 (fun _ => false).

(* grpc.With… options that do not touch calls: credentials, user agent, authority.
   "WithTransportCredentials" "WithInsecure" "WithUserAgent" "WithAuthority" *)
Definition opt_transport_creds : gbytes :=
  [87;105;116;104;84;114;97;110;115;112;111;114;116;67;114;101;100;101;110;116;105;97;108;115]%N.
Definition opt_insecure : gbytes := [87;105;116;104;73;110;115;101;99;117;114;101]%N.
Definition opt_user_agent : gbytes := [87;105;116;104;85;115;101;114;65;103;101;110;116]%N.
Definition opt_authority : gbytes := [87;105;116;104;65;117;116;104;111;114;105;116;121]%N.
Definition neutral_opts : list gbytes := [opt_transport_creds; opt_insecure; opt_user_agent; opt_authority].

Definition neutral_opt (o : gbytes) : bool := existsb (gbytes_eqb o) neutral_opts.

(* the policy of a connection dialled with these options: known only when every option is
   neutral (then grpc-go's default applies: an answered call is never re-sent); any other option
   (service config, interceptors, default call options, …) is outside the model *)
Definition dial_policy (opts : list gbytes) : option policy :=
  if forallb neutral_opt opts then Some no_retry else None.

(* the :authority of every request on a connection: the gun option dial_options.authority when it is set
   (MakeGRPCConnect: grpc.WithAuthority), the address dialled otherwise *)
Definition conn_authority (configured addr : gbytes) : gbytes :=
  match configured with [] => addr | _ => configured end.

(* the distinct authorities the servers see in a run: the reflection request of warm-up goes to the
   reflection address, the calls (if any arrives) to the target *)
Definition run_authorities (configured target_addr reflect_addr : gbytes) (any_call : bool) : list gbytes :=
  conn_authority configured reflect_addr :: (if any_call then [conn_authority configured target_addr] else []).

(* ---------- the model's reading of the source, compared with Gen/GrpcDialGen.v by the bridge ---------- *)

(* the only function that dials *)
Definition model_dial_site : gbytes := [77;97;107;101;71;82;80;67;67;111;110;110;101;99;116]%N.   (* MakeGRPCConnect *)

(* which map the outgoing context of each request is built from:
   prepareMethodList (the reflection request of warm-up) <- Conf.ReflectMetadata   [WReflect (wc_reflect_meta c)]
   shoot (a grpc/json entry)                            <- ammo.Metadata          [s_meta = e_meta e]
   shootStep (a scenario step)                          <- stepMetadata, the rendered private copy *)
Definition model_outgoing_md : list (gbytes * gbytes) :=
  [ ([112;114;101;112;97;114;101;77;101;116;104;111;100;76;105;115;116]%N, [109;101;116;97;100;97;116;97;46;78;101;119;40;103;46;67;111;110;102;46;82;101;102;108;101;99;116;77;101;116;97;100;97;116;97;41]%N);
    ([115;104;111;111;116]%N, [109;101;116;97;100;97;116;97;46;78;101;119;40;97;109;109;111;46;77;101;116;97;100;97;116;97;41]%N);
    ([115;104;111;111;116;83;116;101;112]%N, [109;101;116;97;100;97;116;97;46;78;101;119;40;115;116;101;112;77;101;116;97;100;97;116;97;41]%N) ].

(* InvokeRpc is called with no call options in both guns *)
Definition model_invoke_sites : list gbytes := [[115;104;111;111;116]%N; [115;104;111;111;116;83;116;101;112]%N].   (* shoot; shootStep *)

(* ---------- transport + stateful target ---------- *)

Section Wire.
  Variable msg : Type.
  Variable code_of_status : N -> N.                       (* ConvertGrpcStatus *)
  (* the target: its answer (gRPC status) to a call, given every call it has received before
     (oldest first) *)
  Variable target : list (sent msg) -> sent msg -> N.

  (* InvokeRpc on a connection: the call is put on the wire; a retryable answer re-sends it while
     attempts are left.  Returns what the target has received by then and the status the caller
     sees (that of the LAST attempt). *)
  Fixpoint attempts (extra : nat) (retry : N -> bool) (hist : list (sent msg)) (s : sent msg)
    : list (sent msg) * N :=
    let st := target hist s in
    let hist' := hist ++ [s] in
    match extra with
    | O => (hist', st)
    | S k => if retry st then attempts k retry hist' s else (hist', st)
    end.

  Definition invoke (p : policy) : list (sent msg) -> sent msg -> list (sent msg) * N :=
    attempts (p_extra p) (p_retry p).

  (* one outcome (what the gun decided) taken to the wire: sample code + what the target has now *)
  Definition deliver1 (p : policy) (hist : list (sent msg)) (o : outcome msg) : list (sent msg) * N :=
    match o with
    | Sent s => let '(h', st) := invoke p hist s in (h', code_of_status st)
    | BadPayload => (hist, 400%N)
    | TemplateErr => (hist, 0%N)
    | UnknownMethod => (hist, 0%N)
    end.

  Fixpoint deliver (p : policy) (hist : list (sent msg)) (os : list (outcome msg))
    : list (sent msg) * list N :=
    match os with
    | [] => (hist, [])
    | o :: r =>
        let '(h1, c) := deliver1 p hist o in
        let '(h2, cs) := deliver p h1 r in
        (h2, c :: cs)
    end.

  (* several scenario shots, one after another *)
  Fixpoint deliver_shots (p : policy) (hist : list (sent msg)) (shots : list (list (outcome msg)))
    : list (sent msg) * list (list N) :=
    match shots with
    | [] => (hist, [])
    | os :: r =>
        let '(h1, cs) := deliver p hist os in
        let '(h2, css) := deliver_shots p h1 r in
        (h2, cs :: css)
    end.

  (* SPECIFICATION: every sent outcome is ONE call at the target, in order; its sample code is the
     conversion of the answer the target gave to THAT call *)
  Fixpoint sent_of (os : list (outcome msg)) : list (sent msg) :=
    match os with
    | [] => []
    | Sent s :: r => s :: sent_of r
    | _ :: r => sent_of r
    end.

  Fixpoint spec_codes (hist : list (sent msg)) (os : list (outcome msg)) : list N :=
    match os with
    | [] => []
    | Sent s :: r => code_of_status (target hist s) :: spec_codes (hist ++ [s]) r
    | BadPayload :: r => 400%N :: spec_codes hist r
    | TemplateErr :: r => 0%N :: spec_codes hist r
    | UnknownMethod :: r => 0%N :: spec_codes hist r
    end.

  Fixpoint spec_codes_shots (hist : list (sent msg)) (shots : list (list (outcome msg))) : list (list N) :=
    match shots with
    | [] => []
    | os :: r => spec_codes hist os :: spec_codes_shots (hist ++ sent_of os) r
    end.
End Wire.
Arguments sent_of {msg}.

(* ---------- grpc/json entries: warm-up, bind, shots, on the wire ---------- *)

Section PlainWire.
  Variables desc msg payload : Type.
  Variable reencode : payload -> payload.
  Variable fits : desc -> payload -> option msg.
  Variable code_of_status : N -> N.
  Variable target : list (sent msg) -> sent msg -> N.

  (* what the configuration contributes: request timeout and the reflection credentials *)
  Record wconf := mkWConf { wc_timeout : Z; wc_reflect_meta : gmeta }.

  (* everything the servers see: the reflection request of warm-up and the calls *)
  Inductive wevent := WReflect (md : gmeta) | WCall (s : sent msg).

  (* Gun.WarmUp / prepareMethodList: ONE reflection exchange whose outgoing context carries
     metadata.New(Conf.ReflectMetadata); [reflected] = the method table the target describes *)
  Definition warm_up (c : wconf) (reflected : mtable desc) : list wevent * mtable desc :=
    ([WReflect (wc_reflect_meta c)], reflected).

  (* NewGun + Bind: the instance's gun object keeps the shared table and the timeout; shoot reads
     nothing else of the configuration *)
  Definition bind (c : wconf) (t : mtable desc) : gun desc := mkGun desc t (wc_timeout c).

  (* Gun.shoot with the transport made explicit *)
  Definition wire_shoot (p : policy) (g : gun desc) (hist : list (sent msg)) (e : entry payload)
    : gun desc * list (sent msg) * shot_result msg :=
    let o := shoot desc msg payload reencode fits g e in
    let '(h', c) := deliver1 msg code_of_status target p hist o in
    (g, h', mkRes msg (e_tag payload e) c o).

  Fixpoint wire_run (p : policy) (guns : list (gun desc)) (sched : list (nat * entry payload))
           (hist : list (sent msg)) : list (gun desc) * list (sent msg) * list (shot_result msg) :=
    match sched with
    | [] => (guns, hist, [])
    | (i, e) :: rest =>
        match nth_error guns i with
        | None => wire_run p guns rest hist
        | Some g =>
            let '(g', h1, r) := wire_shoot p g hist e in
            let guns' := firstn i guns ++ g' :: skipn (S i) guns in
            let '(gs, h2, rs) := wire_run p guns' rest h1 in
            (gs, h2, r :: rs)
        end
    end.

  (* a whole run: warm-up once, n instances bound to its result, entries shot as scheduled *)
  Definition session (p : policy) (c : wconf) (reflected : mtable desc) (n : nat)
             (sched : list (nat * entry payload)) : list wevent * list (shot_result msg) :=
    let '(evs, t) := warm_up c reflected in
    let '(_, h, rs) := wire_run p (repeat (bind c t) n) sched [] in
    (evs ++ map WCall h, rs).

  (* SPECIFICATION of one entry: what must be sent (a function of the entry alone) *)
  Definition spec_outcome (t : mtable desc) (conf_timeout : Z) (e : entry payload) : outcome msg :=
    match find_method t (e_call payload e) with
    | None => UnknownMethod
    | Some d =>
        match fits d (reencode (e_payload payload e)) with
        | None => BadPayload
        | Some m => Sent (mkSent (e_call payload e) m (e_meta payload e) (eff_timeout conf_timeout))
        end
    end.

  (* SPECIFICATION of a run: the target receives exactly one call per entry that is to be sent
     (the entry's method, message, metadata), nothing for the others; every sample carries the
     conversion of the answer to ITS call *)
  Fixpoint wire_spec (t : mtable desc) (conf_timeout : Z) (hist : list (sent msg)) (es : list (entry payload))
    : list (sent msg) * list (shot_result msg) :=
    match es with
    | [] => (hist, [])
    | e :: r =>
        let o := spec_outcome t conf_timeout e in
        match o with
        | Sent s =>
            let '(h, rs) := wire_spec t conf_timeout (hist ++ [s]) r in
            (h, mkRes msg (e_tag payload e) (code_of_status (target hist s)) o :: rs)
        | BadPayload =>
            let '(h, rs) := wire_spec t conf_timeout hist r in (h, mkRes msg (e_tag payload e) 400%N o :: rs)
        | _ =>
            let '(h, rs) := wire_spec t conf_timeout hist r in (h, mkRes msg (e_tag payload e) 0%N o :: rs)
        end
    end.

  Definition session_spec (c : wconf) (reflected : mtable desc) (es : list (entry payload))
    : list wevent * list (shot_result msg) :=
    let '(h, rs) := wire_spec reflected (wc_timeout c) [] es in
    (WReflect (wc_reflect_meta c) :: map WCall h, rs).
End PlainWire.
Arguments WReflect {msg}.
Arguments WCall {msg}.
