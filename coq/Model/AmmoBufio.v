(* bufio.Reader as the uripost and raw decoders use it (Go 1.23 src/bufio/bufio.go): a buffer of
   [cap] bytes (4096 for bufio.NewReader) filled from an underlying io.Reader whose Read calls
   may return fewer bytes than asked for; ReadSlice / collectFragments / ReadString('\n') and
   Read.  Lib/AmmoLines.v models ReadString and ReadFull on the *logical* byte stream ("exact
   chunking"); Proofs/AmmoBufioProofs.v proves that the buffered reader computes exactly that, for
   every buffer size >= 1 and every way the underlying reader cuts the file into Read results.
   Definitions only. *)
From Coq Require Import List NArith Bool Arith.
From PV Require Import Lib.AmmoBytes Lib.AmmoLines.
Import ListNotations.

(* the underlying reader: the results of its future Read calls, were the space offered unlimited;
   a Read with less space hands out a prefix and keeps the rest for the next call.  [] = io.EOF.
   An empty chunk is a Read that returns (0, nil). *)
Definition source := list bytes.

Inductive rerr := IoEof | IoNoProgress.

Definition src_read (space : nat) (src : source) : option (bytes * source) :=
  match src with
  | [] => None
  | c :: r =>
      let a := firstn space c in
      let b := skipn space c in
      Some (a, if is_nil b then r else b :: r)
  end.

Record brd := {
  b_buf : bytes;     (* buf[r:w]: buffered, not yet consumed *)
  b_src : source;
  b_err : option rerr   (* b.err pending (readErr hands it out once and clears it) *)
}.

Definition brd_new (src : source) : brd := {| b_buf := []; b_src := src; b_err := None |}.   (* NewReader / Reset *)

(* the bytes still to come, in order *)
Definition stream (st : brd) : bytes := b_buf st ++ concat (b_src st).

Section Bufio.
  Variable cap : nat.          (* len(b.buf) *)

  (* fill: slide, then Read into the free space, at most maxConsecutiveEmptyReads = 100 times
     while the reads return (0, nil), then io.ErrNoProgress *)
  Fixpoint fill_loop (i : nat) (buf : bytes) (src : source) : brd :=
    match i with
    | O => {| b_buf := buf; b_src := src; b_err := Some IoNoProgress |}
    | S i' =>
        match src_read (cap - length buf) src with
        | None => {| b_buf := buf; b_src := []; b_err := Some IoEof |}
        | Some (a, src') =>
            if is_nil a then fill_loop i' buf src'
            else {| b_buf := buf ++ a; b_src := src'; b_err := None |}
        end
    end.

  Definition fill (st : brd) : brd := fill_loop 100 (b_buf st) (b_src st).

  Inductive slice_res :=
  | SLine (line : bytes) (st : brd)                (* up to and including the delimiter, err == nil *)
  | SErr (data : bytes) (e : rerr) (st : brd)      (* what was buffered + the pending error *)
  | SFull (data : bytes) (st : brd)                (* the whole buffer, ErrBufferFull *)
  | SFuel.

  (* ReadSlice('\n'); the search-start index s only avoids rescanning *)
  Fixpoint read_slice (fuel : nat) (st : brd) : slice_res :=
    match fuel with
    | O => SFuel
    | S f =>
        let '(c, rest, found) := read_string (b_buf st) in
        if found then SLine c {| b_buf := rest; b_src := b_src st; b_err := b_err st |}
        else match b_err st with
        | Some e => SErr (b_buf st) e {| b_buf := []; b_src := b_src st; b_err := None |}
        | None =>
            if cap <=? length (b_buf st) then SFull (b_buf st) {| b_buf := []; b_src := b_src st; b_err := None |}
            else read_slice f (fill st)
        end
    end.

  Inductive rs_res :=
  | RSData (data : bytes) (err : option rerr) (st : brd)
  | RSFuel.

  (* ReadString('\n') = collectFragments + concatenation: full buffers are accumulated until
     ReadSlice returns without ErrBufferFull *)
  Fixpoint buf_read_string (fuel : nat) (acc : bytes) (st : brd) : rs_res :=
    match fuel with
    | O => RSFuel
    | S f =>
        match read_slice (S (S (length (concat (b_src st))))) st with
        | SLine l st' => RSData (acc ++ l) None st'
        | SErr d e st' => RSData (acc ++ d) (Some e) st'
        | SFull d st' => buf_read_string f (acc ++ d) st'
        | SFuel => RSFuel
        end
    end.

  (* enough for every reader (proved): one round per byte still to come, and one *)
  Definition rs_fuel (st : brd) : nat := S (length (stream st)).

  Definition read_string_b (st : brd) : rs_res := buf_read_string (rs_fuel st) [] st.

  (* bufio.Reader.ReadLine with the isPrefix result ignored (what a caller gets that treats a
     ReadLine result as a line): at most one buffer, the rest of the line stays in the reader.
     Not used by the decoders; kept to show that the theorem separates the two (Properties/C07.v). *)
  Definition read_line_noprefix (st : brd) : rs_res :=
    match read_slice (S (S (length (concat (b_src st))))) st with
    | SLine l st' => RSData l None st'
    | SErr d e st' => RSData d (match d with [] => Some e | _ => None end) st'
    | SFull d st' => RSData d None st'
    | SFuel => RSFuel
    end.

  (* Read(p) with len p = m >= 1: returns the bytes copied into p *)
  Inductive rd_res :=
  | RdData (data : bytes) (st : brd)
  | RdErr (e : rerr) (st : brd).

  Definition buf_read (m : nat) (st : brd) : rd_res :=
    match b_buf st with
    | [] =>
        match b_err st with
        | Some e => RdErr e {| b_buf := []; b_src := b_src st; b_err := None |}
        | None =>
        if cap <=? m then
          (* large read, empty buffer: directly into p *)
          match src_read m (b_src st) with
          | None => RdErr IoEof {| b_buf := []; b_src := []; b_err := None |}
          | Some (a, src') => RdData a {| b_buf := []; b_src := src'; b_err := None |}
          end
        else
          (* one read into the buffer, then copy *)
          match src_read cap (b_src st) with
          | None => RdErr IoEof {| b_buf := []; b_src := []; b_err := None |}
          | Some (a, src') =>
              RdData (firstn m a) {| b_buf := skipn m a; b_src := src'; b_err := None |}
          end
        end
    | buf => RdData (firstn m buf) {| b_buf := skipn m buf; b_src := b_src st; b_err := b_err st |}
    end.

  (* reading a body of n bytes through Read calls (io.CopyN into a bytes.Buffer: a LimitedReader
     over the bufio.Reader, read by bytes.Buffer.ReadFrom): every Read asks for [ask left] bytes,
     1 <= ask left <= left, whatever the buffer growth policy makes of it.  (Some body, st) when n
     bytes came, (None, st) on a short read (io.EOF / io.ErrUnexpectedEOF); None = out of fuel *)
  Section ReadN.
    Variable ask : nat -> nat.
    Fixpoint buf_read_n (fuel : nat) (left : nat) (acc : bytes) (st : brd) : option (option bytes * brd) :=
      match left with
      | O => Some (Some acc, st)
      | S _ =>
          match fuel with
          | O => None                                   (* out of fuel *)
          | S f =>
              match buf_read (ask left) st with
              | RdErr _ st' => Some (None, st')
              | RdData a st' => buf_read_n f (left - length a) (acc ++ a) st'
              end
          end
      end.
  End ReadN.
End Bufio.

(* readers as the proofs need them: no (0, nil) reads ahead, a pending EOF means nothing is left *)
Definition brd_wf (st : brd) : bool :=
  forallb (fun c => negb (is_nil c)) (b_src st) &&
  match b_err st with None => true | Some IoEof => is_nil (b_src st) | Some IoNoProgress => false end.

(* ---------- clients of the reader ----------
   What the uripost and raw decoders do with their bufio.Reader between two Resets: ReadString('\n')
   and bodies of a size they computed from what they read before (readBody), in any order and number,
   every next step depending on all earlier results. *)
Inductive rprog (R : Type) : Type :=
| PRet (r : R)
| PLine (k : bytes -> bool -> rprog R)            (* ReadString: data, err == nil *)
| PBody (n : nat) (k : option bytes -> rprog R).  (* readBody: Some body | None (short read) *)
Arguments PRet {R} r.
Arguments PLine {R} k.
Arguments PBody {R} n k.

(* on the logical stream (the exact-chunking primitives of Lib/AmmoLines.v) *)
Fixpoint run_exact {R} (p : rprog R) (s : bytes) : R * bytes :=
  match p with
  | PRet r => (r, s)
  | PLine k => let '(d, rest, ok) := read_string s in run_exact (k d ok) rest
  | PBody n k =>
      match read_full (N.of_nat n) s with
      | Some (b, rest) => run_exact (k (Some b)) rest
      | None => run_exact (k None) []          (* a short read consumes what was there *)
      end
  end.

(* on the buffered reader; None = out of fuel / io.ErrNoProgress (excluded by the theorem) *)
Section RunBuf.
  Variable cap : nat.
  Variable ask : nat -> nat.
  Fixpoint run_buf {R} (p : rprog R) (st : brd) : option (R * brd) :=
    match p with
    | PRet r => Some (r, st)
    | PLine k =>
        match read_string_b cap st with
        | RSData d None st' => run_buf (k d true) st'
        | RSData d (Some IoEof) st' => run_buf (k d false) st'
        | _ => None
        end
    | PBody n k =>
        match buf_read_n cap ask n n [] st with
        | Some (Some b, st') => run_buf (k (Some b)) st'
        | Some (None, st') => run_buf (k None) st'
        | None => None
        end
    end.
End RunBuf.
