(* C07: the provider's configured default headers (`headers:` of the http provider config)
   and how they combine with the headers an ammo entry names itself.

   Code followed (http.Header = canonical key -> list of values):
   * decoders.NewDecoder: util.DecodeHTTPConfigHeaders (Model.AmmoConfigInput.config_headers,
     every `[Key: value]` is Add-ed: a key configured twice has two values);
   * uri.go readLine / uripost.go readBlock:
       header := commonHeader.Clone()
       for k, vv := range decodedConfigHeaders { if _, ok := header[k]; !ok { header[k] = vv } }
   * jsonline.go Scan and readArray (the same four lines in both):
       header := decodedConfigHeaders.Clone()
       for k, v := range entity.Headers { header.Set(k, v) }
   * raw.go: RawAmmo.Setup(buff, tag, pos, decodedConfigHeaders); the request's own headers
     are those http.ReadRequest finds in the buffer;
   * Ammo.BuildRequest / RawAmmo.BuildRequest: util.EnrichRequestWithHeaders(req, header)
     (a key the request already has is left alone, "Host" only fills an empty req.Host with
     values[0], everything else is assigned with all its values).
   A Go map is iterated in an unspecified order; the lists below are walked front to back and
   the theorems (Proofs/AmmoCfgHeadersProofs.v) are about look-ups, which do not depend on it
   when the canonical keys are distinct.
   Executable definitions only. *)
From Coq Require Import List NArith ZArith Bool.
From PV Require Import Lib.AmmoBytes Lib.AmmoLines Model.AmmoCommon Model.AmmoConfigInput
  Model.AmmoRaw Model.AmmoJson.
Import ListNotations.
Local Open Scope N_scope.

(* ---------- look-ups ---------- *)
Fixpoint hget (k : bytes) (h : headers) : option bytes :=
  match h with
  | [] => None
  | (k', v) :: r => if beq k k' then Some v else hget k r
  end.
Definition hhas (k : bytes) (h : headers) : bool :=
  match hget k h with Some _ => true | None => false end.

Fixpoint mget (k : bytes) (h : mheaders) : option (list bytes) :=
  match h with
  | [] => None
  | (k', vs) :: r => if beq k k' then Some vs else mget k r
  end.
Definition mhas (k : bytes) (h : mheaders) : bool :=
  match mget k h with Some _ => true | None => false end.

(* http.Header.Set on a canonical key: header[k] = []string{v} *)
Fixpoint mset (k v : bytes) (h : mheaders) : mheaders :=
  match h with
  | [] => [(k, [v])]
  | (k', vs) :: r => if beq k k' then (k', [v]) :: r else (k', vs) :: mset k v r
  end.

(* Clone of the in-file header accumulator (one value per key) *)
Definition of_single (h : headers) : mheaders := map (fun kv => (fst kv, [snd kv])) h.

(* ---------- the merges, as the decoders write them ---------- *)

(* uri / uripost: configured keys the entry does not have are copied with all their values *)
Fixpoint fill_absent (cfg : mheaders) (h : mheaders) : mheaders :=
  match cfg with
  | [] => h
  | (k, vs) :: r => fill_absent r (if mhas k h then h else h ++ [(k, vs)])
  end.
Definition line_merge (cfg : mheaders) (own : headers) : mheaders := fill_absent cfg (of_single own).

(* http/json (line, pretty-printed and array layouts): the entity's headers are Set over a
   clone of the configured ones; keys as written in the JSON object, Set canonicalises *)
Fixpoint json_merge (own : headers) (acc : mheaders) : mheaders :=
  match own with
  | [] => acc
  | (k, v) :: r => json_merge r (mset (canon_key k) v acc)
  end.

(* COUNTER-MODEL (not what the code does): the entity's headers Add-ed to the clone *)
Fixpoint json_merge_add (own : headers) (acc : mheaders) : mheaders :=
  match own with
  | [] => acc
  | (k, v) :: r => json_merge_add r (madd (canon_key k) v acc)
  end.

(* util.EnrichRequestWithHeaders(req, hs) on a request with Host [host] and Header [acc].
   None = values[0] of an empty value list (index out of range). *)
Fixpoint enrich_m (host : bytes) (hs : mheaders) (acc : mheaders) : option (bytes * mheaders) :=
  match hs with
  | [] => Some (host, acc)
  | (k, vs) :: r =>
      let k' := canon_key k in
      if mhas k' acc then enrich_m host r acc
      else if beq k' HOST then
        if is_nil host then
          match vs with
          | [] => None
          | v :: _ => enrich_m v r acc
          end
        else enrich_m host r acc
      else enrich_m host r (acc ++ [(k', vs)])
  end.

(* ---------- deliveries with their effective header map ---------- *)
Record mentry := {
  me_method : bytes; me_url : bytes; me_body : bytes; me_tag : bytes;
  me_headers : mheaders   (* Ammo.header: what Setup was given *)
}.

(* the printed request, values per key in order *)
Record mreqsum := {
  mr_method : bytes; mr_url : bytes; mr_host : bytes; mr_headers : mheaders;
  mr_body : bytes; mr_tag : bytes
}.

Inductive bres := MBInvalid | MBPanic | MBOk (r : mreqsum).

(* uri / uripost: readLine / readBlock merge right before Ammo.Setup, which does not look at
   the header; the merge cannot fail.  So a delivery with configured headers is the delivery of
   the decoder models (AmmoUri / AmmoUripost: e_headers = the accumulator at that line) with
   the merged map. *)
Definition line_mentry (cfg : mheaders) (e : entry) : mentry :=
  {| me_method := e_method e; me_url := e_url e; me_body := e_body e; me_tag := e_tag e;
     me_headers := line_merge cfg (e_headers e) |}.

Definition sres_map {A B} (f : A -> B) (r : sres A) : sres B :=
  match r with
  | SDeliver e => SDeliver (f e)
  | SErr e => SErr e
  | SPanic => SPanic
  | SNoAmmo => SNoAmmo
  | SPassLimit => SPassLimit
  | SAmmoLimit => SAmmoLimit
  | SOutOfFuel => SOutOfFuel
  end.

Definition line_run_cfg (cfg : mheaders) (rs : list (sres entry)) : list (sres mentry) :=
  map (sres_map (line_mentry cfg)) rs.

(* raw: the delivery carries the configured headers next to the buffer *)
Record mrentry := { mrb_buf : bytes; mrb_tag : bytes; mrb_common : mheaders }.
Definition raw_mentry (cfg : mheaders) (e : rentry) : mrentry :=
  {| mrb_buf := rb_buf e; mrb_tag := rb_tag e; mrb_common := cfg |}.
Definition raw_run_cfg (cfg : mheaders) (rs : list (sres rentry)) : list (sres mrentry) :=
  map (sres_map (raw_mentry cfg)) rs.

(* RawAmmo.BuildRequest after http.ReadRequest gave (host, headers) *)
Definition raw_enrich (cfg : mheaders) (host : bytes) (own : mheaders) : option (bytes * mheaders) :=
  enrich_m host cfg own.

(* ---------- http/json with an arbitrary materialisation of an entity ----------
   The loops of Model.AmmoJson (Scan, readArray, scanAmmos) with the step "entity -> what is
   delivered" as a parameter; Model.AmmoJson is the instance [entity_entry] (proved). *)
Section JsonG.
  Variable E : Type.
  Variable mk : entity -> E + err.

  Fixpoint json_loop_g (fuel : nat) (c : dcfg) (s : jstate) : sres E * jstate :=
    match fuel with
    | O => (SOutOfFuel, s)
    | S f =>
        if passes_hit c (js_pass s) then (SPassLimit, s)
        else
          match js_left s with
          | d :: r =>
              let s' := {| js_all := js_all s; js_end := js_end s; js_left := r;
                           js_ammo := N.succ (js_ammo s); js_pass := js_pass s |} in
              match mk d with
              | inl e => (SDeliver e, s')
              | inr e => (SErr e, s')
              end
          | [] =>
              match js_end s with
              | JErr => (SErr EJson, s)
              | JEof =>
                  if N.eqb (js_ammo s) 0 then (SNoAmmo, s)
                  else json_loop_g f c {| js_all := js_all s; js_end := js_end s; js_left := js_all s;
                                          js_ammo := js_ammo s; js_pass := N.succ (js_pass s) |}
              end
          end
    end.

  Definition json_scan_g (c : dcfg) (s : jstate) : sres E * jstate :=
    if limit_hit c (js_ammo s) then (SAmmoLimit, s) else json_loop_g 2 c s.

  Fixpoint json_run_g (k : nat) (c : dcfg) (s : jstate) : list (sres E) :=
    match k with
    | O => []
    | S k' =>
        let '(r, s') := json_scan_g c s in
        match r with
        | SDeliver _ => r :: json_run_g k' c s'
        | _ => [r]
        end
    end.

  Definition json_stream_decode_g (c : dcfg) (k : nat) (ents : list entity) (e : jend) : list (sres E) :=
    json_run_g k c (json_init ents e).

  Fixpoint read_array_g (ents : list entity) : option (list E) :=
    match ents with
    | [] => Some []
    | d :: r =>
        match mk d with
        | inr _ => None
        | inl e => match read_array_g r with Some es => Some (e :: es) | None => None end
        end
    end.

  Definition scan_ammos_g (c : dcfg) (es : list E) (ammo pass : N) : sres E * N * N :=
    match es with
    | [] => (SNoAmmo, ammo, pass)
    | e0 :: _ =>
        if passes_hit c pass then (SPassLimit, ammo, pass)
        else
          let len := nlen es in
          let i := N.modulo ammo len in
          let pass' := if N.eqb i (len - 1) then N.succ pass else pass in
          (SDeliver (nth (N.to_nat i) es e0), N.succ ammo, pass')
    end.

  Fixpoint array_run_g (k : nat) (c : dcfg) (es : list E) (ammo pass : N) : list (sres E) :=
    match k with
    | O => []
    | S k' =>
        if limit_hit c ammo then [SAmmoLimit]
        else
          let '(r, a', p') := scan_ammos_g c es ammo pass in
          match r with
          | SDeliver _ => r :: array_run_g k' c es a' p'
          | _ => [r]
          end
    end.

  Definition json_array_decode_g (c : dcfg) (k : nat) (ents : list entity) : option (list (sres E)) :=
    match read_array_g ents with
    | None => None
    | Some es => Some (array_run_g k c es 0 0)
    end.
End JsonG.
Arguments json_stream_decode_g {E} mk c k ents e.
Arguments json_array_decode_g {E} mk c k ents.
Arguments json_loop_g {E} mk fuel c s.
Arguments json_scan_g {E} mk c s.
Arguments json_run_g {E} mk k c s.
Arguments read_array_g {E} mk ents.
Arguments scan_ammos_g {E} c es ammo pass.
Arguments array_run_g {E} k c es ammo pass.

Section Cfg.
  Variable url_parse : bytes -> option (bytes * bytes).

  (* jsonline.go, both places: clone + Set, then Ammo.Setup (method and URL checks) *)
  Definition entity_mentry (cfg : mheaders) (d : entity) : mentry + err :=
    let u := HTTP_PREFIX ++ j_host d ++ j_uri d in
    if negb (valid_method (j_method d)) then inr EBadMethod
    else if negb (url_ok url_parse u) then inr EUrlParse
    else inl {| me_method := j_method d; me_url := u; me_body := j_body d; me_tag := j_tag d;
                me_headers := json_merge (j_headers d) cfg |}.

  (* the counter-model's entity *)
  Definition entity_mentry_add (cfg : mheaders) (d : entity) : mentry + err :=
    match entity_mentry cfg d with
    | inl e => inl {| me_method := me_method e; me_url := me_url e; me_body := me_body e; me_tag := me_tag e;
                      me_headers := json_merge_add (j_headers d) cfg |}
    | inr x => inr x
    end.

  Definition json_stream_decode_cfg (cfg : mheaders) (c : dcfg) (k : nat) (ents : list entity) (e : jend) :=
    json_stream_decode_g (entity_mentry cfg) c k ents e.
  Definition json_array_decode_cfg (cfg : mheaders) (c : dcfg) (k : nat) (ents : list entity) :=
    json_array_decode_g (entity_mentry cfg) c k ents.

  (* Ammo.BuildRequest: http.NewRequest (empty Header, Host from the URL) + Enrich *)
  Definition build_m (e : mentry) : bres :=
    match url_parse (me_url e) with
    | None => MBInvalid
    | Some (ustr, uhost) =>
        if negb (valid_method (me_method e)) then MBInvalid
        else
          match enrich_m uhost (me_headers e) [] with
          | None => MBPanic
          | Some (host, hs) =>
              MBOk {| mr_method := match me_method e with [] => GET | m => m end;
                     mr_url := ustr; mr_host := host; mr_headers := hs;
                     mr_body := me_body e; mr_tag := me_tag e |}
          end
    end.

  (* ---------- SPECIFICATION (written from the property text, not from the code) ----------
     Effective headers of an entry: what the entry names itself (one value per name), and for
     every other configured name all the configured values.  "Host" is not a header of the
     request: it is the request's Host when the URL names none. *)
  Definition eff_lookup (cfg : mheaders) (own : headers) (k : bytes) : option (list bytes) :=
    match hget k own with
    | Some v => Some [v]
    | None => mget k cfg
    end.

  Definition eff_list (cfg : mheaders) (own : headers) : mheaders :=
    of_single own ++ filter (fun kv => negb (hhas (fst kv) own)) cfg.

  Definition not_host (kv : bytes * list bytes) : bool := negb (beq (fst kv) HOST).

  Definition first_val (o : option (list bytes)) : bytes :=
    match o with Some (v :: _) => v | _ => [] end.

  (* [e]: an entry as the file says it (AmmoUri.uri_entries, AmmoUripost.uripost_entries,
     AmmoJson.entity_entry: own headers with canonical names) *)
  Definition spec_request (cfg : mheaders) (e : entry) : option mreqsum :=
    match url_parse (e_url e) with
    | None => None
    | Some (ustr, uhost) =>
        if negb (valid_method (e_method e)) then None
        else
          Some {| mr_method := match e_method e with [] => GET | m => m end;
                  mr_url := ustr;
                  mr_host := if is_nil uhost then first_val (eff_lookup cfg (e_headers e) HOST) else uhost;
                  mr_headers := filter not_host (eff_list cfg (e_headers e));
                  mr_body := e_body e; mr_tag := e_tag e |}
    end.

  (* raw: the request written in the file has (host, own headers, several values possible);
     configured names it does not carry are added, a configured Host serves when it has none *)
  Definition spec_raw (cfg : mheaders) (host : bytes) (own : mheaders) : bytes * mheaders :=
    (if is_nil host then first_val (mget HOST cfg) else host,
     own ++ filter (fun kv => not_host kv && negb (mhas (fst kv) own)) cfg).
End Cfg.

(* ---------- middlewares (provider.go Acquire: BuildRequest, then every configured middleware's
   UpdateRequest in order; an error makes Acquire hand the ammo back as unusable) ----------
   MwDate: middleware/headerdate: req.Header.Add(name, <clock reading>) - Add canonicalises the name;
           the value is the clock (the harness checks it against the wall clock and the middleware's
           location and replaces it by [DATE_STAMP]);
   MwFailAt n: a middleware whose UpdateRequest fails at its n-th call and otherwise leaves the request alone;
   MwInitFail: a middleware whose InitMiddleware fails (Provider.Run returns before the first Scan). *)
Inductive mw := MwDate (name : bytes) | MwFailAt (n : N) | MwInitFail.

Definition DATE : bytes := [68; 97; 116; 101].
Definition DATE_STAMP : bytes := [64; 110; 111; 119].   (* "@now" *)

Definition mw_update (i : N) (m : mw) (r : mreqsum) : option mreqsum :=
  match m with
  | MwDate name =>
      let nm := if is_nil name then DATE else name in
      Some {| mr_method := mr_method r; mr_url := mr_url r; mr_host := mr_host r;
              mr_headers := madd (canon_key nm) DATE_STAMP (mr_headers r);
              mr_body := mr_body r; mr_tag := mr_tag r |}
  | MwFailAt n => if N.eqb i n then None else Some r
  | MwInitFail => Some r
  end.

Fixpoint mws_update (i : N) (ms : list mw) (r : mreqsum) : option mreqsum :=
  match ms with
  | [] => Some r
  | m :: rest => match mw_update i m r with Some r' => mws_update i rest r' | None => None end
  end.

(* the i-th Acquire (i >= 1) of a provider with middlewares [ms], on what BuildRequest gave *)
Definition acquire_m (ms : list mw) (i : N) (b : bres) : bres :=
  match b with
  | MBOk r => match mws_update i ms r with Some r' => MBOk r' | None => MBInvalid end
  | x => x
  end.

Definition mws_init_ok (ms : list mw) : bool :=
  negb (existsb (fun m => match m with MwInitFail => true | _ => false end) ms).
