(* Model of core/coreutil/waiter.go (Waiter.Wait, Waiter.IsSlowDown) and of the fire/discard
   decision of core/engine/instance.go (property C04).  Executable definitions only.

   Time is Z nanoseconds from an arbitrary epoch.  Clock readings, the instant at which a call
   is made and the instant at which a timer wakes the caller are INPUTS of the model. *)
From Coq Require Import List ZArith Bool.
Import ListNotations.
Local Open Scope Z_scope.

(* const MaxOverdueDuration = 2 * time.Second  (bridged to Gen/ConstGen.v) *)
Definition max_overdue : Z := 2000000000.
(* netsample.DiscardedShootCodeError / DiscardedShootTag (bridged to Gen/ConstGen.v) *)
Definition discarded_code : N := 777%N.
Definition discarded_tag : list N := [100;105;115;99;97;114;100;101;100]%N.

(* The two variants of Wait the theorems talk about: [wfixed] is the tree after the fix commit
   (lateness of a token that is due by the cached reading is measured by the real clock unless the
   cached reading already proves it is outside the window), [worig] the tree before it. *)
Inductive wvariant := worig | wfixed.

Record wstate := {
  lastNow : option Z;   (* None: the zero time.Time (nothing read yet) *)
  overdue : Z           (* overdueDuration *)
}.
Definition wstate_init : wstate := {| lastNow := None; overdue := 0 |}.

(* what one call of Wait meets *)
Record wcall := {
  c_ctx_done : bool;      (* ctx.Done() is closed when Wait is entered *)
  c_tok : option Z;       (* sched.Next(): Some next | None (finished) *)
  c_now : Z;              (* the reading of time.Now() if this call takes one *)
  c_cancel_in_sleep : bool; (* ctx is cancelled while Wait sleeps on its timer *)
  c_wake : Z              (* the instant the timer wakes Wait, if it sleeps *)
}.

Record wout := {
  w_ok : bool;            (* Wait's result *)
  w_read : bool;          (* this call read the clock *)
  w_slept : bool          (* this call slept on the timer until c_wake *)
}.

Definition wait (v : wvariant) (st : wstate) (c : wcall) : wstate * wout :=
  if c_ctx_done c then
    ({| lastNow := lastNow st; overdue := 0 |}, {| w_ok := false; w_read := false; w_slept := false |})
  else
    match c_tok c with
    | None => ({| lastNow := lastNow st; overdue := 0 |}, {| w_ok := false; w_read := false; w_slept := false |})
    | Some next =>
        let cached_due := match lastNow st with Some l => next - l <=? 0 | None => false end in
        if cached_due then
          let l := match lastNow st with Some l => l | None => 0 end in
          match v with
          | worig =>
              (* waitFor := next.Sub(w.lastNow); if waitFor <= 0 { overdue = -waitFor; return true } *)
              ({| lastNow := lastNow st; overdue := l - next |},
               {| w_ok := true; w_read := false; w_slept := false |})
          | wfixed =>
              if l - next <? max_overdue then
                ({| lastNow := Some (c_now c); overdue := c_now c - next |},
                 {| w_ok := true; w_read := true; w_slept := false |})
              else
                ({| lastNow := lastNow st; overdue := l - next |},
                 {| w_ok := true; w_read := false; w_slept := false |})
          end
        else
          (* w.lastNow = time.Now(); waitFor = next.Sub(w.lastNow) *)
          if next - c_now c <=? 0 then
            ({| lastNow := Some (c_now c); overdue := c_now c - next |},
             {| w_ok := true; w_read := true; w_slept := false |})
          else
            (* overdue = 0; timer; select { <-timer.C: true | <-ctx.Done(): false } *)
            ({| lastNow := Some (c_now c); overdue := 0 |},
             {| w_ok := negb (c_cancel_in_sleep c); w_read := true; w_slept := negb (c_cancel_in_sleep c) |})
    end.

(* IsSlowDown (ctx not done) *)
Definition is_slow_down (st : wstate) : bool := max_overdue <=? overdue st.

(* instance.Run: if !i.discardOverflow || !waiter.IsSlowDown(ctx) { Shoot } else { Report(Discarded) } *)
Inductive decision := Fire | Discard.
Definition decide (discard_overflow : bool) (slow : bool) : decision :=
  if negb discard_overflow || negb slow then Fire else Discard.

(* The earliest instant at which this call of Wait can have returned, given the instant [enter]
   at which it was entered: it is not before a reading it took, nor before the timer woke it. *)
Definition return_lower (enter : Z) (c : wcall) (o : wout) : Z :=
  let a := if w_read o then Z.max enter (c_now c) else enter in
  if w_slept o then Z.max a (c_wake c) else a.

(* ---------------------------------------------------------------------------------------- *)
(* Whole histories of one instance on an idealised timeline (a clock reading equals the instant
   it is taken at, timers wake exactly on time): token times and response durations in, the
   fate of every token out.  This is also what predicts the harness's nominal timeline. *)

Record shot := {
  s_tok : Z;           (* the token's time *)
  s_pickup : Z;        (* the instant Wait was entered for it *)
  s_entry : Z;         (* the instant Shoot was entered / the discard was reported *)
  s_dec : decision
}.

(* [pre] : per token, the time the instance spends before calling Wait (Acquire, harness sleep);
   [durs] : the durations of the successive Shoot calls (consumed by fired tokens only) *)
Fixpoint run_inst (v : wvariant) (discard_overflow : bool) (st : wstate) (t : Z)
                  (toks : list (Z * Z)) (durs : list Z) : list shot :=
  match toks with
  | [] => []
  | (pre, next) :: r =>
      let enter := t + pre in
      let c := {| c_ctx_done := false; c_tok := Some next; c_now := enter; c_cancel_in_sleep := false;
                  c_wake := next |} in
      let '(st', o) := wait v st c in
      let ret := return_lower enter c o in
      match decide discard_overflow (is_slow_down st') with
      | Fire =>
          let d := match durs with d :: _ => d | [] => 0 end in
          {| s_tok := next; s_pickup := enter; s_entry := ret; s_dec := Fire |}
            :: run_inst v discard_overflow st' (ret + d) r (tl durs)
      | Discard =>
          {| s_tok := next; s_pickup := enter; s_entry := ret; s_dec := Discard |}
            :: run_inst v discard_overflow st' ret r durs
      end
  end.

(* ---------------------------------------------------------------------------------------- *)
(* What a CONFIGURED composite rps profile means (specification side, used to judge the engine
   against the profile as written, not against the instants the real schedule object hands out):
   every segment starts at the finish of the previous one. *)
Inductive segment :=
| SOnce (n : nat)                          (* once: n tokens at the segment's start, no duration *)
| SConst (period : Z) (n : nat) (dur : Z)  (* const: n tokens, the k-th at start + k*period; lasts dur *)
| SPause (dur : Z)                         (* const 0 rps: no token, lasts dur *)
| SUnl (dur : Z).                          (* unlimited: any number of tokens in [start, start+dur) *)

Fixpoint const_offsets (start period : Z) (k : nat) (n : nat) : list Z :=
  match n with
  | O => []
  | S m => (start + Z.of_nat k * period) :: const_offsets start period (S k) m
  end.

(* finite token offsets (in order) and the windows of the unlimited segments *)
Fixpoint profile_offsets (start : Z) (segs : list segment) : list Z * list (Z * Z) :=
  match segs with
  | [] => ([], [])
  | SOnce n :: r =>
      let '(o, u) := profile_offsets start r in (repeat start n ++ o, u)
  | SConst period n dur :: r =>
      let '(o, u) := profile_offsets (start + dur) r in (const_offsets start period 0 n ++ o, u)
  | SPause dur :: r => profile_offsets (start + dur) r
  | SUnl dur :: r =>
      let '(o, u) := profile_offsets (start + dur) r in (o, (start, dur) :: u)
  end.

(* The discard_overflow option as the CLI config reader must deliver it: the written value
   (a literal, or a placeholder that resolves to a literal), true when the key is absent. *)
Definition configured_discard (written : option bool) : bool :=
  match written with Some b => b | None => true end.

(* The variant the correspondence run and the theorems are about: the tree as it is now. *)
Definition wcurrent : wvariant := wfixed.

(* ---------------------------------------------------------------------------------------- *)
(* The executable specification evaluated on the IMPLEMENTATION's observation of one token:
   ok = Wait returned true; slow = IsSlowDown (resp. the token was discarded);
   not_early = the measured instant after Wait is >= the token time;
   late_enter = the token was >= 2 s late already when Wait was entered;
   late_ret = it was >= 2 s late at the instant measured right after Wait returned. *)
Definition spec_token_b (discard_overflow ok slow not_early late_enter late_ret : bool) : bool :=
  if ok then
    not_early                                   (* never early *)
    && (negb slow || late_ret)                  (* < 2 s late => not slow *)
    && (negb late_enter || slow)                (* >= 2 s late at pick-up => slow *)
  else true.

(* engine level: discarded <-> slow when discard_overflow is on, never discarded when it is off *)
Definition spec_decision_b (discard_overflow slow discarded : bool) : bool :=
  if discard_overflow then Bool.eqb discarded slow else negb discarded.
