(* Model of the engine's shooting loop (core/engine/instance.go instance.Run) for N instances
   racing for ammo (core.Provider.Acquire/Release) and for schedule tokens
   (coreutil.Waiter over the shared RPS schedule, or one schedule per instance with
   rps-per-instance).  Executable definitions only; proofs are in Proofs/InstanceProofs.v.

   Every constructor of [ipc] is the program point BEFORE one atomic section of the loop:

     for !waiter.IsFinished(ctx) {              Check   : sched.Left() == 0 ?
         ammo, ok := provider.Acquire()         Acq     : pops an item or reports out-of-ammo
         if !ok { return outOfAmmoErr }
         defer provider.Release(ammo)
         if !waiter.Wait(ctx) { return nil }    Wait a  : sched.Next() draws a token (or none is left)
         if !discardOverflow || !IsSlowDown {   Dec a   : shoot / discard decision (oracle bit d)
             metrics.Request.Add(1)
             gun.Shoot(ammo)                    Shoot a : the Shoot call
             metrics.Response.Add(1)            Resp a
         } else { aggregator.Report(discarded) }
     }                                          Rel a   : the deferred Release

   The schedule is abstract: a number of remaining tokens with Left() = 0 <-> none remains
   (the contract property C02 is about).  No cancellation and no panic (property C05). *)
From Coq Require Import List Arith Bool.
Import ListNotations.

Record cfg := mkCfg {
  per_inst : bool;          (* rps-per-instance: one full profile per started instance *)
  discard_overflow : bool;  (* pool option discard_overflow *)
  prof : nat;               (* tokens of one RPS profile *)
  ammo0 : nat               (* items the provider can hand out *)
}.

Inductive ipc := Check | Acq | Wait (a : nat) | Dec (a : nat) | Shoot (a : nat) | Resp (a : nat) | Rel (a : nat) | Done.

Record inst := mkInst { pc : ipc; own : nat (* tokens left in the instance's own schedule *) }.

Inductive evkind := EAcq | EShoot | EDisc | ERel.
Record event := mkEv { ev_inst : nat; ev_kind : evkind; ev_item : nat }.

Record shared := mkSh {
  stoks : nat;       (* tokens left in the shared schedule *)
  ammo : nat;        (* items left in the provider *)
  acquired : nat;    (* successful Acquire calls; also the id of the next item *)
  released : nat;    (* Release calls *)
  fired : nat;       (* gun.Shoot calls *)
  discarded : nat;   (* discarded samples reported *)
  unfired : nat;     (* items whose Wait found no token *)
  request : nat;     (* Metrics.Request *)
  response : nat;    (* Metrics.Response *)
  log : list event   (* newest first *)
}.

Record state := mkSt { sh : shared; insts : list inst; start_open : bool }.

Definition left_of (c : cfg) (s : shared) (x : inst) : nat := if per_inst c then own x else stoks s.

Definition set_pc (x : inst) (p : ipc) : inst := mkInst p (own x).

(* One atomic section of instance number [i]; [d] is the IsSlowDown answer (used at Dec only). *)
Definition local_step (c : cfg) (i : nat) (d : bool) (s : shared) (x : inst) : option (shared * inst) :=
  match pc x with
  | Check => Some (s, set_pc x (if left_of c s x =? 0 then Done else Acq))
  | Acq =>
      match ammo s with
      | 0 => Some (s, set_pc x Done)
      | S k =>
          let a := acquired s in
          Some (mkSh (stoks s) k (S a) (released s) (fired s) (discarded s) (unfired s) (request s) (response s)
                     (mkEv i EAcq a :: log s),
                set_pc x (Wait a))
      end
  | Wait a =>
      let waste := (mkSh (stoks s) (ammo s) (acquired s) (released s) (fired s) (discarded s) (S (unfired s))
                         (request s) (response s) (log s), set_pc x (Rel a)) in
      if per_inst c then
        match own x with
        | 0 => Some waste
        | S k => Some (s, mkInst (Dec a) k)
        end
      else
        match stoks s with
        | 0 => Some waste
        | S k => Some (mkSh k (ammo s) (acquired s) (released s) (fired s) (discarded s) (unfired s)
                            (request s) (response s) (log s), set_pc x (Dec a))
        end
  | Dec a =>
      if discard_overflow c && d then
        Some (mkSh (stoks s) (ammo s) (acquired s) (released s) (fired s) (S (discarded s)) (unfired s)
                   (request s) (response s) (mkEv i EDisc a :: log s), set_pc x (Rel a))
      else
        Some (mkSh (stoks s) (ammo s) (acquired s) (released s) (fired s) (discarded s) (unfired s)
                   (S (request s)) (response s) (log s), set_pc x (Shoot a))
  | Shoot a =>
      Some (mkSh (stoks s) (ammo s) (acquired s) (released s) (S (fired s)) (discarded s) (unfired s)
                 (request s) (response s) (mkEv i EShoot a :: log s), set_pc x (Resp a))
  | Resp a =>
      Some (mkSh (stoks s) (ammo s) (acquired s) (released s) (fired s) (discarded s) (unfired s)
                 (request s) (S (response s)) (log s), set_pc x (Rel a))
  | Rel a =>
      Some (mkSh (stoks s) (ammo s) (acquired s) (S (released s)) (fired s) (discarded s) (unfired s)
                 (request s) (response s) (mkEv i ERel a :: log s), set_pc x Check)
  | Done => None
  end.

Fixpoint upd {A} (l : list A) (i : nat) (x : A) : list A :=
  match l, i with
  | [], _ => []
  | _ :: r, 0 => x :: r
  | y :: r, S k => y :: upd r k x
  end.

Definition step_inst (c : cfg) (i : nat) (d : bool) (s : state) : option state :=
  match nth_error (insts s) i with
  | None => None
  | Some x =>
      match local_step c i d (sh s) x with
      | None => None
      | Some (s', x') => Some (mkSt s' (upd (insts s) i x') (start_open s))
      end
  end.

Definition new_inst (c : cfg) : inst := mkInst Check (if per_inst c then prof c else 0).

(* startInstances creates one more instance (only while the start loop runs). *)
Definition spawn (c : cfg) (s : state) : option state :=
  if start_open s then Some (mkSt (sh s) (insts s ++ [new_inst c]) true) else None.

(* the start loop ends (startup profile exhausted or start context cancelled) *)
Definition close_start (s : state) : state := mkSt (sh s) (insts s) false.

Definition init (c : cfg) : state :=
  mkSt (mkSh (if per_inst c then 0 else prof c) (ammo0 c) 0 0 0 0 0 0 0 []) [] true.

Inductive action := AStep (i : nat) (d : bool) | ASpawn | AClose.

Definition apply_action (c : cfg) (a : action) (s : state) : option state :=
  match a with
  | AStep i d => step_inst c i d s
  | ASpawn => spawn c s
  | AClose => Some (close_start s)
  end.

Fixpoint run (c : cfg) (l : list action) (s : state) : option state :=
  match l with
  | [] => Some s
  | a :: r => match apply_action c a s with Some s' => run c r s' | None => None end
  end.

Definition is_done (x : inst) : bool := match pc x with Done => true | _ => false end.
Definition terminal_b (s : state) : bool := negb (start_open s) && forallb is_done (insts s).

(* schedule tokens the property speaks about: the shared profile, or one full profile per
   started instance *)
Definition tokens (c : cfg) (s : state) : nat := if per_inst c then length (insts s) * prof c else prof c.

(* chronological event list *)
Definition events (s : state) : list event := rev (log (sh s)).

(* ------------------------------------------------------------------------------------ *)
(* Executable form of "every acquired item is released exactly once, after its shot or
   discard, and never touched after the release": the events of item [a], in order, are
   Acquire, then at most one of Shoot/Discard, then Release, all by the same instance. *)

Definition proj (a : nat) (l : list event) : list event := filter (fun e => ev_item e =? a) l.

Definition kind_eqb (k1 k2 : evkind) : bool :=
  match k1, k2 with
  | EAcq, EAcq | EShoot, EShoot | EDisc, EDisc | ERel, ERel => true
  | _, _ => false
  end.

Definition is_ev (e : event) (i : nat) (k : evkind) : bool := (ev_inst e =? i) && kind_eqb (ev_kind e) k.

Definition item_complete_b (l : list event) : bool :=
  match l with
  | [e1; e2] => is_ev e1 (ev_inst e1) EAcq && is_ev e2 (ev_inst e1) ERel
  | [e1; e2; e3] =>
      is_ev e1 (ev_inst e1) EAcq && (is_ev e2 (ev_inst e1) EShoot || is_ev e2 (ev_inst e1) EDisc)
      && is_ev e3 (ev_inst e1) ERel
  | _ => false
  end.

Definition pairing_b (n : nat) (l : list event) : bool :=
  forallb (fun a => item_complete_b (proj a l)) (seq 0 n) && forallb (fun e => ev_item e <? n) l.

(* ------------------------------------------------------------------------------------ *)
(* Replay of a log observed on the real engine.  Each observed operation must be the next
   atomic section of the instance that performed it, with the observed result. *)

Inductive oevent :=
| OSpawn (i : nat)                 (* instance i created (gun bound with InstanceID i) *)
| OLeft (i : nat) (zero : bool)    (* sched.Left() == 0 ? *)
| OAcq (i : nat) (a : option nat)  (* provider.Acquire: item id / out of ammo *)
| ONext (i : nat) (ok : bool)      (* sched.Next() *)
| OShoot (i : nat) (a : nat)       (* gun.Shoot(a) *)
| ODisc (i : nat)                  (* aggregator.Report(discarded sample) *)
| ORel (i : nat) (a : nat)         (* provider.Release(a) *)
| OEnd.                            (* start loop over *)

Definition ipc_eqb (p q : ipc) : bool :=
  match p, q with
  | Check, Check | Acq, Acq | Done, Done => true
  | Wait a, Wait b | Dec a, Dec b | Shoot a, Shoot b | Resp a, Resp b | Rel a, Rel b => a =? b
  | _, _ => false
  end.

Definition pc_at (s : state) (i : nat) : option ipc :=
  match nth_error (insts s) i with Some x => Some (pc x) | None => None end.

(* instance i is at [from]; perform its next section; it must arrive at [to] *)
Definition hop (c : cfg) (i : nat) (d : bool) (from to : ipc) (s : state) : option state :=
  match pc_at s i with
  | Some p =>
      if ipc_eqb p from then
        match step_inst c i d s with
        | Some s' => match pc_at s' i with
                     | Some q => if ipc_eqb q to then Some s' else None
                     | None => None
                     end
        | None => None
        end
      else None
  | None => None
  end.

Definition bind {A B} (o : option A) (f : A -> option B) : option B :=
  match o with Some x => f x | None => None end.

Definition held_item (p : ipc) : option nat :=
  match p with
  | Wait a | Dec a | Shoot a | Resp a | Rel a => Some a
  | _ => None
  end.

Definition replay_one (c : cfg) (e : oevent) (s : state) : option state :=
  match e with
  | OSpawn i => if i =? length (insts s) then spawn c s else None
  | OLeft i z => hop c i false Check (if z then Done else Acq) s
  | OAcq i (Some a) => hop c i false Acq (Wait a) s
  | OAcq i None => hop c i false Acq Done s
  | ONext i ok =>
      match pc_at s i with
      | Some (Wait a) => hop c i false (Wait a) (if ok then Dec a else Rel a) s
      | _ => None
      end
  | OShoot i a => bind (hop c i false (Dec a) (Shoot a) s) (hop c i false (Shoot a) (Resp a))
  | ODisc i =>
      match pc_at s i with
      | Some (Dec a) => hop c i true (Dec a) (Rel a) s
      | _ => None
      end
  | ORel i a =>
      match pc_at s i with
      | Some (Resp _) => bind (hop c i false (Resp a) (Rel a) s) (hop c i false (Rel a) Check)
      | _ => hop c i false (Rel a) Check s
      end
  | OEnd => Some (close_start s)
  end.

(* returns the state reached and the number of events accepted *)
Fixpoint replay (c : cfg) (l : list oevent) (s : state) (k : nat) : state * nat * bool :=
  match l with
  | [] => (s, k, true)
  | e :: r => match replay_one c e s with
              | Some s' => replay c r s' (S k)
              | None => (s, k, false)
              end
  end.
