(* C13: the top-level config file as the CLI reads it (cli/cli.go readConfig): viper hands out a value
   tree, a pre-pass writes `discard_overflow: true` into every pool that does not set it, then
   config.DecodeAndValidate decodes the whole tree.  The two type assertions of the pre-pass
   (`v.Get("pools").([]any)`, `pool.(map[string]any)`) are PARTIAL Go operations: in the single-value
   form they panic on any other dynamic type; in the comma-ok form ([checked] = true, the repaired
   code) they do not.  The decoder (mapstructure + validator + the plugin registry) is not modelled: it
   is a parameter of the reader.  Definitions only. *)
From Coq Require Import List NArith ZArith Bool.
From PV Require Import Lib.AmmoBytes Model.AmmoRobust.
Import ListNotations.

(* a configuration value as the YAML / JSON reader + viper hand it out *)
Inductive cval :=
| CNull
| CBool (b : bool)
| CInt (z : Z)
| CStr (s : bytes)
| CList (l : list cval)
| CMap (m : list (bytes * cval)).

(* a mapping: association list, the first entry of a key counts (viper: keys unique, lower case) *)
Definition settings := list (bytes * cval).

Fixpoint lookup (k : bytes) (m : settings) : option cval :=
  match m with
  | [] => None
  | (k', v) :: r => if beq k k' then Some v else lookup k r
  end.

(* v.Set(k, v) / m[k] = v *)
Fixpoint set_key (k : bytes) (v : cval) (m : settings) : settings :=
  match m with
  | [] => [(k, v)]
  | (k', v') :: r => if beq k k' then (k', v) :: r else (k', v') :: set_key k v r
  end.

Definition k_pools : bytes := [112; 111; 111; 108; 115]%N.
Definition k_log : bytes := [108; 111; 103]%N.
Definition k_monitoring : bytes := [109; 111; 110; 105; 116; 111; 114; 105; 110; 103]%N.
Definition k_discard : bytes :=
  [100; 105; 115; 99; 97; 114; 100; 95; 111; 118; 101; 114; 102; 108; 111; 119]%N.

(* v.ReadInConfig / v.ReadConfig: the document must be a mapping; an empty document (no bytes, only
   comments, `---`, `~`, JSON null) gives no settings at all; anything else is "Config read failed" *)
Definition read_settings (top : cval) : rres settings :=
  match top with
  | CMap m => VOk m
  | CNull => VOk []
  | _ => VErr
  end.

(* the loop body: poolMap := pool.(map[string]any); if _, ok := poolMap["discard_overflow"]; !ok { … = true } *)
Definition default_pool (checked : bool) (p : cval) : rres cval :=
  match p with
  | CMap m => VOk (CMap (match lookup k_discard m with
                         | Some _ => m
                         | None => m ++ [(k_discard, CBool true)]
                         end))
  | _ => if checked then VOk p else VPanic
  end.

(* for i, pool := range pools — left to right, the first panic ends the process *)
Fixpoint default_pools (checked : bool) (l : list cval) : rres (list cval) :=
  match l with
  | [] => VOk []
  | p :: r =>
      match default_pool checked p with
      | VOk p' => match default_pools checked r with
                  | VOk r' => VOk (p' :: r')
                  | VErr => VErr
                  | VPanic => VPanic
                  end
      | VErr => VErr
      | VPanic => VPanic
      end
  end.

(* pools := v.Get("pools").([]any) … v.Set("pools", pools) *)
Definition prepass (checked : bool) (s : settings) : rres settings :=
  match lookup k_pools s with
  | Some (CList l) =>
      match default_pools checked l with
      | VOk l' => VOk (set_key k_pools (CList l') s)
      | VErr => VErr
      | VPanic => VPanic
      end
  | _ => if checked then VOk s else VPanic
  end.

(* readConfig: read, pre-pass, config.DecodeAndValidate(v.AllSettings(), DefaultConfig()) *)
Definition cli_read {R : Type} (checked : bool) (decode : settings -> rres R) (top : cval) : rres R :=
  match read_settings top with
  | VOk s => match prepass checked s with
             | VOk s' => decode s'
             | VErr => VErr
             | VPanic => VPanic
             end
  | VErr => VErr
  | VPanic => VPanic
  end.

(* ---------- SPECIFICATION ---------- *)
Definition is_map (v : cval) : bool := match v with CMap _ => true | _ => false end.

(* `pools` is there and is a list of mappings *)
Definition pools_okb (s : settings) : bool :=
  match lookup k_pools s with
  | Some (CList l) => forallb is_map l
  | _ => false
  end.

(* an optional section is absent, null or a mapping *)
Definition section_okb (k : bytes) (s : settings) : bool :=
  match lookup k s with
  | None | Some CNull | Some (CMap _) => true
  | _ => false
  end.

(* the STRUCTURE of a config file: what is below the sections is the decoder's business *)
Definition shape_okb (s : settings) : bool :=
  pools_okb s && section_okb k_log s && section_okb k_monitoring s.

Definition has_key (k : bytes) (m : settings) : bool :=
  match lookup k m with Some _ => true | None => false end.

Definition spec_pool (p : cval) : cval :=
  match p with
  | CMap m => CMap (if has_key k_discard m then m else m ++ [(k_discard, CBool true)])
  | _ => p
  end.

Definition spec_default (s : settings) : settings :=
  match lookup k_pools s with
  | Some (CList l) => set_key k_pools (CList (map spec_pool l)) s
  | _ => s
  end.

(* what the reader must answer: a document that is no mapping, or whose structure is wrong, is
   rejected; otherwise the decoder's answer on the tree with the defaults written in *)
Definition cli_expected {R : Type} (decode : settings -> rres R) (top : cval) : rres R :=
  match read_settings top with
  | VOk s => if shape_okb s then decode (spec_default s) else VErr
  | _ => VErr
  end.
