(* Property C10, round 6: two parts of "one sample per fired request / per executed step" that
   lie between the shot and what the user gets to see.

   1. The scenario FILE: a request is declared with a [name] AND (optionally) a [tag]
      (components/providers/scenario/config RequestConfig, copied into gun.Request by
      providers/scenario/http/decode.go convertConfigToRequest); a scenario lists steps
      "name", "name(cnt)", "sleep(ms)".  The HTTP scenario gun labels a step's sample with the
      request NAME (http_scenario/gun.go: tag := ammo.Name + "." + req.Name), the gRPC scenario
      gun with the call's TAG (grpc/scenario/core.go: tag := ammo.Name + "." + call.Tag).
   2. The way of a reported sample to the results file: the phout aggregator's Report is a send
      on a bounded channel, its Run writes one line per received sample (Model/ReportQueue.v,
      shared with C04).  A run = several instances shooting, their Reports interleaved with the
      writer's receives in any order.
   Executable definitions only. *)
From Coq Require Import List NArith Bool.
From PV Require Import Lib.Table Model.Sample Model.GrpcStatus Model.Shoot Model.ShootEvents Model.ReportQueue.
Import ListNotations.
Local Open Scope N_scope.

(* ---------- 1. declared steps ---------- *)

Record sdecl := mkDecl { sd_name : bytes; sd_tag : bytes }.

Definition hstep_label (d : sdecl) : bytes := sd_name d.   (* http_scenario/gun.go shoot *)
Definition gstep_label (d : sdecl) : bytes := sd_tag d.    (* grpc/scenario/core.go shoot *)

Definition hlabelled {O : Type} (steps : list (sdecl * O)) : list (bytes * O) :=
  map (fun x => (hstep_label (fst x), snd x)) steps.
Definition glabelled {O : Type} (steps : list (sdecl * O)) : list (bytes * O) :=
  map (fun x => (gstep_label (fst x), snd x)) steps.

Definition hscen_shoot_decl (name : bytes) (steps : list (sdecl * hstep)) : list sample :=
  hscen_shoot name (hlabelled steps).
Definition hscen_ev_decl (name : bytes) (steps : list (sdecl * hstep)) : list sev :=
  hscen_ev name (hlabelled steps).
Definition gscen_shoot_decl (name : bytes) (steps : list (sdecl * gstep)) : list sample :=
  gscen_shoot name (glabelled steps).
Definition gscen_ev_decl (name : bytes) (steps : list (sdecl * gstep)) : list sev :=
  gscen_ev name (glabelled steps).

(* specification side, written without the gun models: the sample of one executed step *)
Definition hdecl_sample (name : bytes) (x : sdecl * hstep) : sample :=
  match snd x with
  | HStepOk st => mkSample (name ++ dot :: sd_name (fst x)) st 0 0
  | HStepFail => mkSample (name ++ dot :: sd_name (fst x) ++ 124 :: empty_tag) 0 proto_code_error 0
  end.
Definition hscen_decl_spec (name : bytes) (steps : list (sdecl * hstep)) : list sample :=
  map (hdecl_sample name) (executed (fun x => hstep_stops (snd x)) steps).
Definition gdecl_sample (name : bytes) (x : sdecl * gstep) : sample :=
  mkSample (name ++ dot :: sd_tag (fst x)) (gstep_code (snd x)) 0 0.
Definition gscen_decl_spec (name : bytes) (steps : list (sdecl * gstep)) : list sample :=
  map (gdecl_sample name) (executed (fun x => gstep_stops (snd x)) steps).

(* ---------- the steps a scenario of the file means ---------- *)

(* one entry of a scenario's `requests:` list *)
Inductive sitem :=
| SIReq (name : bytes) (cnt : nat)   (* "name" (cnt 1), "name(cnt)", "name(cnt, sleep)" *)
| SISleep.                           (* "sleep(ms)": added to the previous step, no step of its own *)

(* decodeAmmo: reqRegistry[req.Name] = req for every declared request in file order: the LAST
   declaration of a name is the one the scenarios get *)
Fixpoint reg_lookup {O : Type} (reg : list (sdecl * O)) (name : bytes) : option (sdecl * O) :=
  match reg with
  | [] => None
  | d :: r =>
      match reg_lookup r name with
      | Some x => Some x
      | None => if tags_eqb (sd_name (fst d)) name then Some d else None
      end
  end.

(* convertScenarioToAmmo: None = the provider refuses the file ("request ... not found",
   "sleep() must follow a request") *)
Fixpoint scen_steps {O : Type} (reg : list (sdecl * O)) (acc : list (sdecl * O)) (items : list sitem)
  : option (list (sdecl * O)) :=
  match items with
  | [] => Some acc
  | SISleep :: r => match acc with [] => None | _ => scen_steps reg acc r end
  | SIReq nm cnt :: r =>
      match reg_lookup reg nm with
      | None => None
      | Some d => scen_steps reg (acc ++ repeat d cnt) r
      end
  end.

Definition hscen_file_shoot (name : bytes) (reg : list (sdecl * hstep)) (items : list sitem) : option (list sample) :=
  option_map (hscen_shoot_decl name) (scen_steps reg [] items).
Definition hscen_file_ev (name : bytes) (reg : list (sdecl * hstep)) (items : list sitem) : option (list sev) :=
  option_map (hscen_ev_decl name) (scen_steps reg [] items).

(* the gRPC scenario provider (providers/scenario/grpc/decode.go) reads `calls:` the same way *)
Definition gscen_file_shoot (name : bytes) (reg : list (sdecl * gstep)) (items : list sitem) : option (list sample) :=
  option_map (gscen_shoot_decl name) (scen_steps reg [] items).
Definition gscen_file_ev (name : bytes) (reg : list (sdecl * gstep)) (items : list sitem) : option (list sev) :=
  option_map (gscen_ev_decl name) (scen_steps reg [] items).

(* specification side: the steps the list means = every named request, as many times as written,
   sleeps are no steps; the declaration meant by a name = the last one carrying it *)
Definition last_decl {O : Type} (reg : list (sdecl * O)) (name : bytes) : option (sdecl * O) :=
  find (fun d => tags_eqb (sd_name (fst d)) name) (rev reg).
Definition item_steps {O : Type} (reg : list (sdecl * O)) (it : sitem) : list (sdecl * O) :=
  match it with
  | SISleep => []
  | SIReq nm cnt => match last_decl reg nm with Some d => repeat d cnt | None => [] end
  end.
Definition item_known {O : Type} (reg : list (sdecl * O)) (it : sitem) : bool :=
  match it with
  | SISleep => true
  | SIReq nm _ => match last_decl reg nm with Some _ => true | None => false end
  end.
Definition file_steps {O : Type} (reg : list (sdecl * O)) (items : list sitem) : list (sdecl * O) :=
  flat_map (item_steps reg) items.
Definition hscen_file_spec (name : bytes) (reg : list (sdecl * hstep)) (items : list sitem) : list sample :=
  hscen_decl_spec name (file_steps reg items).

Definition gscen_file_spec (name : bytes) (reg : list (sdecl * gstep)) (items : list sitem) : list sample :=
  gscen_decl_spec name (file_steps reg items).

(* ---------- 2. a run: instances -> phout queue -> lines ---------- *)

(* one shot of one instance, of any gun kind *)
Inductive shot :=
| ShHttp (cfg : autotag_cfg) (invalid : bool) (id : N) (ammo_tag path : bytes) (x : exchange)
| ShHScen (name : bytes) (steps : list (sdecl * hstep))
| ShGrpc (tag : bytes) (c : gcall)
| ShGScen (name : bytes) (steps : list (sdecl * gstep)).

(* the samples the gun reports for it (code-shaped side) ... *)
Definition shot_reports (s : shot) : list sample :=
  match s with
  | ShHttp cfg inv id tg p x => base_shoot cfg HNone inv id tg p x
  | ShHScen nm st => hscen_shoot_decl nm st
  | ShGrpc tg c => grpc_shoot tg c
  | ShGScen nm st => gscen_shoot_decl nm st
  end.
(* ... and the samples the property asks for: one per fired request / executed step *)
Definition shot_spec (s : shot) : list sample :=
  match s with
  | ShHttp cfg inv id tg p x => [base_spec cfg inv id tg p x]
  | ShHScen nm st => hscen_decl_spec nm st
  | ShGrpc tg c => [mkSample tg (gcall_code c) 0 0]   (* the code is the documented one: C10_grpc_table *)
  | ShGScen nm st => gscen_decl_spec nm st
  end.

(* fired requests / executed steps of a shot *)
Definition shot_requests (s : shot) : nat :=
  match s with
  | ShHttp _ _ _ _ _ _ | ShGrpc _ _ => 1
  | ShHScen _ st => length (executed (fun x => hstep_stops (snd x)) st)
  | ShGScen _ st => length (executed (fun x => gstep_stops (snd x)) st)
  end.

(* the lines of the results file after the run: the writer drains the channel at the end.
   None = the history is not one of completed operations (a send on a full channel / a receive
   from an empty one does not complete). *)
Definition run_lines {A : Type} (var : qvariant) (cap : nat) (evs : list (qev A)) : option (list A) :=
  option_map (fun s => q_written (qdrain s)) (qrun var cap qinit evs).
Definition run_lost {A : Type} (var : qvariant) (cap : nat) (evs : list (qev A)) : option (list A) :=
  option_map (fun s => q_dropped s) (qrun var cap qinit evs).

(* a canonical history for a list of reports made while the writer is [behind]: the writer
   receives only when a reporter cannot go on (channel full), i.e. as late as a blocking Report
   allows; with a Report that gives up the writer never gets to run before the end. *)
Fixpoint lazy_history {A : Type} (var : qvariant) (cap : nat) (s : qstate A) (reports : list A) : list (qev A) :=
  match reports with
  | [] => []
  | x :: r =>
      match qstep var cap s (QSend x) with
      | Some s' => QSend x :: lazy_history var cap s' r
      | None =>
          match qstep var cap s QRecv with
          | Some s1 =>
              match qstep var cap s1 (QSend x) with
              | Some s2 => QRecv :: QSend x :: lazy_history var cap s2 r
              | None => []
              end
          | None => []
          end
      end
  end.
