(* The FRAME of Provider.Run around the delivery loop (property C08: "once its bounds are reached
   or it is cancelled a provider never keeps consumers blocked").

   Acquire is a bare receive from the sink: the only thing that ever releases an instance waiting
   for ammo is the close of the sink, and the sink is closed by a DEFERRED call of Run.  A deferred
   call only runs when Run returns AFTER the `defer` statement was executed: every way of
   returning that lies above it leaves the sink open.  Model/Provider.v starts at the loop and
   reports "sink closed" at every Stop; this file models the statements of Run in front of the
   loop, in source order, and computes whether the sink is closed from WHERE Run returned.

   The run context may already be done when Run starts (engine.instancePool.runAsync starts the
   provider, the aggregator and the instances in separate goroutines; a cancellation can fall
   between the first Acquire of an instance and the first statement of Run): that is
   [cancel = Some 0], seen by the prologue as [is_cancelled cancel 0].  The ammo source of the
   providers that open it inside Run may fail to open ([opens = false]).

   Executable definitions only; proofs are in Proofs/ProviderFrameProofs.v. *)
From Coq Require Import List Arith Bool.
From PV Require Import Model.Provider.
Import ListNotations.

Inductive pstmt :=
| PDeferCloseSink    (* `defer close(p.sink)` / a deferred func whose first statement closes the sink *)
| PCtxCheck          (* `if err := ctx.Err(); err != nil { return err }` *)
| POpenSource        (* the ammo source is opened inside Run; `if err != nil { return … }` *)
| PPrepare.          (* a statement that cannot return: `p.Deps = deps`, `defer file.Close()`, … *)

(* components/providers/http/provider/provider.go Run: `p.Deps = deps`; `defer func() { close(p.Sink); … p.Close() … }()`;
     (the loop over p.Middlewares: none configured); runFullScan / loadAmmo+runPreloaded
   components/providers/scenario/provider.go Run: `p.Deps = deps`; `defer close(p.sink)`; the loop
     (its `length == 0` test and the per-iteration ctx.Err() test are the loop's, Model/Provider.v scen_step)
   components/providers/grpc/provider.go Run: `defer p.Close()`; `p.ProviderDeps = deps`; `defer close(p.Sink)`;
     `file, err := p.fs.Open(p.fileName)` + return; `defer file.Close()`; start
   core/provider/decoder.go DecodeProvider.Run: `p.ProviderDeps = deps`; `defer close(p.OutQueue)`;
     `source, err := p.conf.Source.OpenSource()` + return; deferred source.Close(); the reader and decoder set-up *)
Definition prologue_of (k : pkind) : list pstmt :=
  match k with
  | KHttp _ _ => [PPrepare; PDeferCloseSink]
  | KScenario => [PPrepare; PDeferCloseSink]
  | KGrpcJson => [PPrepare; PPrepare; PDeferCloseSink; POpenSource; PPrepare]
  | KDecode => [PPrepare; PDeferCloseSink; POpenSource; PPrepare; PPrepare]
  end.

Inductive pre_res :=
| PGo (deferred : bool)                       (* the loop is entered; was the close of the sink deferred *)
| PReturn (o : outcome) (deferred : bool).    (* Run returned from the prologue *)

Fixpoint run_prologue (c opens : bool) (ps : list pstmt) (deferred : bool) : pre_res :=
  match ps with
  | [] => PGo deferred
  | PDeferCloseSink :: r => run_prologue c opens r true
  | PCtxCheck :: r => if c then PReturn (Failed ECtx) deferred else run_prologue c opens r deferred
  | POpenSource :: r => if opens then run_prologue c opens r deferred else PReturn (Failed EOpen) deferred
  | PPrepare :: r => run_prologue c opens r deferred
  end.

(* Run = prologue, then the loop; the sink is closed when Run returns iff the close was deferred
   before the point of return *)
Definition frame_run (ps : list pstmt) (opens : bool) (cancel : option nat) (loop : result) : result :=
  match run_prologue (is_cancelled cancel 0) opens ps false with
  | PReturn o d => mkres [] o d 0
  | PGo d =>
      match out loop with
      | OutOfFuel => loop                                          (* Run has not returned *)
      | o => mkres (delivered loop) o (closed loop && d) (steps loop)
      end
  end.

Definition run_framed (k : pkind) (opens : bool) (cf : cfg) (es : list entry) (cancel : option nat)
           (fuel : nat) : result :=
  frame_run (prologue_of k) opens cancel (run k cf es cancel fuel).

(* Does the prologue close the sink on every path: the close is deferred before any statement
   that can return *)
Fixpoint defers_first (ps : list pstmt) : bool :=
  match ps with
  | [] => false
  | PDeferCloseSink :: _ => true
  | PPrepare :: r => defers_first r
  | _ => false
  end.
