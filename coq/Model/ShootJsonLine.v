(* C10, round 8: the line of an http/json (jsonline) ammo file as the list of MEMBERS written in
   its JSON object, decoded the way encoding/json decodes an object into a struct value:
   every member that is written is stored into the field it names (a later member of the same
   name overwrites an earlier one), members that name no field - and members whose value is
   null - change nothing, and a field NO member names is left as the decode target had it.
   jsonline.go Scan declares the target inside the loop (`var da entity`), i.e. every line is
   decoded into a FRESH entity; `reuse_entities` is the variant with one target for all lines.
   Definitions only.  The JSON text itself stays an oracle (encoding/json). *)
From Coq Require Import List NArith Bool.
From PV Require Import Lib.AmmoBytes Lib.AmmoLines Model.AmmoCommon Model.AmmoJson.
Import ListNotations.

Inductive jmember :=
| MHost (b : bytes) | MMethod (b : bytes) | MUri (b : bytes)
| MHeaders (h : headers)
| MTag (b : bytes) | MBody (b : bytes)
| MIgnored (key : bytes).      (* a key that names no field of the entity, or a null value *)

Definition jline := list jmember.

Definition set_member (e : entity) (m : jmember) : entity :=
  match m with
  | MHost b => {| j_host := b; j_method := j_method e; j_uri := j_uri e; j_headers := j_headers e; j_tag := j_tag e; j_body := j_body e |}
  | MMethod b => {| j_host := j_host e; j_method := b; j_uri := j_uri e; j_headers := j_headers e; j_tag := j_tag e; j_body := j_body e |}
  | MUri b => {| j_host := j_host e; j_method := j_method e; j_uri := b; j_headers := j_headers e; j_tag := j_tag e; j_body := j_body e |}
  | MHeaders h => {| j_host := j_host e; j_method := j_method e; j_uri := j_uri e; j_headers := h; j_tag := j_tag e; j_body := j_body e |}
  | MTag b => {| j_host := j_host e; j_method := j_method e; j_uri := j_uri e; j_headers := j_headers e; j_tag := b; j_body := j_body e |}
  | MBody b => {| j_host := j_host e; j_method := j_method e; j_uri := j_uri e; j_headers := j_headers e; j_tag := j_tag e; j_body := b |}
  | MIgnored _ => e
  end.

(* decoder.Decode(&e): the members in the order they are written *)
Definition decode_into (e : entity) (l : jline) : entity := fold_left set_member l e.

(* `var da entity`: the zero value *)
Definition fresh_entity : entity :=
  {| j_host := []; j_method := []; j_uri := []; j_headers := []; j_tag := []; j_body := [] |}.

(* Scan of the source: a fresh target per line *)
Definition line_entity (l : jline) : entity := decode_into fresh_entity l.
Definition lines_entities (ls : list jline) : list entity := map line_entity ls.

(* the variant: ONE target, `clear` applied to it before each line is decoded into it *)
Fixpoint reuse_entities (clear : entity -> entity) (cur : entity) (ls : list jline) : list entity :=
  match ls with
  | [] => []
  | l :: r => let e := decode_into (clear cur) l in e :: reuse_entities clear e r
  end.

(* specification side: the tag WRITTEN on a line = the value of its last tag member; a line
   without a tag member has no tag (the empty one) *)
Fixpoint written_tag (l : jline) : option bytes :=
  match l with
  | [] => None
  | m :: r =>
      match written_tag r with
      | Some t => Some t
      | None => match m with MTag t => Some t | _ => None end
      end
  end.

Definition line_tag (l : jline) : bytes := match written_tag l with Some t => t | None => [] end.

(* How Scan holds its decode target, as the translator re-reads it from jsonline.go
   (translate jsontarget): declared inside the loop (`var da entity`: a fresh zero value per
   line), or one value living across the lines with the listed fields reset before each decode. *)
Inductive jfield := FHost | FMethod | FUri | FHeaders | FTag | FBody.
Inductive jtarget := TFresh | TReused (reset : list jfield).

Definition jfield_eqb (a b : jfield) : bool :=
  match a, b with
  | FHost, FHost | FMethod, FMethod | FUri, FUri | FHeaders, FHeaders | FTag, FTag | FBody, FBody => true
  | _, _ => false
  end.

Definition resets (fs : list jfield) (f : jfield) : bool := existsb (jfield_eqb f) fs.

Definition clear_fields (fs : list jfield) (e : entity) : entity :=
  {| j_host := if resets fs FHost then [] else j_host e;
     j_method := if resets fs FMethod then [] else j_method e;
     j_uri := if resets fs FUri then [] else j_uri e;
     j_headers := if resets fs FHeaders then [] else j_headers e;
     j_tag := if resets fs FTag then [] else j_tag e;
     j_body := if resets fs FBody then [] else j_body e |}.

Definition scan_entities (t : jtarget) (ls : list jline) : list entity :=
  match t with
  | TFresh => lines_entities ls
  | TReused fs => reuse_entities (clear_fields fs) fresh_entity ls
  end.

(* the condition the bridge checks of the source *)
Definition target_zeroed (t : jtarget) : bool :=
  match t with
  | TFresh => true
  | TReused fs => forallb (resets fs) [FHost; FMethod; FUri; FHeaders; FTag; FBody]
  end.
