(* Model for property C19: the sample OBJECT.  netsample.Acquire takes an object from a pool; the phout aggregator
   hands every sample back to the pool after writing it, so the sample of a later request is usually the recycled
   object of an earlier one.  A gun marks only what happened: SetProtoCode(status) when a response arrived, SetErr
   when something failed (error flag + net code) - never both unconditionally.  "Reported as a sample carrying the
   received status or the failure" therefore needs Acquire to leave nothing of the previous use behind.
   Executable definitions only. *)
From Coq Require Import List ZArith Bool.
From PV Require Import Model.Robust.
Import ListNotations.
Local Open Scope Z_scope.

(* the fields of netsample.Sample the report is about *)
Record sobj := { so_net : Z; so_proto : Z; so_err : bool }.

Inductive sop := OpSetProto (c : Z) | OpSetErr (net : Z).

Definition apply_op (s : sobj) (o : sop) : sobj :=
  match o with
  | OpSetProto c => {| so_net := so_net s; so_proto := c; so_err := so_err s |}
  | OpSetErr e => {| so_net := e; so_proto := so_proto s; so_err := true |}
  end.

(* Acquire: `*s = Sample{timeStamp: now, tags: tag}` - the object is overwritten as a whole *)
Definition acquire (prev : sobj) : sobj := {| so_net := 0; so_proto := 0; so_err := false |}.
(* the contrast: a field-by-field reset that leaves the two codes alone *)
Definition acquire_keeping_codes (prev : sobj) : sobj := {| so_net := so_net prev; so_proto := so_proto prev; so_err := false |}.

Definition report (acq : sobj -> sobj) (prev : sobj) (ops : list sop) : sobj := fold_left apply_op ops (acq prev).

(* what BaseGun.Shoot marks for a response (Model/Robust.v base_shoot): transport failure = SetErr only; clean
   exchange = SetProtoCode only; a body that fails after the status = both.  [net] = the net code of the failure. *)
Definition ops_of (r : response) (net : Z) : list sop :=
  if negb (conn_ok (rs_conn r)) then [OpSetErr net]
  else if rs_body_ok r then [OpSetProto (rs_status r)]
  else [OpSetProto (rs_status r); OpSetErr net].

(* one pooled object used for a whole history of requests: each report is made from what the previous one left *)
Fixpoint run_pool (acq : sobj -> sobj) (prev : sobj) (hist : list (list sop)) : list sobj :=
  match hist with
  | [] => []
  | ops :: r => let s := report acq prev ops in s :: run_pool acq s r
  end.
