(* Model of the phout line renderer (core/aggregator/netsample/phout.go appendPhout,
   appendTimestamp; sample.go field keys) and a parser for the documented line layout
   (property C06, part a). Executable definitions only. Bytes are N. *)
From Coq Require Import List NArith ZArith Bool.
From PV Require Import Lib.Decimal Gen.PhoutGen.
Import ListNotations.
Local Open Scope N_scope.

Definition bytes := list N.

Definition TAB : N := 9.
Definition LF : N := 10.
Definition DOT : N := 46.
Definition HASH : N := 35.

Inductive outcome (A : Type) :=
| Ok (a : A)
| Panic.               (* Go run-time panic (index out of range) *)
Arguments Ok {A} a.
Arguments Panic {A}.

(* What a phout line carries. [ps_ms] is ts.UnixNano()/1e6; [ps_id] is a uint64. *)
Record psample := { ps_ms : Z; ps_tag : bytes; ps_id : N; ps_fields : list Z }.

(* ts.UnixNano()/1e6: Go integer division truncates toward zero. *)
Definition ms_of_ns (ns : Z) : Z := Z.quot ns 1000000.

(* appendTimestamp on an empty dst: the decimal numeral of the milliseconds, then a dot is
   inserted three bytes from the end by shifting the tail; with fewer than three bytes the
   shifting loop reads dst[-1]: run-time panic. *)
Definition insert_dot (d : bytes) : outcome bytes :=
  if (length d <? 3)%nat then Panic
  else Ok (firstn (length d - 3) d ++ DOT :: skipn (length d - 3) d).

Definition render_ts (ms : Z) : outcome bytes := insert_dot (dec_Z ms).

(* strconv.AppendInt(dst, int64(s.ID()), 10): the uint64 id is converted to int64. *)
Definition int64_of_uint64 (id : N) : Z :=
  if id <? 9223372036854775808 then Z.of_N id else (Z.of_N id - 18446744073709551616)%Z.

Definition render_tagid (withid : bool) (tag : bytes) (id : N) : bytes :=
  if withid then tag ++ HASH :: dec_Z (int64_of_uint64 id) else tag.

Definition render_fields (fs : list Z) : bytes := flat_map (fun v => TAB :: dec_Z v) fs.

(* appendPhout: timestamp, TAB, tags, ['#' id], then TAB value for every field in index order. *)
Definition render_phout (withid : bool) (s : psample) : outcome bytes :=
  match render_ts (ps_ms s) with
  | Panic => Panic
  | Ok ts => Ok (ts ++ TAB :: render_tagid withid (ps_tag s) (ps_id s) ++ render_fields (ps_fields s))
  end.

(* ---- the sample's named values and where the source puts them ---- *)

(* Columns 3..12 of a phout line in the documented order (Yandex.Tank phout format):
   interval_real, connect_time, send_time, latency, receive_time, interval_event, size_out,
   size_in, net_code, proto_code. *)
Record named := {
  n_interval_real : Z; n_connect_time : Z; n_send_time : Z; n_latency : Z; n_receive_time : Z;
  n_interval_event : Z; n_size_out : Z; n_size_in : Z; n_net_code : Z; n_proto_code : Z }.

Definition documented_columns (v : named) : list Z :=
  [n_interval_real v; n_connect_time v; n_send_time v; n_latency v; n_receive_time v;
   n_interval_event v; n_size_out v; n_size_in v; n_net_code v; n_proto_code v].

Fixpoint set_nth (k : nat) (v : Z) (l : list Z) : list Z :=
  match l, k with
  | [], _ => []
  | _ :: r, O => v :: r
  | x :: r, S k' => x :: set_nth k' v r
  end.

(* s.set(key, v) for each named value, keys = the constants compiled from sample.go
   (Gen/PhoutGen.v), on the zero array of fieldsNum entries. *)
Definition fields_array (v : named) : list Z :=
  let set k x l := set_nth (N.to_nat k) x l in
  set gen_key_proto_code (n_proto_code v)
  (set gen_key_errno (n_net_code v)
  (set gen_key_response_bytes (n_size_in v)
  (set gen_key_request_bytes (n_size_out v)
  (set gen_key_interval_event_micro (n_interval_event v)
  (set gen_key_receive_micro (n_receive_time v)
  (set gen_key_latency_micro (n_latency v)
  (set gen_key_send_micro (n_send_time v)
  (set gen_key_connect_micro (n_connect_time v)
  (set gen_key_rtt_micro (n_interval_real v)
  (repeat 0%Z (N.to_nat gen_fields_num))))))))))).

(* ---- parser of the documented layout ---- *)

Fixpoint split_sep (sep : N) (acc : bytes) (s : bytes) : list bytes :=
  match s with
  | [] => [rev acc]
  | c :: r => if c =? sep then rev acc :: split_sep sep [] r else split_sep sep (c :: acc) r
  end.

Fixpoint split_first (sep : N) (acc : bytes) (s : bytes) : option (bytes * bytes) :=
  match s with
  | [] => None
  | c :: r => if c =? sep then Some (rev acc, r) else split_first sep (c :: acc) r
  end.

(* split at the LAST separator *)
Definition rsplit (sep : N) (s : bytes) : option (bytes * bytes) :=
  match split_first sep [] (rev s) with
  | Some (a, b) => Some (rev b, rev a)
  | None => None
  end.

Fixpoint all_some {A} (l : list (option A)) : option (list A) :=
  match l with
  | [] => Some []
  | Some x :: r => match all_some r with Some xs => Some (x :: xs) | None => None end
  | None :: _ => None
  end.

(* "<seconds>.<3 digits>" -> milliseconds *)
Definition parse_ts (b : bytes) : option Z :=
  match split_sep DOT [] b with
  | [secs; frac] =>
      if (length frac =? 3)%nat then
        match undec_N secs, undec_N frac with
        | Some q, Some r => Some (Z.of_N (q * 1000 + r))
        | _, _ => None
        end
      else None
  | _ => None
  end.

Definition parse_tagid (withid : bool) (b : bytes) : option (bytes * N) :=
  if withid then
    match rsplit HASH b with
    | Some (tag, idb) =>
        match undec_N idb with
        | Some id => Some (tag, id)
        | None => None
        end
    | None => None
    end
  else Some (b, 0).

Definition out_eqb (o : outcome bytes) (l : bytes) : bool :=
  match o with Ok b => bytes_eqb b l | Panic => false end.

(* One line (without the LF): twelve TAB separated columns; accepted only if it is the
   canonical rendering of what was read (no leading zeros, no stray signs, ...). Without
   ids the id of the result is 0. *)
Definition parse_phout (withid : bool) (line : bytes) : option psample :=
  match split_sep TAB [] line with
  | ts :: tagid :: cols =>
      if (length cols =? 10)%nat then
        match parse_ts ts, parse_tagid withid tagid, all_some (map undec_Z cols) with
        | Some ms, Some (tag, id), Some fs =>
            let s := {| ps_ms := ms; ps_tag := tag; ps_id := id; ps_fields := fs |} in
            if out_eqb (render_phout withid s) line then Some s else None
        | _, _, _ => None
        end
      else None
  | _ => None
  end.

(* A result file: every line is terminated by LF. *)
Fixpoint split_lines (acc : bytes) (s : bytes) : option (list bytes) :=
  match s with
  | [] => match acc with [] => Some [] | _ => None end     (* unterminated last line *)
  | c :: r =>
      if c =? LF then
        match split_lines [] r with Some ls => Some (rev acc :: ls) | None => None end
      else split_lines (c :: acc) r
  end.

Definition parse_file (withid : bool) (file : bytes) : option (list psample) :=
  match split_lines [] file with
  | Some ls => all_some (map (parse_phout withid) ls)
  | None => None
  end.

(* The bytes the aggregator writes for a list of handled samples (handle: line + LF);
   None when some line panics. *)
Fixpoint render_file (withid : bool) (ss : list psample) : option bytes :=
  match ss with
  | [] => Some []
  | s :: r =>
      match render_phout withid s, render_file withid r with
      | Ok l, Some rest => Some (l ++ LF :: rest)
      | _, _ => None
      end
  end.

(* guards of the round-trip statement *)
Definition no_byte (x : N) (l : bytes) : bool := forallb (fun b => negb (b =? x)) l.
Definition tag_ok (tag : bytes) : bool := no_byte TAB tag && no_byte LF tag.
Definition sample_ok (s : psample) : bool :=
  (1000 <=? ps_ms s)%Z && tag_ok (ps_tag s) && (ps_id s <? 9223372036854775808)
  && (length (ps_fields s) =? 10)%nat.
