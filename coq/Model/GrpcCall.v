(* Model of a gRPC shot (property C20): components/guns/grpc/core.go (Gun.shoot) and
   components/guns/grpc/scenario/{core,templater_text}.go (Gun.shootStep, TextTemplater.Apply).
   Executable definitions only.  Third-party behaviour (protobuf/JSON codec, text/template,
   the target's answer) enters as Section variables, so every theorem is quantified over it. *)
From Coq Require Import List NArith ZArith Bool.
Import ListNotations.

Definition gbytes := list N.

Fixpoint gbytes_eqb (a b : gbytes) : bool :=
  match a, b with
  | [], [] => true
  | x :: a', y :: b' => N.eqb x y && gbytes_eqb a' b'
  | _, _ => false
  end.

Definition gmeta := list (gbytes * gbytes).      (* a Go map[string]string, as an association list *)

(* What reaches the wire for one call. Timeout in nanoseconds (time.Duration). *)
Record sent (msg : Type) := mkSent {
  s_method : gbytes;
  s_message : msg;
  s_meta : gmeta;
  s_timeout : Z
}.
Arguments mkSent {msg}.
Arguments s_method {msg}.
Arguments s_message {msg}.
Arguments s_meta {msg}.
Arguments s_timeout {msg}.

(* Outcome of one entry / one scenario step. *)
Inductive outcome (msg : Type) :=
| TemplateErr                 (* scenario only: templater.Apply failed; sample code 0, nothing sent *)
| UnknownMethod               (* call not in the reflected method table; sample code 0, nothing sent *)
| BadPayload                  (* payload does not fit the input type; sample code 400, nothing sent *)
| Sent (s : sent msg).        (* InvokeRpc issued; sample code = ConvertGrpcStatus(answer) *)
Arguments TemplateErr {msg}.
Arguments UnknownMethod {msg}.
Arguments BadPayload {msg}.
Arguments Sent {msg}.

Definition default_timeout : Z := 15000000000.   (* const defaultTimeout = time.Second * 15 *)
Definition eff_timeout (conf : Z) : Z := if Z.eqb conf 0 then default_timeout else conf.

Section MethodTable.
  Variable desc : Type.
  (* Gun.Services: map[fully qualified method name] descriptor, built once by reflection in
     WarmUp and shared (read-only) by every instance. *)
  Definition mtable := list (gbytes * desc).
  Fixpoint find_method (t : mtable) (name : gbytes) : option desc :=
    match t with
    | [] => None
    | (n, d) :: r => if gbytes_eqb name n then Some d else find_method r name
    end.
End MethodTable.
Arguments find_method {desc}.

(* ------------------------------------------------------------------------------------ *)
(* grpc/json entry shot by the plain grpc gun *)

Section Plain.
  Variables desc msg payload : Type.
  (* provider + gun: the payload as decoded by the provider into map[string]interface{} and
     re-marshalled by the gun (json.Marshal) *)
  Variable reencode : payload -> payload.
  (* dynamic.Message.UnmarshalJSON against the method's input type *)
  Variable fits : desc -> payload -> option msg.
  (* ConvertGrpcStatus *)
  Variable code_of_status : N -> N.
  (* the target's answer (status code) to a call *)
  Variable respond : sent msg -> N.

  Record entry := mkEntry { e_tag : gbytes; e_call : gbytes; e_meta : gmeta; e_payload : payload }.

  (* the gun object: what shoot reads. Nothing in it is written by shoot. *)
  Record gun := mkGun { g_services : mtable desc; g_timeout : Z }.

  (* Gun.shoot, in the order of the source: method lookup, payload conversion, invoke *)
  Definition shoot (g : gun) (e : entry) : outcome msg :=
    match find_method (g_services g) (e_call e) with
    | None => UnknownMethod
    | Some d =>
        match fits d (reencode (e_payload e)) with
        | None => BadPayload
        | Some m => Sent (mkSent (e_call e) m (e_meta e) (eff_timeout (g_timeout g)))
        end
    end.

  Definition sample_code (o : outcome msg) : N :=
    match o with
    | TemplateErr => 0
    | UnknownMethod => 0
    | BadPayload => 400
    | Sent s => code_of_status (respond s)
    end.

  (* one reported sample: tag, proto code; plus the call that reached the wire, if any *)
  Record shot_result := mkRes { r_tag : gbytes; r_code : N; r_out : outcome msg }.

  (* code-shaped: the gun is threaded through the shots like the Go object *)
  Definition gun_shoot (g : gun) (e : entry) : gun * shot_result :=
    let o := shoot g e in (g, mkRes (e_tag e) (sample_code o) o).

  (* n instances, each with its own gun object built from the same config and the shared
     method table; [sched] says which instance takes which entry (in acquisition order). *)
  Fixpoint run_instances (guns : list gun) (sched : list (nat * entry)) : list gun * list shot_result :=
    match sched with
    | [] => (guns, [])
    | (i, e) :: rest =>
        match nth_error guns i with
        | None => run_instances guns rest               (* no such instance: entry not shot *)
        | Some g =>
            let '(g', r) := gun_shoot g e in
            let guns' := firstn i guns ++ g' :: skipn (S i) guns in
            let '(gs, rs) := run_instances guns' rest in
            (gs, r :: rs)
        end
    end.

  (* specification side: what the property says must happen for one entry *)
  Definition spec_result (t : mtable desc) (conf_timeout : Z) (e : entry) : shot_result :=
    let o :=
      match find_method t (e_call e) with
      | None => UnknownMethod
      | Some d =>
          match fits d (reencode (e_payload e)) with
          | None => BadPayload
          | Some m => Sent (mkSent (e_call e) m (e_meta e) (eff_timeout conf_timeout))
          end
      end in
    mkRes (e_tag e) (sample_code o) o.
End Plain.

(* ------------------------------------------------------------------------------------ *)
(* gRPC scenario step: templater with a per-gun template cache over SHARED step definitions *)

Section Scenario.
  Variables desc msg tmpl vars : Type.
  Variable parse_t : gbytes -> option tmpl.            (* template.New(..).Funcs(..).Parse(text) *)
  Variable exec_t : tmpl -> vars -> option gbytes.     (* tmpl.Execute *)
  Variable fits_text : desc -> gbytes -> option msg.   (* UnmarshalJSON of the rendered payload *)
  Variable code_of_status : N -> N.
  Variable respond : sent msg -> N.

  (* cache key of TextTemplater.getTemplate: scenario name, step name, and what is rendered *)
  Inductive tkind := KPayload | KMeta (k : gbytes).
  Definition tkind_eqb (a b : tkind) : bool :=
    match a, b with
    | KPayload, KPayload => true
    | KMeta x, KMeta y => gbytes_eqb x y
    | _, _ => false
    end.
  Definition ckey := (gbytes * gbytes * tkind)%type.
  Definition ckey_eqb (a b : ckey) : bool :=
    let '(s1, p1, k1) := a in let '(s2, p2, k2) := b in
    gbytes_eqb s1 s2 && gbytes_eqb p1 p2 && tkind_eqb k1 k2.

  Definition cache := list (ckey * tmpl).              (* sync.Map of one TextTemplater (one gun) *)
  Fixpoint cache_find (c : cache) (k : ckey) : option tmpl :=
    match c with
    | [] => None
    | (k', t) :: r => if ckey_eqb k k' then Some t else cache_find r k
    end.

  (* getTemplate: cached template, else parse the text handed in and cache it *)
  Definition get_template (c : cache) (k : ckey) (text : gbytes) : cache * option tmpl :=
    match cache_find c k with
    | Some t => (c, Some t)
    | None =>
        match parse_t text with
        | Some t => ((k, t) :: c, Some t)
        | None => (c, None)
        end
    end.

  Definition render_one (c : cache) (k : ckey) (text : gbytes) (v : vars) : cache * option gbytes :=
    let '(c', ot) := get_template c k text in
    match ot with
    | Some t => (c', exec_t t v)
    | None => (c', None)
    end.

  (* the loop over the metadata map handed to Apply: every value is replaced by its rendering
     IN THAT MAP (the caller passes a private copy of the step's map) *)
  Fixpoint render_meta (c : cache) (scn stp : gbytes) (md : gmeta) (v : vars) : cache * option gmeta :=
    match md with
    | [] => (c, Some [])
    | (k, text) :: r =>
        let '(c1, ob) := render_one c (scn, stp, KMeta k) text v in
        match ob with
        | None => (c1, None)
        | Some b =>
            let '(c2, orest) := render_meta c1 scn stp r v in
            match orest with
            | None => (c2, None)
            | Some rest => (c2, Some ((k, b) :: rest))
            end
        end
    end.

  (* a step of a scenario as the provider builds it: the metadata map is NOT part of the step
     value, it is a shared heap cell (one per call definition) the step points to *)
  Record step := mkStep { st_name : gbytes; st_tag : gbytes; st_call : gbytes; st_cell : nat; st_payload : gbytes }.

  Definition heap := list gmeta.                       (* shared metadata maps, by cell index *)
  Definition heap_get (h : heap) (i : nat) : gmeta := nth i h [].

  (* TextTemplater.Apply on (payload text, a map) *)
  Definition apply_templater (c : cache) (scn : gbytes) (st : step) (md : gmeta) (v : vars)
    : cache * option (gbytes * gmeta) :=
    let '(c1, op) := render_one c (scn, st_name st, KPayload) (st_payload st) v in
    match op with
    | None => (c1, None)
    | Some ptext =>
        let '(c2, om) := render_meta c1 scn (st_name st) md v in
        match om with
        | None => (c2, None)
        | Some m => (c2, Some (ptext, m))
        end
    end.

  Record sgun := mkSGun { sg_services : mtable desc; sg_timeout : Z; sg_cache : cache }.

  (* shootStep after the preprocessors: copy the step's metadata map, render, look the method
     up, convert, invoke.  Returns the heap too: the shared cells are not written. *)
  Definition shoot_step (h : heap) (g : sgun) (scn : gbytes) (st : step) (v : vars)
    : heap * sgun * outcome msg :=
    let md_copy := heap_get h (st_cell st) in
    let '(c', r) := apply_templater (sg_cache g) scn st md_copy v in
    let g' := mkSGun (sg_services g) (sg_timeout g) c' in
    match r with
    | None => (h, g', TemplateErr)
    | Some (ptext, md) =>
        match find_method (sg_services g) (st_call st) with
        | None => (h, g', UnknownMethod)
        | Some d =>
            match fits_text d ptext with
            | None => (h, g', BadPayload)
            | Some m => (h, g', Sent (mkSent (st_call st) m md (eff_timeout (sg_timeout g))))
            end
        end
    end.

  Definition scode (o : outcome msg) : N :=
    match o with
    | TemplateErr => 0
    | UnknownMethod => 0
    | BadPayload => 400
    | Sent s => code_of_status (respond s)
    end.

  (* one step execution of one instance: any interleaving of the instances' steps is a list of
     these; the variables are whatever the instance's pre/postprocessors produced *)
  Record sevent := mkEv { ev_inst : nat; ev_scn : gbytes; ev_step : step; ev_vars : vars }.

  Fixpoint run_events (h : heap) (guns : list sgun) (evs : list sevent) : heap * list sgun * list (outcome msg) :=
    match evs with
    | [] => (h, guns, [])
    | e :: rest =>
        match nth_error guns (ev_inst e) with
        | None => run_events h guns rest
        | Some g =>
            let '(h1, g1, o) := shoot_step h g (ev_scn e) (ev_step e) (ev_vars e) in
            let guns1 := firstn (ev_inst e) guns ++ g1 :: skipn (S (ev_inst e)) guns in
            let '(h2, gs, os) := run_events h1 guns1 rest in
            (h2, gs, o :: os)
        end
    end.

  (* specification side: render every template from the CONFIGURED text, no cache, no heap *)
  Definition render_spec (text : gbytes) (v : vars) : option gbytes :=
    match parse_t text with Some t => exec_t t v | None => None end.

  Fixpoint render_meta_spec (md : gmeta) (v : vars) : option gmeta :=
    match md with
    | [] => Some []
    | (k, text) :: r =>
        match render_spec text v with
        | None => None
        | Some b => match render_meta_spec r v with None => None | Some rest => Some ((k, b) :: rest) end
        end
    end.

  Definition spec_step (t : mtable desc) (conf_timeout : Z) (configured : heap) (st : step) (v : vars) : outcome msg :=
    match render_spec (st_payload st) v with
    | None => TemplateErr
    | Some ptext =>
        match render_meta_spec (heap_get configured (st_cell st)) v with
        | None => TemplateErr
        | Some md =>
            match find_method t (st_call st) with
            | None => UnknownMethod
            | Some d =>
                match fits_text d ptext with
                | None => BadPayload
                | Some m => Sent (mkSent (st_call st) m md (eff_timeout conf_timeout))
                end
            end
        end
    end.

  (* specification of a whole scenario shot: the steps' specified outcomes up to and including
     the first one that is not sent *)
  Fixpoint spec_scenario (t : mtable desc) (conf_timeout : Z) (configured : heap) (sts : list (step * vars))
    : list (outcome msg) :=
    match sts with
    | [] => []
    | (st, v) :: rest =>
        let o := spec_step t conf_timeout configured st v in
        match o with
        | Sent _ => o :: spec_scenario t conf_timeout configured rest
        | _ => [o]
        end
    end.

  (* a whole scenario shot of one gun: steps in order, stop at the first step that is not sent
     (Gun.shoot returns the step's error); [vs] gives the variables of each step *)
  Fixpoint shoot_scenario (h : heap) (g : sgun) (scn : gbytes) (sts : list (step * vars))
    : heap * sgun * list (outcome msg) :=
    match sts with
    | [] => (h, g, [])
    | (st, v) :: rest =>
        let '(h1, g1, o) := shoot_step h g scn st v in
        match o with
        | Sent _ =>
            let '(h2, g2, os) := shoot_scenario h1 g1 scn rest in (h2, g2, o :: os)
        | _ => (h1, g1, [o])
        end
    end.
End Scenario.
