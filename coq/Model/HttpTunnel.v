(* Model for property C09, round 7: the `connect` gun (components/guns/http/connect.go) and TIME in the keep-alive /
   connection sentence.  Executable definitions only.

   Code read:
     components/guns/http/connect.go  newConnectDialFunc: what the dial function does with the socket it hands to net/http's
                                      Transport — dialer.DialContext(target) (net.Dialer.Timeout = dial.timeout bounds the
                                      connect ONLY: the returned connection has no deadline), tls.Client when connect-ssl,
                                      req.Write of "CONNECT <address>" with Host = address, http.ReadResponse; the dial fails
                                      unless the status is 200 and nothing is buffered after the response head;
                                      no SetDeadline anywhere.
     components/guns/http/http.go     HTTP1ClientConstructor: the http gun hands NewDialer(conf).DialContext to the Transport.
     components/guns/http/base.go     Shoot: req.URL.Host = TargetResolved, which is the address the Transport asks the dial
                                      function for (the CONNECT authority of the connect gun).
     components/phttp/import          the connect factory: Target := pre-resolved target, TargetResolved := Target.
   net (modelled, not verified): a deadline set on a connection with SetDeadline is ABSOLUTE and stays armed until it is
   set again; once it has passed every pending and future read fails (i/o timeout).  net/http's Transport (modelled): the
   read loop of a connection whose read fails drops the connection — a parked one silently, one with a request in flight
   fails that request. *)
From Coq Require Import List Arith NArith ZArith Bool.
From PV Require Import Model.HttpConns.
Import ListNotations.

(* ---- what a dial function does with the socket, in order *)
Inductive sockop :=
| ODial (timeout : N)             (* dialer.DialContext: the timeout bounds the connect; the new connection has no deadline *)
| OTLSClient                      (* tls.Client(conn): a wrapper, deadlines are those of the wrapped connection *)
| OWrite                          (* req.Write(conn) *)
| OReadResponse                   (* http.ReadResponse(bufio.NewReader(conn), req) *)
| OSetDeadline (d : option N).    (* conn.SetDeadline(t): Some t = absolute time in ms, None = time.Time{} (cleared) *)

(* the deadline left armed on the connection when the dial function returns it *)
Fixpoint deadline_after (cur : option N) (ops : list sockop) : option N :=
  match ops with
  | [] => cur
  | ODial _ :: r => deadline_after None r
  | OSetDeadline d :: r => deadline_after d r
  | _ :: r => deadline_after cur r
  end.

(* newConnectDialFunc (connect gun) / NewDialer(..).DialContext (http gun), as written *)
Definition connect_dial_ops (connect_ssl : bool) (timeout : N) : list sockop :=
  [ODial timeout] ++ (if connect_ssl then [OTLSClient] else []) ++ [OWrite; OReadResponse].

Definition gun_dial_ops (connect connect_ssl : bool) (timeout : N) : list sockop :=
  if connect then connect_dial_ops connect_ssl timeout else [ODial timeout].

(* [arm] of a gun: the deadline on a connection dialled at time [now] *)
Definition gun_arm (connect connect_ssl : bool) (timeout : N) (now : N) : option N :=
  deadline_after None (gun_dial_ops connect connect_ssl timeout).

(* a variant that guards the CONNECT handshake with the dial timeout and never clears it (used by an Example: the theorems
   are about the deadline state the dial function leaves behind) *)
Definition guarded_dial_ops (connect_ssl : bool) (timeout : N) (now : N) : list sockop :=
  [ODial timeout; OSetDeadline (Some (now + timeout)%N)] ++ (if connect_ssl then [OTLSClient] else []) ++ [OWrite; OReadResponse].
Definition guarded_arm (connect_ssl : bool) (timeout : N) (now : N) : option N :=
  deadline_after None (guarded_dial_ops connect_ssl timeout now).
(* ... and the same guard with the deadline cleared after the handshake *)
Definition guarded_cleared_arm (connect_ssl : bool) (timeout : N) (now : N) : option N :=
  deadline_after None (guarded_dial_ops connect_ssl timeout now ++ [OSetDeadline None]).

(* ---- the CONNECT handshake *)
Record connect_req := { cr_method : list N; cr_authority : list N; cr_host : list N }.
Definition s_CONNECT : list N := [67; 79; 78; 78; 69; 67; 84]%N.
(* the request the dial function writes when the Transport asks for a connection to [address] *)
Definition connect_request (address : list N) : connect_req :=
  {| cr_method := s_CONNECT; cr_authority := address; cr_host := address |}.
(* the dial succeeds iff the proxy answers 200 and sends nothing after the response head *)
Definition connect_established (status : N) (buffered : nat) : bool := N.eqb status 200 && Nat.eqb buffered 0.

(* ---- timed histories: every event happens at an absolute time (ms); times need not even be monotone *)
Inductive tev := At (t : N) (e : ev).
Definition untimed (h : list tev) : list ev := map (fun te => match te with At _ e => e end) h.

Record ttstate := {
  tt_base     : tstate;                (* the transports, as in Model/HttpConns.v *)
  tt_deadline : nat -> option N;       (* deadline armed on each connection *)
  tt_failed   : nat }.                 (* requests that failed with an i/o timeout although the target answered *)

Definition tt_init : ttstate := {| tt_base := t_init; tt_deadline := fun _ => None; tt_failed := 0 |}.

Definition alive (dl : nat -> option N) (now : N) (x : nat) : bool :=
  match dl x with None => true | Some d => N.ltb now d end.

Section Timed.
Variable cl : nat -> client.
Variable keepalive : bool.
Variable max_idle : nat.
Variable arm : N -> option N.     (* the deadline the dial function leaves on a connection dialled at that time *)

Definition tt_step (s : ttstate) (te : tev) : option ttstate :=
  let st := tt_base s in
  match te with
  | At now (Begin i) =>
      match busy_find i (t_busy st) with
      | Some _ => None
      | None =>
          (* parked connections whose deadline has passed were dropped by their read loops: they are invisible from then
             on (every look at the parked list goes through this filter) *)
          match filter (alive (tt_deadline s) now) (t_idle st (cl i)) with
          | x :: rest =>
              Some {| tt_base := {| t_idle := upd (t_idle st) (cl i) rest; t_busy := (i, x) :: t_busy st;
                                    t_log := (i, x) :: t_log st; t_dials := t_dials st |};
                      tt_deadline := tt_deadline s; tt_failed := tt_failed s |}
          | [] =>
              Some {| tt_base := {| t_idle := t_idle st; t_busy := (i, t_dials st) :: t_busy st;
                                    t_log := (i, t_dials st) :: t_log st; t_dials := S (t_dials st) |};
                      tt_deadline := fun x => if Nat.eqb x (t_dials st) then arm now else tt_deadline s x;
                      tt_failed := tt_failed s |}
          end
      end
  | At now (End i) =>
      match busy_find i (t_busy st) with
      | None => None
      | Some x =>
          if alive (tt_deadline s) now x
          then
            let parked := filter (alive (tt_deadline s) now) (t_idle st (cl i)) in
            Some {| tt_base := {| t_idle := if keepalive && Nat.ltb (length parked) max_idle
                                            then upd (t_idle st) (cl i) (x :: parked) else t_idle st;
                                  t_busy := busy_remove i (t_busy st); t_log := t_log st; t_dials := t_dials st |};
                    tt_deadline := tt_deadline s; tt_failed := tt_failed s |}
          else
            (* the deadline fired while the request was in flight: it fails, the connection is gone *)
            Some {| tt_base := {| t_idle := t_idle st; t_busy := busy_remove i (t_busy st); t_log := t_log st;
                                  t_dials := t_dials st |};
                    tt_deadline := tt_deadline s; tt_failed := S (tt_failed s) |}
      end
  end.

Fixpoint tt_run (s : ttstate) (h : list tev) : option ttstate :=
  match h with
  | [] => Some s
  | e :: r => match tt_step s e with Some s' => tt_run s' r | None => None end
  end.
End Timed.

(* observation of a run: (connections opened, (instance, connection) of every request in order, failed requests) *)
Definition tt_obs (s : ttstate) : nat * list (nat * nat) * nat := (t_dials (tt_base s), rev (t_log (tt_base s)), tt_failed s).
