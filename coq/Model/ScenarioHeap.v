(* Heap-footprint model of scenario data for property C11 (b): which memory the operations of
   one instance's shot read and write.

   Shared cells are created once by the provider (components/providers/scenario/{http,grpc}/decode.go)
   and are reachable from EVERY clone of the ammo: scenario.Provider.Acquire clones only the
   Scenario header (Clone() in http_scenario/ammo.go, grpc/scenario/ammo.go); the step slice, the
   header/metadata maps, the template texts, the per-step HTTP templater, the preprocessors with
   their iterator and the variable storage are shared.  Private cells belong to one instance.
   Executable definitions only. *)
From Coq Require Import List NArith Bool Arith.
Import ListNotations.

Inductive cell :=
(* shared, plain memory (no synchronisation) *)
| CStepDef (d : nat)        (* step definition d: method, URI, body / call, payload text, tag, sleep *)
| CHeaderMap (d : nat)      (* HTTP: Request.Headers map of definition d *)
| CMetaMap (d : nat)        (* gRPC: Call.Metadata map of definition d *)
| CVarSource                (* vs.SourceStorage.sources and the data under it *)
| CMethodTable              (* gRPC: Gun.Services map from WarmUp, shared through SharedDeps *)
(* shared, accessed only through a synchronised object *)
| CStepTmplCache (d : nat)  (* HTTP: sync.Map inside the step's TextTemplater *)
| CIterCounters             (* mp.NextIterator.gs + counters: under NextIterator.mx / atomic *)
| CIterRand                 (* mp.NextIterator.rnd *)
| CStrRand                  (* lib/str randSource *)
| CGlobalRand               (* math/rand top-level source (locked by the runtime) *)
| CSamplePool               (* netsample sync.Pool *)
| CIDCounter                (* provider id counter (atomic) *)
| CClientPool               (* clientpool.Pool index (atomic), shared-client *)
(* private to instance i *)
| CClone (i : nat)          (* the cloned Scenario header handed to instance i *)
| CVars (i : nat)           (* templateVars / requestVars / stepVars maps of instance i's shot *)
| CParts (i : nat)          (* HTTP: RequestParts with the GetHeaders() copy; gRPC: the metadata copy *)
| CGunCache (i : nat)       (* gRPC: template cache of instance i's gun *)
| CGunState (i : nat).      (* the gun object of instance i: client / stub, config *)

Definition owner (c : cell) : option nat :=
  match c with
  | CClone i | CVars i | CParts i | CGunCache i | CGunState i => Some i
  | _ => None
  end.

Inductive sync_kind := SMutex | SAtomic | SSyncMap | SSyncPool | SRuntimeLock.

(* the synchronisation discipline: through which object a shared mutable cell is accessed *)
Definition sync_of (c : cell) : option sync_kind :=
  match c with
  | CStepTmplCache _ => Some SSyncMap
  | CIterCounters => Some SMutex
  | CIterRand => Some SMutex          (* NextIterator.Rand takes NextIterator.mx *)
  | CStrRand => Some SMutex           (* lib/str guards randSource with a mutex *)
  | CGlobalRand => Some SRuntimeLock
  | CSamplePool => Some SSyncPool
  | CIDCounter => Some SAtomic
  | CClientPool => Some SAtomic
  | _ => None
  end.

Definition synchronised (c : cell) : bool := match sync_of c with Some _ => true | None => false end.

(* operations of instance i (d = index of the step definition it works on) *)
Inductive op :=
| OpClone (i : nat)                 (* provider.Acquire: Clone() + NextID *)
| OpVarsInit (i : nat)              (* Shoot: templateVars{"source": storage.Variables()}, requestVars *)
| OpPreprocess (i d : nat)          (* Preprocessor.Process: mp.GetMapValue over templateVars *)
| OpIterNext (i : nat)              (* [next] *)
| OpIterRand (i : nat)              (* [rand] *)
| OpRandString (i : nat)            (* randString() -> str.RandStringRunes *)
| OpRandInt (i : nat)               (* randInt() -> math/rand top level *)
| OpHTTPParts (i d : nat)           (* RequestParts{URL, Method, GetBody(), GetHeaders()} *)
| OpHTTPTemplate (i d : nat)        (* step.Templater.Apply(&parts, vars, ...) *)
| OpHTTPSend (i d : nat)            (* prepareRequest + client.Do + postprocessors -> stepVars *)
| OpGRPCCopyMeta (i d : nat)        (* maps.Clone(step.Metadata) *)
| OpGRPCTemplate (i d : nat)        (* g.templ.Apply(step.Payload, copy, vars, ...) *)
| OpGRPCSend (i d : nat)            (* method lookup, UnmarshalJSON, InvokeRpc, postprocessors *)
| OpSample (i : nat)                (* netsample.Acquire / Report *)
| OpBindGun (i : nat).              (* gun.Bind: shared deps, clientPool.Next() *)

Definition inst_of (o : op) : nat :=
  match o with
  | OpClone i | OpVarsInit i | OpIterNext i | OpIterRand i | OpRandString i | OpRandInt i
  | OpSample i | OpBindGun i => i
  | OpPreprocess i _ | OpHTTPParts i _ | OpHTTPTemplate i _ | OpHTTPSend i _
  | OpGRPCCopyMeta i _ | OpGRPCTemplate i _ | OpGRPCSend i _ => i
  end.

(* Footprint with information flow: for every cell the operation may WRITE, the cells its new
   content may depend on.  (A cell that is only read appears in some dependency list.) *)
Definition fp (o : op) : list (cell * list cell) :=
  match o with
  | OpClone i => [(CClone i, [CVarSource]); (CIDCounter, [CIDCounter])]
  | OpVarsInit i => [(CVars i, [CClone i; CVarSource])]
  | OpPreprocess i d => [(CVars i, [CVars i; CStepDef d; CVarSource])]
  | OpIterNext i => [(CIterCounters, [CIterCounters]); (CVars i, [CVars i; CIterCounters; CVarSource])]
  | OpIterRand i => [(CIterRand, [CIterRand]); (CVars i, [CVars i; CIterRand; CVarSource])]
  | OpRandString i => [(CStrRand, [CStrRand]); (CVars i, [CVars i; CStrRand])]
  | OpRandInt i => [(CGlobalRand, [CGlobalRand]); (CVars i, [CVars i; CGlobalRand])]
  | OpHTTPParts i d => [(CParts i, [CClone i; CStepDef d; CHeaderMap d])]
  | OpHTTPTemplate i d =>
      [(CStepTmplCache d, [CStepTmplCache d; CStepDef d; CHeaderMap d]);
       (CParts i, [CParts i; CVars i; CStepTmplCache d; CStepDef d; CHeaderMap d])]
  | OpHTTPSend i d => [(CVars i, [CVars i; CParts i; CStepDef d; CGunState i]); (CGunState i, [CGunState i; CParts i])]
  | OpGRPCCopyMeta i d => [(CParts i, [CClone i; CMetaMap d])]
  | OpGRPCTemplate i d =>
      [(CGunCache i, [CGunCache i; CStepDef d; CParts i]);
       (CParts i, [CParts i; CVars i; CGunCache i; CStepDef d])]
  | OpGRPCSend i d => [(CVars i, [CVars i; CParts i; CStepDef d; CMethodTable; CGunState i]); (CGunState i, [CGunState i; CParts i])]
  | OpSample i => [(CSamplePool, [CSamplePool]); (CVars i, [CVars i; CSamplePool])]
  | OpBindGun i => [(CGunState i, [CMethodTable; CClientPool]); (CClientPool, [CClientPool])]
  end.

Definition writes (o : op) : list cell := map fst (fp o).
Definition reads (o : op) : list cell := flat_map snd (fp o).

(* ---------- decidable equality of cells (for the executable checks) ---------- *)

Definition cell_eqb (a b : cell) : bool :=
  match a, b with
  | CStepDef x, CStepDef y | CHeaderMap x, CHeaderMap y | CMetaMap x, CMetaMap y
  | CStepTmplCache x, CStepTmplCache y | CClone x, CClone y | CVars x, CVars y
  | CParts x, CParts y | CGunCache x, CGunCache y | CGunState x, CGunState y => Nat.eqb x y
  | CVarSource, CVarSource | CMethodTable, CMethodTable | CIterCounters, CIterCounters
  | CIterRand, CIterRand | CStrRand, CStrRand | CGlobalRand, CGlobalRand
  | CSamplePool, CSamplePool | CIDCounter, CIDCounter | CClientPool, CClientPool => true
  | _, _ => false
  end.

Fixpoint mem_cell (c : cell) (l : list cell) : bool :=
  match l with [] => false | x :: r => cell_eqb c x || mem_cell c r end.

(* the two checks of the footprint table (evaluated by the driver on the operations of a case) *)

(* isolation: every cell written by [a] that [b] reads or writes is a synchronised object *)
Definition isolated_b (a b : op) : bool :=
  forallb (fun c => negb (mem_cell c (reads b ++ writes b)) || synchronised c) (writes a).

(* flow: an operation writes only shared cells and its own private cells; it reads no other
   instance's private cell; and what it writes into a shared cell depends on shared cells only *)
Definition flow_ok_b (o : op) : bool :=
  forallb (fun cd =>
    forallb (fun d => match owner d with None => true | Some j => Nat.eqb j (inst_of o) end) (snd cd) &&
    match owner (fst cd) with
    | Some j => Nat.eqb j (inst_of o)
    | None => forallb (fun d => match owner d with None => true | Some _ => false end) (snd cd)
    end) (fp o).

(* ---------- generic semantics over a store, for the non-interference statement ---------- *)

Section Store.
  Variable value : Type.
  Definition store := cell -> value.
  Variable sem : op -> store -> store.

  Fixpoint run_ops (ops : list op) (s : store) : store :=
    match ops with
    | [] => s
    | o :: r => run_ops r (sem o s)
    end.
End Store.
