(* List profiles (property C01): `rps: [ {...}, {...}, ... ]` - the configuration hook of
   core/import turns a list of schedules into schedule.NewCompositeConf{Nested: parts}, the same
   composite step.go builds from its levels.  Sequentially the composite runs its parts one after
   another, each started at the finish instant of the part before it (Model/Sched.v comp_tokens /
   comp_finish); a step part is itself a composite of const parts, whose leaves come in order.

   Two sides again:
     - the CODE: [list_leaves] / [list_drain] (the leaves of all parts in order, drained);
     - the SPECIFICATION evaluated on observed token offsets: [list_spec_b] cuts the observed stream
       into the windows of the parts (part j occupies [S_j, S_j + duration_j), S_j = sum of the
       durations of the parts before it; a once part takes its n operations at S_j) and judges every
       window by the specification of its own part (Model/Sched.v).
   Executable definitions only; lemmas live in Proofs/SchedList.v, Proofs/SchedShare.v. *)
From Coq Require Import ZArith QArith List Bool.
From PV Require Import Model.Sched.
Import ListNotations.
Local Open Scope Z_scope.

Fixpoint list_leaves (ps : list profile) : option (list leaf) :=
  match ps with
  | [] => Some []
  | p :: r =>
      match leaves p, list_leaves r with
      | Some a, Some b => Some (a ++ b)
      | _, _ => None
      end
  end.

Definition list_drain (ps : list profile) : option drained :=
  match list_leaves ps with
  | Some ls => Some {| d_left := comp_left ls; d_tokens := comp_tokens ls 0; d_finish := comp_finish ls 0 |}
  | None => None
  end.

(* ---- specification side ---- *)

(* start + duration of the whole list: the sum of the parts' durations *)
Fixpoint list_spec_finish (ps : list profile) : Z :=
  match ps with
  | [] => 0
  | p :: r => spec_finish p + list_spec_finish r
  end.

(* the token clauses of spec_b for one part (offsets relative to the part's own start) *)
Definition part_toks_b (p : profile) (tol : Z) (eps : Q) (xs : list Z) : bool :=
  match p with
  | PConst ops D => rate_spec_b (cum_const ops) D tol eps xs
  | PLine f t D => rate_spec_b (cum_line f t D) D tol eps xs
  | PStep f t st D => step_spec_b (spec_levels f t st) D tol eps 0 xs
  | POnce n => (Z.of_nat (length xs) =? n) && forallb (Z.eqb 0) xs
  end.

(* every part comes with the time tolerance the driver grants it (0 = exact) *)
Fixpoint list_spec_toks (ps : list (profile * Z)) (eps : Q) (start : Z) (xs : list Z) : bool :=
  match ps with
  | [] => match xs with [] => true | _ => false end
  | (p, tol) :: rest =>
      let '(a, b) :=
        match p with
        | POnce n => (firstn (Z.to_nat n) xs, skipn (Z.to_nat n) xs)
        | _ => take_before (start + spec_finish p) xs
        end in
      part_toks_b p tol eps (map (fun x => x - start) a)
      && list_spec_toks rest eps (start + spec_finish p) b
  end.

(* observation: Left() before start, ok token offsets, finish offset *)
Definition list_spec_b (ps : list (profile * Z)) (eps : Q) (left : Z) (xs : list Z) (finish : Z) : bool :=
  (left =? Z.of_nat (length xs)) && (finish =? list_spec_finish (map fst ps))
  && list_spec_toks ps eps 0 xs.
