(* Ownership of ammo objects between the provider and the instances (property C11): the instance
   loop of core/engine/instance.go is  Acquire; (wait; shoot | discard); Release  — one ammo
   object at a time per instance, handed back exactly once.  Providers may recycle released
   objects (sync.Pool), so an object released twice, or handed out while still held, is seen and
   rewritten by two instances.  Events as a recording provider sees them:
     AAcq r a   goroutine r received ammo object a from Acquire
     ARel r a   goroutine r passed ammo object a to Release
   Self-contained; executable definitions only. *)
From Coq Require Import List Bool Arith.
Import ListNotations.

Inductive aev := AAcq (r a : nat) | ARel (r a : nat).

Definition ast := list (nat * nat).      (* objects currently held: (object, holder) *)

Fixpoint holder (a : nat) (st : ast) : option nat :=
  match st with
  | [] => None
  | (a', r) :: t => if Nat.eqb a' a then Some r else holder a t
  end.

Definition holds_any (r : nat) (st : ast) : bool := existsb (fun p => Nat.eqb (snd p) r) st.
Definition drop_obj (a : nat) (st : ast) : ast := filter (fun p => negb (Nat.eqb (fst p) a)) st.

Definition astep (st : ast) (e : aev) : option ast :=
  match e with
  | AAcq r a =>
      match holder a st with
      | Some _ => None                                   (* handed out while still held *)
      | None => if holds_any r st then None else Some ((a, r) :: st)
      end
  | ARel r a =>
      match holder a st with
      | Some r' => if Nat.eqb r' r then Some (drop_obj a st) else None
      | None => None                                     (* released without being held: double release *)
      end
  end.

Fixpoint arun (st : ast) (tr : list aev) : option ast :=
  match tr with
  | [] => Some st
  | e :: t => match astep st e with Some st' => arun st' t | None => None end
  end.

Fixpoint arun_stuck (st : ast) (tr : list aev) (k : nat) : option nat :=
  match tr with
  | [] => None
  | e :: t => match astep st e with Some st' => arun_stuck st' t (S k) | None => Some k end
  end.

(* specification, per object: Acquire and Release alternate, every Release is by the goroutine of the
   preceding Acquire.  Some h = current holder at the end, None = violated *)
Fixpoint obj_run (a : nat) (h : option nat) (tr : list aev) : option (option nat) :=
  match tr with
  | [] => Some h
  | AAcq r a' :: t =>
      if Nat.eqb a' a then (match h with Some _ => None | None => obj_run a (Some r) t end) else obj_run a h t
  | ARel r a' :: t =>
      if Nat.eqb a' a then
        (match h with Some r' => if Nat.eqb r' r then obj_run a None t else None | None => None end)
      else obj_run a h t
  end.

Definition objs_of (tr : list aev) : list nat := map (fun e => match e with AAcq _ a | ARel _ a => a end) tr.

Definition ammo_exclusive_b (tr : list aev) : bool :=
  forallb (fun a => match obj_run a None tr with Some _ => true | None => false end) (objs_of tr).
