(* Property C09, round 7: the keep-alive / connection sentence over TIME and for the `connect` gun kind.
   "With keep-alives enabled (the default) and per-instance clients an instance sends its successive requests over one
   connection, so a target that keeps connections open sees no more connections than there are instances" — however long the
   instance lives and however long it pauses between its requests or waits for an answer; in particular longer than the
   configured dial timeout, which bounds the dial and nothing else.
   Statements only; proofs live in Proofs/HttpTunnelProofs.v.

   Model (Model/HttpTunnel.v): [gun_dial_ops connect connect_ssl timeout] = what the gun's dial function does with the socket it
   hands to net/http (components/guns/http/connect.go newConnectDialFunc: dial, tls.Client when connect-ssl, write CONNECT, read the
   response; the http gun: dial), [deadline_after] = the deadline that is left armed on the connection, [gun_arm] = that
   deadline for a connection dialled at a given time; [tt_run cl keepalive max_idle arm tt_init h] = the transports of
   Model/HttpConns.v over a TIMED history h (events at absolute times): a parked connection whose deadline has passed is gone, a
   request in flight on it fails.  The treatment of deadlines by net / net/http is a MODEL, compared with the real ones by the
   correspondence run (case kind hist with W<ms> events and a short dial timeout; wire cases whose instances outlive it). *)
From Coq Require Import List Arith NArith ZArith Bool.
From PV Require Import Model.HttpConns Model.HttpTunnel Proofs.HttpTunnelProofs.
Import ListNotations.

(* The dial function of either gun kind leaves NO deadline on the connection it returns, whatever the dial timeout, the
   connect-ssl option and the time of the dial. *)
Theorem C09_dial_leaves_no_deadline : forall connect connect_ssl timeout now, gun_arm connect connect_ssl timeout now = None.
Proof. exact gun_arm_none. Qed.
Print Assumptions C09_dial_leaves_no_deadline.

(* The CONNECT request asks for a tunnel to exactly the address the Transport wants a connection to — which Shoot sets to the
   gun's resolved target (C09_passthrough: w_addr = g_resolved) — and names it as Host; the tunnel stands iff the answer is
   200 with nothing after its head. *)
Theorem C09_connect_request : forall address,
  cr_method (connect_request address) = s_CONNECT /\ cr_authority (connect_request address) = address /\
  cr_host (connect_request address) = address.
Proof. exact connect_request_authority. Qed.
Print Assumptions C09_connect_request.

Theorem C09_connect_established : forall status buffered,
  connect_established status buffered = true <-> status = 200%N /\ buffered = 0%nat.
Proof. exact connect_established_iff. Qed.
Print Assumptions C09_connect_established.

(* Timed refinement: for a dial function that leaves no deadline, every timed history is a history of the untimed transport
   model of C09_conns with the same connections, no request fails with a timeout — and conversely every history can be run
   with any times. *)
Theorem C09_timed_history_refines : forall cl keepalive max_idle arm, (forall t, arm t = None) ->
  (forall h s, tt_run cl keepalive max_idle arm tt_init h = Some s ->
     t_run cl keepalive max_idle t_init (untimed h) = Some (tt_base s) /\ tt_failed s = 0) /\
  (forall h st, t_run cl keepalive max_idle t_init (untimed h) = Some st ->
     exists s, tt_run cl keepalive max_idle arm tt_init h = Some s /\ tt_base s = st /\ tt_failed s = 0).
Proof.
  intros cl ka mi arm H. split; [exact (tt_run_untimed cl ka mi arm H)|exact (tt_run_of_untimed cl ka mi arm H)].
Qed.
Print Assumptions C09_timed_history_refines.

(* The sentence, for BOTH gun kinds (http, connect with or without connect-ssl), EVERY dial timeout and EVERY timed history of
   n instances (any number of requests, any interleaving, any pauses, any answer times): keep-alives on + per-instance
   clients => at most n connections (= tunnels), all requests of an instance over one connection, no request lost to a timeout. *)
Theorem C09_tunnel_one_connection_per_instance : forall connect connect_ssl timeout c max_idle n h s,
  sc_enabled c = false -> (0 < max_idle)%nat ->
  Forall (fun te => match te with At _ e => (ev_inst e < n)%nat end) h ->
  tt_run (client_of (prepare_pool c)) true max_idle (gun_arm connect connect_ssl timeout) tt_init h = Some s ->
  (t_dials (tt_base s) <= n)%nat /\
  (forall i x y, In (i, x) (t_log (tt_base s)) -> In (i, y) (t_log (tt_base s)) -> x = y) /\
  tt_failed s = 0.
Proof. exact tunnel_one_connection_per_instance. Qed.
Print Assumptions C09_tunnel_one_connection_per_instance.

(* Keep-alives disabled: one connection (tunnel) per request, at any times. *)
Theorem C09_tunnel_no_keepalive : forall connect connect_ssl timeout cl max_idle h s,
  tt_run cl false max_idle (gun_arm connect connect_ssl timeout) tt_init h = Some s ->
  t_dials (tt_base s) = requests_of (untimed h) /\ tt_failed s = 0.
Proof. exact tunnel_no_keepalive. Qed.
Print Assumptions C09_tunnel_no_keepalive.

(* The judge of the scripted timed histories (hist_ok on connections / log) holds of every timed history of the model. *)
Theorem C09_tunnel_hist_spec : forall connect connect_ssl timeout c keepalive max_idle n h s,
  (0 < max_idle)%nat ->
  Forall (fun te => match te with At _ e => (ev_inst e < n)%nat end) h ->
  tt_run (client_of (prepare_pool c)) keepalive max_idle (gun_arm connect connect_ssl timeout) tt_init h = Some s ->
  hist_ok keepalive (sc_enabled c) n (requests_of (untimed h)) (t_dials (tt_base s)) (rev (t_log (tt_base s))) = true /\
  tt_failed s = 0.
Proof. exact tunnel_hist_ok. Qed.
Print Assumptions C09_tunnel_hist_spec.

(* Times do not matter at all: two timed histories with the same events are observed alike. *)
Theorem C09_time_irrelevant : forall connect connect_ssl timeout cl keepalive max_idle h h',
  untimed h = untimed h' ->
  option_map tt_obs (tt_run cl keepalive max_idle (gun_arm connect connect_ssl timeout) tt_init h) =
  option_map tt_obs (tt_run cl keepalive max_idle (gun_arm connect connect_ssl timeout) tt_init h').
Proof. exact tunnel_time_irrelevant. Qed.
Print Assumptions C09_time_irrelevant.

(* Non-vacuity and sensitivity.  One instance, dial timeout 300 ms, requests at 0 ms and 500 ms (each answered 10 ms later):
   a timed history of the model for the connect gun: ONE tunnel, no failure.  With a dial function that guards the CONNECT
   handshake with conn.SetDeadline(now + timeout) and never clears it (guarded_arm) the same history opens TWO tunnels, and a
   request in flight across the deadline fails; clearing the deadline after the handshake (guarded_cleared_arm) is fine. *)
Definition ex_two_shots : list tev := [At 0 (Begin 0); At 10 (End 0); At 500 (Begin 0); At 510 (End 0)].
Definition ex_slow_answer : list tev := [At 0 (Begin 0); At 400 (End 0)].
Definition own (i : nat) : client := COwn i.
Example C09_tunnel_example :
  option_map tt_obs (tt_run own true 2 (gun_arm true false 300) tt_init ex_two_shots) = Some (1, [(0, 0); (0, 0)], 0) /\
  option_map tt_obs (tt_run own true 2 (guarded_arm false 300) tt_init ex_two_shots) = Some (2, [(0, 0); (0, 1)], 0) /\
  option_map tt_obs (tt_run own true 2 (guarded_cleared_arm false 300) tt_init ex_two_shots) = Some (1, [(0, 0); (0, 0)], 0) /\
  option_map tt_obs (tt_run own true 2 (gun_arm true true 300) tt_init ex_slow_answer) = Some (1, [(0, 0)], 0) /\
  option_map tt_obs (tt_run own true 2 (guarded_arm true 300) tt_init ex_slow_answer) = Some (1, [(0, 0)], 1) /\
  Forall (fun te => match te with At _ e => (ev_inst e < 1)%nat end) ex_two_shots.
Proof. repeat split; try reflexivity. repeat constructor. Qed.
