(* Property C09 — HTTP wire fidelity. Statements only; proofs live in Proofs/HeadersProofs.v.

   Model (Model/Headers.v): [effective canon f file cfg e] = the *http.Request the decoded ammo of format f
   builds (decoder merge site + Ammo/RawAmmo.BuildRequest + EnrichRequestWithHeaders), [on_wire g r] = what
   BaseGun.Shoot makes of it.  [file] = the in-file "[k: v]" lines in scope at the entry (uri, uripost),
   [cfg] = the provider's `headers` option, [canon] = textproto.CanonicalMIMEHeaderKey.  All theorems hold for
   EVERY idempotent canon; the concrete copy canon_mime (the one the correspondence run compares with Go's) is
   proved idempotent below. *)
From Coq Require Import List NArith Bool.
From PV Require Import Model.Headers Proofs.HeadersProofs.
Import ListNotations.
Local Open Scope N_scope.

Definition idempotent (canon : str -> str) : Prop := forall s, canon (canon s) = canon s.

Theorem C09_canon_mime_idempotent : idempotent canon_mime.
Proof. exact canon_mime_idem. Qed.
Print Assumptions C09_canon_mime_idempotent.

(* Pass-through: method (GET / POST for the method-less formats uri / uripost), request-URI, body bytes (none for
   uri), scheme by ssl, connection address = the gun's resolved target — whatever the entry's own URL says —
   and every header key the entry (incl. in-file headers in scope) defines keeps exactly the entry's values. *)
Theorem C09_passthrough : forall canon, idempotent canon -> forall f file cfg e g,
  let w := on_wire g (effective canon f file cfg e) in
  w_method w = spec_method f e /\ w_uri w = e_uri e /\ w_body w = spec_body f e /\
  w_tls w = g_ssl g /\ w_addr w = g_resolved g /\
  (forall k vs, str_eqb k host_key = false -> hm_get k (entry_defined canon f file e) = Some vs -> hm_get k (w_hdrs w) = Some vs).
Proof. exact passthrough. Qed.
Print Assumptions C09_passthrough.

(* Precedence, for every format alike and for every key: the header map on the wire is, key by key, the entry's
   own definition where it has one, otherwise the configured values (all of them, in order), otherwise nothing;
   Host never travels in the map (it is w_host).  The map has no duplicate keys. *)
Theorem C09_precedence : forall canon, idempotent canon -> forall f file cfg e g k,
  hm_get k (w_hdrs (on_wire g (effective canon f file cfg e))) =
  if str_eqb k host_key then None
  else match hm_get k (entry_defined canon f file e) with
       | Some vs => Some vs
       | None => hm_get k (cfg_map canon cfg)
       end.
Proof. exact precedence. Qed.
Print Assumptions C09_precedence.

(* the same as an iff: a configured header is on the wire iff the entry does not define that key *)
Theorem C09_configured_iff : forall canon, idempotent canon -> forall f file cfg e g k vs,
  str_eqb k host_key = false -> hm_get k (cfg_map canon cfg) = Some vs ->
  (hm_get k (w_hdrs (on_wire g (effective canon f file cfg e))) = Some vs /\ hm_get k (entry_defined canon f file e) = None)
  \/ (exists ws, hm_get k (entry_defined canon f file e) = Some ws /\
                 hm_get k (w_hdrs (on_wire g (effective canon f file cfg e))) = Some ws).
Proof. exact configured_iff. Qed.
Print Assumptions C09_configured_iff.

Theorem C09_no_duplicate_keys : forall canon, idempotent canon -> forall f file cfg e g,
  NoDup (map fst (w_hdrs (on_wire g (effective canon f file cfg e)))).
Proof. exact wire_hdrs_nodup. Qed.
Print Assumptions C09_no_duplicate_keys.

(* Host: the entry's host (URL host / jsonline "host" field, else its Host header, for uri/uripost the in-file
   one) when it has one; else the configured Host header; else the target's host.  Guard: the entry's own Host
   header is not present-with-an-empty-value (C09_host_empty_value says what happens then). *)
Theorem C09_host : forall canon, idempotent canon -> forall f file cfg e g,
  entry_host canon f file e <> Some [] ->
  w_host (on_wire g (effective canon f file cfg e)) =
  (let h := match entry_host canon f file e with
            | Some h => h
            | None => match hm_get host_key (cfg_map canon cfg) with Some (v, _) => v | None => [] end
            end in
   if is_nil h then g_target_host g else h).
Proof. exact host_rule. Qed.
Print Assumptions C09_host.

Theorem C09_host_empty_value : forall canon, idempotent canon -> forall f file cfg e g,
  entry_host canon f file e = Some [] ->
  w_host (on_wire g (effective canon f file cfg e)) =
  match f with
  | FRaw => let c := host_of (cfg_map canon cfg) in if is_nil c then g_target_host g else c
  | _ => g_target_host g
  end.
Proof. exact host_empty_corner. Qed.
Print Assumptions C09_host_empty_value.

(* Whole files: every entry of a file, with the in-file headers in scope at its position, reaches the target as
   the format-independent specification [spec_wire] says (header maps compared key by key). *)
Theorem C09_file : forall canon, idempotent canon -> forall f cfg g items,
  items_guard canon f [] items ->
  Forall2 wire_equiv (map (on_wire g) (file_requests canon f cfg [] items)) (file_spec canon f cfg [] g items).
Proof. intros canon Hc f cfg g items. apply file_equiv. exact Hc. Qed.
Print Assumptions C09_file.

(* spec_hdrs (the printable header map the correspondence run compares with) is the map C09_precedence states *)
Theorem C09_spec_hdrs_meaning : forall canon f file cfg e k,
  hm_get k (spec_hdrs canon f file cfg e) = spec_get canon f file cfg e k.
Proof. exact spec_hdrs_get. Qed.
Print Assumptions C09_spec_hdrs_meaning.

(* Keep-alive / connection count: PARTIAL.  Proved (gun side): whenever Client.Do returned a response, Shoot
   closes its body on every path and has drained it to EOF unless reading failed; guns that do not use the
   shared client pool have pairwise distinct clients (one per instance), pool clients are at most client-number.
   NOT proved (runtime behaviour of net/http's Transport, checked by the harness on every case only): that under
   these conditions an instance's successive requests reuse one connection, and that disable-keep-alives gives
   one connection per request. *)
Theorem C09_keepalive_gun_side_partial :
  (forall ok, exists pre, shoot_body_events (RespOk ok) = pre ++ [BodyClosed]) /\
  shoot_body_events (RespOk true) = [BodyDrained; BodyClosed] /\
  (forall n i j, gun_client false n i = gun_client false n j -> i = j) /\
  (forall n i, exists s, gun_client true n i = PoolClient s /\ (s < Nat.max 1 n)%nat).
Proof.
  split; [exact shoot_body_closed|]. split; [exact shoot_body_drained|].
  split; [exact gun_client_own_injective|exact gun_client_shared_bound].
Qed.
Print Assumptions C09_keepalive_gun_side_partial.

(* non-vacuity: DESIGN.md section 6 #13 on the concrete canonicalisation — in-file [x-a: file] + configured
   [X-A: conf] + [X-A: conf2] + [X-B: b]: the file's value wins, X-B keeps its configured value; the guards hold. *)
Definition ex_entry : entry := {| e_method := m_get; e_uri := [47;97]; e_scheme := 0; e_urlhost := []; e_hdrs := []; e_body := [] |}.
Definition ex_gun : gun_cfg := {| g_ssl := false; g_target_host := [116]; g_resolved := [84] |}.
Example C09_example_precedence :
  let w := on_wire ex_gun (effective canon_mime FUri [([120;45;97], [102])] [([88;45;65], [99]); ([88;45;65], [100]); ([88;45;66], [98])] ex_entry) in
  w_hdrs w = [([88;45;65], ([102], [])); ([88;45;66], ([98], []))] /\ w_host w = [116] /\
  entry_host canon_mime FUri [([120;45;97], [102])] ex_entry <> Some [] /\
  items_guard canon_mime FUri [] [IHdr [120;45;97] [102]; IEntry ex_entry].
Proof. cbn. repeat split; discriminate. Qed.
