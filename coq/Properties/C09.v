(* Property C09 — HTTP wire fidelity. Statements only; proofs live in Proofs/HeadersProofs.v. *)
From Coq Require Import List NArith Bool.
From PV Require Import Model.Headers Proofs.HeadersProofs.
Import ListNotations.
Local Open Scope N_scope.

(* textproto.CanonicalMIMEHeaderKey (concrete copy) is idempotent and fixes "Host". *)
Theorem C09_canon_mime_idempotent : forall s, canon_mime (canon_mime s) = canon_mime s.
Proof. exact canon_mime_idem. Qed.
Print Assumptions C09_canon_mime_idempotent.

(* Header precedence "for every format alike" (full statement, see C09_precedence in the design):
     forall f file cfg e g k,
       hm_get k (w_hdrs (on_wire g (effective canon f file cfg e))) = spec_get canon f file cfg e k
   i.e. a key the entry (incl. in-file headers in scope) defines carries the entry's values, any other key the configured
   values, nothing else.  FALSE of the code as it is for uri (and uripost): file [X-A: f] + configured [X-A: c] sends c. *)
Theorem C09_precedence_refuted :
  exists file cfg e g k,
    hm_get k (w_hdrs (on_wire g (effective canon_mime FUri file cfg e))) <> spec_get canon_mime FUri file cfg e k.
Proof. exact uri_precedence_refuted. Qed.
Print Assumptions C09_precedence_refuted.
