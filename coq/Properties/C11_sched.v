(* Property C11, clause "no built-in ... schedule ... touches shared state unsafely": what the
   instances of a pool see of ONE shared unlimited schedule that is started by whichever instance
   calls Next() first, while the others evaluate their loop condition (Waiter.IsFinished -> Left()).
   Statements only.  Model: Model/SharedSched.v - one step per shared access / clock reading of
   core/schedule/unlilmited.go, sync.Once with an owner; the method bodies [unl_progs] are re-read
   from the source on every run (harness/cmd/trC11 -> Gen/SharedSchedGen.v, Gen/SharedSched_bridge.v).
   The theorems quantify over the number of instances, their sequences of Next / Left calls, every
   interleaving of their steps, every monotone clock, the duration and the construction instant. *)
From Coq Require Import List ZArith Bool Arith.
From PV Require Import Model.SharedSched Proofs.SharedSchedProofs.
Import ListNotations.
Local Open Scope Z_scope.

(* Every value any instance got from the shared schedule is consistent with ONE start instant s0
   (the clock reading of the instance whose Next() started the schedule, between the beginning of the
   run and the present): Left() = 0 and Next() = _, false only after s0 + d; Next() = t, true only with
   s0 <= t < s0 + d; and no instance panics ("schedule is already started"). *)
Theorem C11_shared_unl_consistent : forall d c0 lo plans g,
  inst_plans plans = true -> ureach d unl_progs (uinit c0 lo plans) g ->
  (forall i th r a, nth_error (g_threads g) i = Some th -> In (r, a) (t_hist th) ->
     res_ok d (g_start g) r a /\ a <= g_lo g) /\
  (forall s0, g_start g = Some s0 -> lo <= s0 <= g_lo g \/ u_started (g_s g) = false) /\
  ~ ustuck d unl_progs g.
Proof. exact shared_unl_consistent. Qed.
Print Assumptions C11_shared_unl_consistent.

(* The form the correspondence run judges: until the duration has passed since the instances began,
   NO instance is told "finished" (Left() = 0, which makes instance.Run leave its loop and fires the
   engine's on-finish callback that cancels the start of further instances; or Next() = _, false) -
   whatever the other instances are doing, in particular while one of them is inside its first Next(). *)
Theorem C11_shared_unl_window : forall d c0 lo plans g,
  inst_plans plans = true -> ureach d unl_progs (uinit c0 lo plans) g -> g_lo g < lo + d ->
  forall i th r a, nth_error (g_threads g) i = Some th -> In (r, a) (t_hist th) -> says_finished r = false.
Proof. exact shared_unl_window. Qed.
Print Assumptions C11_shared_unl_window.

(* The theorem depends on the ORDER of the two statements inside startOnce.Do: with the started flag
   published before the finish time (finish still holds the construction instant), an instance that
   polls Left() while another one starts a one hour schedule is told "finished" at once. *)
Theorem C11_shared_unl_order_matters :
  exists g, ureach 3600 swapped_progs (uinit 0 10 [[UNext]; [ULeft]]) g /\ g_lo g < 10 + 3600 /\
    exists th, nth_error (g_threads g) 1 = Some th /\ In (RLeft 0, 10) (t_hist th).
Proof. exact swapped_refuted. Qed.
Print Assumptions C11_shared_unl_order_matters.

(* meaning of the executable judgment applied to the runs of the real code *)
Theorem C11_shared_seen_ok_b_sound : forall within fin_seen next_false,
  shared_seen_ok_b within fin_seen next_false = true -> within = true -> fin_seen = false /\ next_false = false.
Proof. exact shared_seen_ok_b_sound. Qed.
Print Assumptions C11_shared_seen_ok_b_sound.

(* Non-vacuity: three instances on a schedule of duration 100 constructed at instant 0, beginning at
   instant 5.  Instance 1 polls before anybody started (-1); instance 0 starts at 7 and gets the token
   (8, true), instance 2 gets (9, true); after the duration instance 1 is told
   0 and instance 2 (107, false). *)
Definition ex_sched : list (nat * Z) :=
  [(1%nat, 5); (0%nat, 6); (0%nat, 7); (1%nat, 7); (0%nat, 7); (0%nat, 7); (0%nat, 7); (0%nat, 8); (0%nat, 8);
   (2%nat, 9); (2%nat, 9); (2%nat, 9);
   (1%nat, 107); (1%nat, 107); (1%nat, 107); (2%nat, 108); (2%nat, 108); (2%nat, 108)].
Example C11_shared_unl_example :
  option_map (fun g => (map t_hist (g_threads g), g_start g))
    (urun 100 unl_progs ex_sched (uinit 0 5 [[UNext]; [ULeft; ULeft; ULeft]; [UNext; UNext]])) =
  Some ([[(RNext 8 true, 8)]; [(RLeft (-1), 5); (RLeft (-1), 7); (RLeft 0, 107)]; [(RNext 9 true, 9); (RNext 107 false, 108)]], Some 7).
Proof. vm_compute. reflexivity. Qed.
