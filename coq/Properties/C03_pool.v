(* Property C03 at pool level: "when a pool ends normally ...".  Statements only; proofs live in
   Proofs/InstancePoolProofs.v.  The pool = Model/InstancePool.v: the instances of Model/Instance.v, the
   start loop drawing one instance per token of the STARTUP schedule, and the await loop of
   Model/Pool.v (step_await, shared with property C05) fed with the results of the pool's components.
   [preach c S p]: p is reachable by any interleaving of start-loop steps, instance sections and
   results received by the await loop, for S startup tokens.  [toWait (paw p) = 0]: the await loop
   has left its `for ah.toWait > 0` — the pool has ended. *)
From Coq Require Import List Arith Bool.
From PV Require Import Model.Pool Model.Instance Model.InstancePool Proofs.InstanceProofs Proofs.InstancePoolProofs.
Import ListNotations.

(* A pool can end only normally (nothing sent to awaitErr, no panic of the loop), and only after the
   start loop is over and every started instance has finished: its state is a terminal reachable
   state of Model/Instance.v, so C03_acquire_release, C03_unfired and C03_counters apply to it. *)
Theorem C03_pool_end : forall c S p,
  preach c S p -> toWait (paw p) = 0 ->
  terminal (core p) /\ reach c (core p) /\ bad p = false.
Proof. exact pool_ended_terminal. Qed.
Print Assumptions C03_pool_end.

(* One instance per startup token.  Fewer are started only if the ammo ran out or (shared profile)
   the RPS schedule finished, and then at least one was started: nothing else cancels the instance
   start — in particular not the provider's Run returning while its ammo is still queued. *)
Theorem C03_started : forall c S p,
  preach c S p -> start_open (core p) = false ->
  length (insts (core p)) = S
  \/ (1 <= length (insts (core p)) < S
      /\ (ammo (sh (core p)) = 0 \/ (per_inst c = false /\ stoks (sh (core p)) = 0))).
Proof. exact pool_started. Qed.
Print Assumptions C03_started.

(* The conservation law from the CONFIGURATION alone: a startup schedule with at least one token
   replaces the hypothesis "at least one instance was started" of C03_conservation, and with
   rps-per-instance the tokens are S full profiles. *)
Theorem C03_conservation_pool : forall c S p,
  S >= 1 -> preach c S p -> toWait (paw p) = 0 ->
  fired (sh (core p)) + discarded (sh (core p)) = Nat.min (cfg_tokens c S) (ammo0 c).
Proof. exact pool_conservation. Qed.
Print Assumptions C03_conservation_pool.

(* The boolean the correspondence driver evaluates on OBSERVED runs (started instances, acquired
   items, drawn tokens) holds of every ended pool of the model. *)
Theorem C03_started_checker : forall c S p,
  preach c S p -> toWait (paw p) = 0 ->
  started_ok_b c S (length (insts (core p))) (acquired (sh (core p))) (prof c - stoks (sh (core p))) = true.
Proof. exact started_ok_b_holds. Qed.
Print Assumptions C03_started_checker.

(* A run of the real engine (operations of the instances + what the await loop received, in the observed
   order) that the pool replay accepts ends in a reachable pool state: the theorems above apply to what the
   model predicts for that run. *)
Theorem C03_pool_replay_sound : forall c S l p k,
  preplay c l (pinit c S) 0 = (p, k, true) -> preach c S p.
Proof. intros c S l p k H. eapply preplay_preach; [constructor|exact H]. Qed.
Print Assumptions C03_pool_replay_sound.

(* non-vacuity: shared profile of 2 tokens, 3 items, 2 startup tokens.  The provider's Run returns
   before the first instance is started; both instances are started all the same; instance 0 fires
   both tokens; the pool ends. *)
Definition ex_cfg := mkCfg false false 2 3.
Definition ex_trace : list paction :=
  [PRecv (ProvRes ENil); PSpawn; PSpawn; PEndStart false; PRecv (StartRes 2 ENil)]
  ++ repeat (PInst 0 false) 15 ++ [PInst 1 false; PRecv (RunRes 0 ENil); PRecv (RunRes 1 ENil); PRecv (AggrRes ECtx)].
Example C03_pool_run_exists :
  exists p, pl_run ex_cfg ex_trace (pinit ex_cfg 2) = Some p
            /\ pool_ended p = true /\ length (insts (core p)) = 2 /\ fired (sh (core p)) = 2.
Proof. eexists. split; [vm_compute; reflexivity|]. vm_compute. repeat split; auto. Qed.

(* fewer instances than startup tokens: the ammo (1 item) runs out, the await loop receives
   outOfAmmoErr while the start is pending and cancels it: 1 of 3 instances started *)
Definition ex_cfg2 := mkCfg false false 5 1.
Definition ex_trace2 : list paction :=
  [PSpawn] ++ repeat (PInst 0 false) 9
  ++ [PRecv (RunRes 0 EOutOfAmmo); PEndStart true; PRecv (StartRes 1 ECtx); PRecv (ProvRes ECtx); PRecv (AggrRes ECtx)].
Example C03_pool_out_of_ammo_run :
  exists p, pl_run ex_cfg2 ex_trace2 (pinit ex_cfg2 3) = Some p
            /\ pool_ended p = true /\ length (insts (core p)) = 1 /\ fired (sh (core p)) = 1
            /\ start_cancel p = true.
Proof. eexists. split; [vm_compute; reflexivity|]. vm_compute. repeat split; auto. Qed.

(* what the model forbids: ending the start loop with startup tokens left while nothing cancelled it *)
Example C03_pool_no_early_end :
  pl_run ex_cfg [PRecv (ProvRes ENil); PEndStart true] (pinit ex_cfg 2) = None
  /\ pl_run ex_cfg [PRecv (ProvRes ENil); PEndStart false] (pinit ex_cfg 2) = None.
Proof. split; vm_compute; reflexivity. Qed.
