(* Property C19, the grpc gun against a SILENT target (Model/RobustGrpcTime.v): a target that accepts a call and never
   answers it, or answers after the configured `timeout` (15 s when none is configured), costs the instance at most
   that timeout: the shot returns, reports one sample carrying the DeadlineExceeded status, and the instance goes on
   with the next ammo.  Statements only; proofs in Proofs/RobustGrpcTimeProofs.v. *)
From Coq Require Import List ZArith NArith Bool.
From PV Require Import Model.Robust Model.RobustGrpcScn Model.RobustGrpcTime Model.GrpcStatus Proofs.RobustGrpcTimeProofs.
Import ListNotations.
Local Open Scope N_scope.

(* the context the source builds carries the whole timeout as its deadline, and the timeout is never zero *)
Theorem C19_grpc_call_has_deadline : forall conf,
  ctx_deadline (effective_timeout conf) code_ctx = Some (effective_timeout conf) /\ 0 < effective_timeout conf.
Proof. exact (fun conf => conj (code_ctx_deadline (effective_timeout conf)) (effective_timeout_pos conf)). Qed.
Print Assumptions C19_grpc_call_has_deadline.

(* every call - unknown method, unfit payload, any target behaviour incl. silence for ever - : the shot returns within the
   timeout with exactly the one sample of the first-layer gun (Model/Robust.v grpc_shoot) on `result_of` *)
Theorem C19_grpc_shot_returns_in_time : forall conv conf c,
  exists t s, grpc_shoot_timed conv code_ctx conf c = TsReturned t s /\ t <= effective_timeout conf /\
              grpc_shoot (result_of conv conf c) = Returned [s].
Proof. exact grpc_shot_returns_in_time. Qed.
Print Assumptions C19_grpc_shot_returns_in_time.

(* silence (for ever, or until after the timeout) is reported AT the timeout as DeadlineExceeded; an answer before the
   timeout is reported with its own status when it arrives *)
Theorem C19_grpc_silent_call_is_timeout_sample : forall conv conf b,
  (match b with GbNever => True | GbAnswer t _ => effective_timeout conf <= t end) ->
  grpc_shoot_timed conv code_ctx conf (GcCall b) = TsReturned (effective_timeout conf) (tsample (conv deadline_exceeded)).
Proof. exact silent_call_sample. Qed.
Print Assumptions C19_grpc_silent_call_is_timeout_sample.

Theorem C19_grpc_answered_call_sample : forall conv conf t s, t < effective_timeout conf ->
  grpc_shoot_timed conv code_ctx conf (GcCall (GbAnswer t s)) = TsReturned t (tsample (conv s)).
Proof. exact answered_call_sample. Qed.
Print Assumptions C19_grpc_answered_call_sample.

(* any history of calls: the instance is never stuck, one sample per ammo, at most `timeout` spent per ammo, and the
   samples are those of the first-layer instance (C19_instance_survives_grpc) *)
Theorem C19_instance_survives_grpc_silence : forall conv conf cs,
  exists ss el, instance_timed conv code_ctx conf cs = (ss, el, false) /\ length ss = length cs /\
                el <= N.of_nat (length cs) * effective_timeout conf /\
                instance_run (map grpc_shoot (map (result_of conv conf) cs)) = (ss, false).
Proof. exact instance_timed_survives. Qed.
Print Assumptions C19_instance_survives_grpc_silence.

(* it is the WithTimeout on the spine of the context expression that does it: any such expression is as good *)
Theorem C19_grpc_any_context_with_timeout_returns : forall conv cx conf c, has_timeout cx = true ->
  exists t s, grpc_shoot_timed conv cx conf c = TsReturned t s /\ t <= effective_timeout conf.
Proof. exact shot_with_deadline_returns. Qed.
Print Assumptions C19_grpc_any_context_with_timeout_returns.

(* the contrast: with a context that has no WithTimeout on its spine (Background, the instance context, either with
   metadata) one silent call leaves the instance stuck; the ammo after it is never taken *)
Theorem C19_grpc_context_without_deadline_refuted : forall conv cx conf pre post, has_timeout cx = false ->
  grpc_shoot_timed conv cx conf (GcCall GbNever) = TsNever /\
  exists ss el, instance_timed conv cx conf (pre ++ GcCall GbNever :: post) = (ss, el, true) /\
                (length ss <= length pre)%nat.
Proof. exact no_deadline_stuck. Qed.
Print Assumptions C19_grpc_context_without_deadline_refuted.

(* the grpc/scenario gun (its shootStep has its own copy of the code): any scenario of calls, any target behaviour per
   call: the shot returns within (number of calls) x timeout, and its samples are those of the untimed scenario gun
   (Model/RobustGrpcScn.v, C19_grpc_scenario_total) on the statuses `result_of` gives *)
Theorem C19_grpc_scenario_returns_in_time : forall conv conf cs,
  exists ss el, scenario_timed conv code_ctx conf cs = (ss, el, false) /\
                el <= N.of_nat (length cs) * effective_timeout conf /\
                grpc_scn_shoot (map (gstep_of conv conf) cs) = Returned ss.
Proof. exact scenario_timed_returns. Qed.
Print Assumptions C19_grpc_scenario_returns_in_time.

(* a call of a scenario met with silence: one DeadlineExceeded sample at the timeout, and the NEXT call follows *)
Theorem C19_grpc_scenario_silent_call_goes_on : forall conv conf b r,
  (match b with GbNever => True | GbAnswer t _ => effective_timeout conf <= t end) ->
  scenario_timed conv code_ctx conf (GcCall b :: r) =
  (let '(ss, el, stuck) := scenario_timed conv code_ctx conf r in
   (tsample (conv deadline_exceeded) :: ss, effective_timeout conf + el, stuck)).
Proof. exact scenario_silent_call_goes_on. Qed.
Print Assumptions C19_grpc_scenario_silent_call_goes_on.

Theorem C19_grpc_scenario_context_without_deadline_refuted : forall conv cx conf r, has_timeout cx = false ->
  scenario_timed conv cx conf (GcCall GbNever :: r) = ([], 0, true).
Proof. exact scenario_no_deadline_stuck. Qed.
Print Assumptions C19_grpc_scenario_context_without_deadline_refuted.

(* non-vacuity: timeout 400 ms; OK at once, silence, an answer 2.5 s late, Unavailable after 50 ms, unknown method:
   five samples 200 504 504 503 0 after 400+400+50 ms; the same history with the metadata hung on the instance context:
   one sample, stuck *)
Definition conv_code (s : N) : Z := Z.of_N (grpc_code s).
Example C19_example_grpc_silence :
  instance_timed conv_code code_ctx 400
    [GcCall (GbAnswer 0 0); GcCall GbNever; GcCall (GbAnswer 2900 0); GcCall (GbAnswer 50 14); GcNoMethod]
  = ([tsample 200; tsample 504; tsample 504; tsample 503; tsample 0], 850, false)
  /\ instance_timed conv_code (CxWithMD CxGun) 400
    [GcCall (GbAnswer 0 0); GcCall GbNever; GcCall (GbAnswer 2900 0); GcCall (GbAnswer 50 14); GcNoMethod]
  = ([tsample 200], 0, true)
  /\ effective_timeout 0 = 15000
  /\ scenario_timed conv_code code_ctx 400 [GcCall GbNever; GcCall (GbAnswer 10 13); GcBadPayload; GcCall (GbAnswer 0 0)]
     = ([tsample 504; tsample 500; tsample 400], 410, false).
Proof. vm_compute. repeat split. Qed.
