(* Property C14 with the provider's `middlewares:` option (statements only; proofs in
   Proofs/PreloadMwProofs.v, model in Model/PreloadMw.v on top of Model/PreloadContent.v).

   Provider.Acquire builds a request from the ammo object it took from the sink and lets every
   configured middleware update that request (the built-in header/date one adds a time stamp).
   With preload — and in the jsonline array form — the same ammo objects are handed out again on
   every later pass.  Header maps are modelled as heap objects; [deliver_m] = the contents delivered,
   each with the header map of the request the gun is handed, Run's result, sink closed. *)
From Coq Require Import List Arith Bool NArith.
From PV Require Import Lib.AmmoBytes.
From PV Require Model.AmmoCommon.
From PV Require Import Model.Provider Model.Preload Model.PreloadContent Model.PreloadMw
  Proofs.ProviderProofs Proofs.PreloadProofs Proofs.PreloadContentProofs Proofs.PreloadMwProofs.
Import ListNotations.

(* For every decoder kind, preload on and off, every list of middlewares that can start, `headers:`
   option, file with at least one entry, limit, passes, chosencases list, cancellation point and
   fuel ([end_with]: when Close of the ammo file fails Run reports that instead of its own result):
   what is delivered is the cyclic replay of exactly the chosen entries, and the request of
   every delivery is the middlewares applied to a request carrying exactly the headers of the
   entry's own line ([with_req]) — the first time the entry is delivered and every later time. *)
Theorem C14_mw : forall k preload lim pas cfgh items chb ops,
  let cs := file_entries cfgh items [] 0 in
  let src := chosen_content chb cs in
  let n := length cs in
  let C := c14_const n in
  let runm := deliver_m k preload lim pas cfgh items chb ops in
  cs <> [] -> init_fails ops = false ->
  (src <> [] ->
      (forall b fuel, bound lim pas (length src) = Some b -> C * (b + n + 1) < fuel ->
         runm None fuel = (map (with_req ops) (cyc_c src b), end_with ops Ok, true))
      /\ (forall cancel fuel, exists j,
            fst (fst (runm cancel fuel)) = map (with_req ops) (cyc_c src j) /\ le_opt j (bound lim pas (length src))))
  /\ (src = [] -> forall fuel, C * (n + 1) < fuel -> runm None fuel = ([], end_with ops (Failed ENoAmmo), true)).
Proof. exact c14_mw. Qed.
Print Assumptions C14_mw.

(* Preload on = preload off including the request of every delivery, Run's result and the sink
   state, whenever the run ends by itself; for every list of middlewares (one that cannot start
   ends both runs at once with its error). *)
Theorem C14_mw_equiv : forall k lim pas cfgh items chb ops,
  let cs := file_entries cfgh items [] 0 in
  let src := chosen_content chb cs in
  let n := length cs in
  let C := c14_const n in
  cs <> [] ->
  forall b f1 f2,
    ((src <> [] /\ bound lim pas (length src) = Some b) \/ (src = [] /\ b = n)) ->
    C * (b + n + 1) < f1 -> C * (b + n + 1) < f2 ->
    deliver_m k true lim pas cfgh items chb ops None f1 = deliver_m k false lim pas cfgh items chb ops None f2.
Proof. exact c14_mw_equiv. Qed.
Print Assumptions C14_mw_equiv.

(* The heap discipline behind it.  (1) Acquire on the ammo object whose map lives at address a:
   the request is the middlewares applied to a copy of that map, and every map that existed before
   is unchanged.  (2) After the kept objects were delivered in any order any number of times every
   one of them is what it was, and delivering it once more gives its first request again.
   (3) Whatever sequence [del] of entries of the file is delivered, a provider that keeps its
   objects and one that sets up a new object per delivery hand out the same requests. *)
Theorem C14_kept_objects : forall ops,
  (forall m a m2 v, acquire ops m a = (m2, v) ->
     v = apply_mw ops (enrich_r (mcell m a)) /\ length m2 = S (length m)
     /\ (forall b, b < length m -> mcell m2 b = mcell m b))
  /\ (forall m refs, (forall a, In a refs -> a < length m) ->
        (forall b, b < length m -> mcell (fst (replay ops m refs)) b = mcell m b)
        /\ (forall a, a < length m -> snd (acquire ops (fst (replay ops m refs)) a) = snd (acquire ops m a)))
  /\ (forall k preload cs del, (forall c, In c del -> nth_error cs (c_pos c) = Some c) ->
        requests_of k preload ops cs del = map (fun c => req_spec ops (c_hdrs c)) del).
Proof. exact kept_objects. Qed.
Print Assumptions C14_kept_objects.

(* Non-vacuity.  [X-Stage: one] /e0 "t1" [X-Stage: two] /e1 "t1 x" /e2 "t1", middlewares
   header/date (X-Stamp) and Add(X-Stage, mw), chosencases ["t1"], limit 3: /e0 /e2 /e0, every
   request with ONE stamp and X-Stage = [own line; mw], on both paths.  A BuildRequest that hands
   the ammo's own map to the request ([build_req_alias]) would be told apart: the kept /e0 comes
   back with two stamps the second time, while a provider that sets up new objects does not. *)
Definition exm_t1 : bytes := [116; 49]%N.
Definition exm_t1x : bytes := [116; 49; 32; 120]%N.
Definition exm_stage : bytes := [88; 45; 83; 116; 97; 103; 101]%N.
Definition exm_stamp : bytes := [88; 45; 83; 116; 97; 109; 112]%N.
Definition exm_one : bytes := [111; 110; 101]%N.
Definition exm_two : bytes := [116; 119; 111]%N.
Definition exm_mw : bytes := [109; 119]%N.
Definition exm_items : list citem :=
  [CHdr exm_stage exm_one; CEnt exm_t1; CHdr exm_stage exm_two; CEnt exm_t1x; CEnt exm_t1].
Definition exm_ops : list mwop := [MDate exm_stamp; MAdd exm_stage exm_mw].

Example C14_mw_examples :
  let c i t v := {| c_pos := i; c_tag := t; c_hdrs := [(exm_stage, v)] |} in
  let r v := [(exm_stage, [v; exm_mw]); (exm_stamp, [STAMP])] in
  let want := [(c 0 exm_t1 exm_one, r exm_one); (c 2 exm_t1 exm_two, r exm_two); (c 0 exm_t1 exm_one, r exm_one)] in
  deliver_m DUri true 3 0 [] exm_items [exm_t1] exm_ops None 200 = (want, Ok, true)
  /\ deliver_m DUri false 3 0 [] exm_items [exm_t1] exm_ops None 200 = (want, Ok, true)
  /\ init_fails exm_ops = false /\ end_with exm_ops Ok = Ok
  /\ deliver_m DUri true 3 0 [] exm_items [exm_t1] (exm_ops ++ [OCloseFails]) None 200 = (want, Failed EUnexpected, true)
  /\ deliver_m DUri true 3 0 [] exm_items [exm_t1] (MBadInit :: exm_ops) None 200 = ([], Failed EUnexpected, true)
  /\ (let cs := file_entries [] exm_items [] 0 in
      let del := [c 0 exm_t1 exm_one; c 2 exm_t1 exm_two; c 0 exm_t1 exm_one] in
      requests_with build_req_alias DUri true exm_ops cs del
        = [r exm_one; r exm_two; [(exm_stage, [exm_one; exm_mw; exm_mw]); (exm_stamp, [STAMP; STAMP])]]
      /\ requests_with build_req_alias DUri false exm_ops cs del = [r exm_one; r exm_two; r exm_one]).
Proof. repeat split; vm_compute; reflexivity. Qed.
