(* Property C10 — sample result coding. Statements only; proofs live in Proofs/ and Gen/. *)
From Coq Require Import List NArith ZArith Bool.
From PV Require Import Lib.Table Model.Sample Model.GrpcStatus Proofs.SampleProofs Gen.GrpcStatusGen Gen.GrpcStatus_bridge Gen.ConstGen Gen.Const_bridge.
Import ListNotations.
Local Open Scope N_scope.

(* The status switch regenerated from components/guns/grpc/core.go maps every gRPC status
   code exactly as the table in docs/eng/grpc-generator.md says, default included. *)
Theorem C10_grpc_table : forall c : N, grpc_code c = doc_code c.
Proof. exact grpc_code_is_documented. Qed.
Print Assumptions C10_grpc_table.

Theorem C10_grpc_table_wellformed :
  nodup_b (keys gen_switch) = true /\ nodup_b (keys doc_table) = true.
Proof. exact grpc_switch_no_dup. Qed.
Print Assumptions C10_grpc_table_wellformed.

(* autotag(depth, path) is the first depth+1 '/'-separated pieces of the path (the whole
   path when it has fewer), and a prefix of the path. *)
Theorem C10_autotag : forall depth path,
  autotag_go depth path = autotag_spec depth path /\ exists rest, path = autotag_go depth path ++ rest.
Proof. intros d p; split; [apply autotag_go_spec|apply autotag_prefix]. Qed.
Print Assumptions C10_autotag.

(* Tag choice: never empty; ammo tag kept / auto-tag appended / __EMPTY__ exactly as stated. *)
Theorem C10_tag_choice : forall cfg t p,
  shoot_tags cfg t p <> [] /\
  (at_enabled cfg = false -> shoot_tags cfg t p = match t with [] => empty_tag | _ => t end) /\
  (at_enabled cfg = true -> at_notagonly cfg = true -> t <> [] -> shoot_tags cfg t p = t) /\
  (at_enabled cfg = true -> t = [] ->
     shoot_tags cfg t p = match autotag_spec (at_depth cfg) p with [] => empty_tag | a => a end) /\
  (at_enabled cfg = true -> at_notagonly cfg = false -> t <> [] ->
     shoot_tags cfg t p = t ++ 124 :: autotag_spec (at_depth cfg) p).
Proof.
  intros cfg t p. split; [apply shoot_tags_nonempty|].
  split; [apply shoot_tags_disabled|].
  split; [apply shoot_tags_notagonly_keeps|].
  split; [intros H ->; apply shoot_tags_auto_untagged; exact H|apply shoot_tags_auto_tagged].
Qed.
Print Assumptions C10_tag_choice.

Theorem C10_empty_tag_is_source_constant : empty_tag = gen_empty_tag /\ proto_code_error = gen_proto_code_error.
Proof. split; [exact empty_tag_bridge|exact proto_code_error_bridge]. Qed.
Print Assumptions C10_empty_tag_is_source_constant.

(* Net code: timeouts -> 110; an errno under wrappers -> that errno; anything else -> 999;
   never 0 for a failed exchange. *)
Theorem C10_netcode : forall e,
  get_errno true e = 110 /\
  (forall n, net_wrapped (strip_wrap e) = EErrno n -> get_errno false e = n) /\
  ((forall n, net_wrapped (strip_wrap e) <> EErrno n) -> get_errno false e = proto_code_error) /\
  (forall t, errnos_nonzero e -> get_errno t e <> 0).
Proof.
  intros e. split; [apply get_errno_timeout|].
  split; [intros n; apply get_errno_errno|].
  split; [apply get_errno_other|intros t; apply get_errno_nonzero].
Qed.
Print Assumptions C10_netcode.

(* Ids handed out by an atomic fetch-and-add counter are pairwise distinct. *)
Theorem C10_ids_unique : forall start n, NoDup (ids_from start n) /\ length (ids_from start n) = n.
Proof. intros s n; split; [apply ids_from_nodup|apply ids_from_length]. Qed.
Print Assumptions C10_ids_unique.

(* non-vacuity: a concrete error shape meeting the errno hypothesis *)
Example C10_netcode_example :
  get_errno false (EWrap (EUrl (EOp (ESys (EErrno 111))))) = 111 /\
  get_errno false (EUrl (EWrap (EErrno 111))) = 999.
Proof. split; reflexivity. Qed.
