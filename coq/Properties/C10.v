(* Property C10 — sample result coding. Statements only; proofs live in Proofs/ and Gen/. *)
From Coq Require Import List NArith ZArith Bool Permutation.
From PV Require Import Lib.Table Lib.AmmoBytes Lib.AmmoLines Model.AmmoCommon Model.AmmoUri Model.AmmoUripost Model.AmmoRaw Model.AmmoJson Model.ShootAmmo Proofs.ShootAmmoProofs Model.Sample Model.GrpcStatus Model.Shoot Model.ShootEvents Proofs.SampleProofs Proofs.ShootProofs Proofs.ShootEventsProofs Model.ReportQueue Model.ShootRun Proofs.ShootRunProofs Model.ShootEngine Proofs.ShootEngineProofs Gen.GrpcStatusGen Gen.GrpcStatus_bridge Gen.ConstGen Gen.Const_bridge.
Import ListNotations.
Local Open Scope N_scope.

(* The status switch regenerated from components/guns/grpc/core.go maps every gRPC status
   code exactly as the table in docs/eng/grpc-generator.md says, default included. *)
Theorem C10_grpc_table : forall c : N, grpc_code c = doc_code c.
Proof. exact grpc_code_is_documented. Qed.
Print Assumptions C10_grpc_table.

Theorem C10_grpc_table_wellformed :
  nodup_b (keys gen_switch) = true /\ nodup_b (keys doc_table) = true.
Proof. exact grpc_switch_no_dup. Qed.
Print Assumptions C10_grpc_table_wellformed.

(* autotag(depth, path) is the first depth+1 '/'-separated pieces of the path (the whole
   path when it has fewer), and a prefix of the path. *)
Theorem C10_autotag : forall depth path,
  autotag_go depth path = autotag_spec depth path /\ exists rest, path = autotag_go depth path ++ rest.
Proof. intros d p; split; [apply autotag_go_spec|apply autotag_prefix]. Qed.
Print Assumptions C10_autotag.

(* Tag choice: never empty; ammo tag kept / auto-tag appended / __EMPTY__ exactly as stated. *)
Theorem C10_tag_choice : forall cfg t p,
  shoot_tags cfg t p <> [] /\
  (at_enabled cfg = false -> shoot_tags cfg t p = match t with [] => empty_tag | _ => t end) /\
  (at_enabled cfg = true -> at_notagonly cfg = true -> t <> [] -> shoot_tags cfg t p = t) /\
  (at_enabled cfg = true -> t = [] ->
     shoot_tags cfg t p = match autotag_spec (at_depth cfg) p with [] => empty_tag | a => a end) /\
  (at_enabled cfg = true -> at_notagonly cfg = false -> t <> [] ->
     shoot_tags cfg t p = t ++ 124 :: autotag_spec (at_depth cfg) p).
Proof.
  intros cfg t p. split; [apply shoot_tags_nonempty|].
  split; [apply shoot_tags_disabled|].
  split; [apply shoot_tags_notagonly_keeps|].
  split; [intros H ->; apply shoot_tags_auto_untagged; exact H|apply shoot_tags_auto_tagged].
Qed.
Print Assumptions C10_tag_choice.

Theorem C10_empty_tag_is_source_constant : empty_tag = gen_empty_tag /\ proto_code_error = gen_proto_code_error.
Proof. split; [exact empty_tag_bridge|exact proto_code_error_bridge]. Qed.
Print Assumptions C10_empty_tag_is_source_constant.

(* Net code: timeouts -> 110; an errno under wrappers (strip_wrap: the Underlying() chain, then the
   Cause() chain, then any nesting of OpError / SyscallError / url.Error) -> that errno; anything
   else -> 999; never 0 for a failed exchange. *)
Theorem C10_netcode : forall e,
  get_errno true e = 110 /\
  (forall n, net_wrapped (strip_wrap e) = EErrno n -> get_errno false e = n) /\
  ((forall n, net_wrapped (strip_wrap e) <> EErrno n) -> get_errno false e = proto_code_error) /\
  (forall t, errnos_nonzero e -> get_errno t e <> 0).
Proof.
  intros e. split; [apply get_errno_timeout|].
  split; [intros n; apply get_errno_errno|].
  split; [apply get_errno_other|intros t; apply get_errno_nonzero].
Qed.
Print Assumptions C10_netcode.

(* Ids handed out by an atomic fetch-and-add counter are pairwise distinct. *)
Theorem C10_ids_unique : forall start n, NoDup (ids_from start n) /\ length (ids_from start n) = n.
Proof. intros s n; split; [apply ids_from_nodup|apply ids_from_length]. Qed.
Print Assumptions C10_ids_unique.

(* ---------------------------------------------------------------------------------------
   One sample per request: BaseGun.Shoot as its control flow (Model/Shoot.v).
   Quantified over the auto-tag settings, the ammo (tag, path, id, invalid or not), and
   everything the network can do: Do fails with any error shape / a response with ANY status
   arrives and the body read succeeds or fails with any error shape.
   --------------------------------------------------------------------------------------- *)

(* Every path through Shoot of every gun pandora constructs (no Connect hook), and of a gun
   with a Connect hook that succeeds, reports exactly one sample: the one base_spec describes.
   Paths: invalid ammo / request failed / body read failed / complete exchange. *)
Theorem C10_one_sample : forall cfg h invalid id tag path x,
  h <> HFail ->
  length (base_shoot cfg h invalid id tag path x) = 1%nat /\
  base_shoot cfg h invalid id tag path x = [base_spec cfg invalid id tag path x].
Proof. intros; split; [apply base_shoot_one|apply base_shoot_spec]; assumption. Qed.
Print Assumptions C10_one_sample.

(* The optional Connect hook (set by no constructor in pandora; the CONNECT exchange of the
   connect gun runs inside Client.Do and is covered by C10_one_sample): when it fails, Shoot
   reports nothing itself - the hook's documented contract (base_test.go: "Connect should
   report fail in sample itself") is to report its failure. *)
Theorem C10_connect_hook_contract : forall cfg invalid id tag path x,
  base_shoot cfg HFail invalid id tag path x = [].
Proof. exact base_shoot_hook_failed. Qed.
Print Assumptions C10_connect_hook_contract.

(* Proto code = the received HTTP status, for every status, whether or not the body could be
   read afterwards; 0 when no response arrived. *)
Theorem C10_proto_code : forall cfg id tag path,
  (forall st b, sm_proto (base_spec cfg false id tag path (XResp st b)) = st) /\
  (forall t e, sm_proto (base_spec cfg false id tag path (XErr t e)) = 0).
Proof. intros; split; intros; reflexivity. Qed.
Print Assumptions C10_proto_code.

(* Net code: 0 when the response was received completely; the errno-style code of the error
   (C10_netcode) when the request or the body read failed, never 0 then. *)
Theorem C10_net_code : forall cfg id tag path,
  (forall st, sm_net (base_spec cfg false id tag path (XResp st BodyOk)) = 0) /\
  (forall x t e, exchange_failed x = Some (t, e) ->
     sm_net (base_spec cfg false id tag path x) = get_errno t e /\
     (errnos_nonzero e -> sm_net (base_spec cfg false id tag path x) <> 0)).
Proof. intros; split; [intros; reflexivity|intros x t e; apply base_spec_net_failed]. Qed.
Print Assumptions C10_net_code.

(* The sample carries the tag chosen by C10_tag_choice (never empty) and the ammo's id; an
   invalid ammo is reported once with its tag marked __EMPTY__ and codes 0/0. *)
Theorem C10_sample_tag_id : forall cfg id tag path x,
  sm_tags (base_spec cfg false id tag path x) = shoot_tags cfg tag path /\
  sm_id (base_spec cfg false id tag path x) = id /\
  sm_tags (base_spec cfg false id tag path x) <> [] /\
  base_spec cfg true id tag path x =
    mkSample (match tag with [] => empty_tag | _ => tag ++ 124 :: empty_tag end) 0 0 id.
Proof.
  intros. destruct (base_spec_tags_id cfg id tag path x) as [A [B C]].
  repeat split; try assumption.
Qed.
Print Assumptions C10_sample_tag_id.

(* ---------------------------------------------------------------------------------------
   Scenario shots: one sample per executed step.
   --------------------------------------------------------------------------------------- *)

(* HTTP scenario gun: the samples are exactly one per executed step (all steps up to and
   including the first failing one), in order; a completed step is tagged <scenario>.<step>
   with the received status and net code 0; the failing step is tagged
   <scenario>.<step>|__EMPTY__ with proto code 0 and net code 999. *)
Theorem C10_scenario_samples_http : forall name steps,
  hscen_shoot name steps = hscen_spec name steps /\
  length (hscen_shoot name steps) = length (executed (fun x => hstep_stops (snd x)) steps) /\
  (forallb (fun x => negb (hstep_stops (snd x))) steps = true ->
     executed (fun x => hstep_stops (snd x)) steps = steps) /\
  (forall pre s post, steps = pre ++ s :: post ->
     forallb (fun x => negb (hstep_stops (snd x))) pre = true -> hstep_stops (snd s) = true ->
     executed (fun x => hstep_stops (snd x)) steps = pre ++ [s]).
Proof.
  intros name steps. split; [apply hscen_shoot_spec|]. split; [apply hscen_count|].
  split; [apply executed_all|]. intros pre s post ->.
  apply (executed_first_stop (fun x => hstep_stops (snd x))).
Qed.
Print Assumptions C10_scenario_samples_http.

(* gRPC scenario gun: one sample per executed step, tagged <scenario>.<call tag>, proto code
   0 (preprocessor / template / unknown method), 400 (payload does not fit) or the documented
   mapping of the call status; a step stops the shot when shootStep returns an error. *)
Theorem C10_scenario_samples_grpc : forall name steps,
  gscen_shoot name steps = gscen_spec name steps /\
  length (gscen_shoot name steps) = length (executed (fun x => gstep_stops (snd x)) steps) /\
  (forall s, In s (gscen_shoot name steps) ->
     exists tg st, In (tg, st) steps /\ sm_tags s = step_tag name tg /\ sm_proto s = gstep_code st /\ sm_net s = 0) /\
  (forall st pf, gstep_code (GSCalled st pf) = doc_code st).
Proof.
  intros name steps. split; [apply gscen_shoot_spec|]. split; [apply gscen_count|].
  split; [apply gscen_tags|]. intros st pf. apply grpc_code_is_documented.
Qed.
Print Assumptions C10_scenario_samples_grpc.

Theorem C10_scenario_step_tags_http : forall name steps s,
  In s (hscen_shoot name steps) ->
  exists nm st, In (nm, st) steps /\
    sm_tags s = match st with HStepOk _ => step_tag name nm | HStepFail => step_tag name nm ++ 124 :: empty_tag end.
Proof. exact hscen_tags. Qed.
Print Assumptions C10_scenario_step_tags_http.

(* gRPC gun: exactly one sample per ammo on every path (unknown method, payload that does not
   fit, call made), carrying the ammo's tag and the documented code of the call status. *)
Theorem C10_grpc_one_sample : forall tag c,
  grpc_shoot tag c = [mkSample tag (gcall_code c) 0 0] /\
  (forall st, gcall_code (GCalled st) = doc_code st).
Proof. intros; split; [reflexivity|intros st; apply grpc_code_is_documented]. Qed.
Print Assumptions C10_grpc_one_sample.

(* ---------------------------------------------------------------------------------------
   The sample is complete when it is handed over (Model/ShootEvents.v).  A sample is a mutable
   struct; Aggregator.Report passes the pointer to the aggregator, which reads it whenever it
   likes afterwards (phout: on another goroutine, then recycles the struct).  The shots as
   sequences of operations on their samples:
   --------------------------------------------------------------------------------------- *)

(* Any trace that never writes to a sample between its Report and the next Acquire: at every
   moment - after every prefix p of the trace - every sample handed over so far has the value
   it had at its Report (no aggregator read can see anything else; nothing is written late). *)
Theorem C10_handoff_discipline : forall tr,
  handoff_ok false tr = true ->
  forall p q, tr = p ++ q -> at_end p = at_report p /\ late_writes p = 0%nat.
Proof. exact handoff_stable. Qed.
Print Assumptions C10_handoff_discipline.

(* BaseGun.Shoot, every path (hook, invalid ammo, all tagging settings, request failed / body
   read failed / complete exchange): the operations keep the discipline; the value at the
   moment of Report is the value of base_shoot, i.e. (C10_one_sample) the one sample base_spec
   describes - net code and proto code included - and it is still that at any later moment. *)
Theorem C10_sample_complete_at_report : forall cfg h invalid id tag path x,
  handoff_ok false (base_shoot_ev cfg h invalid id tag path x) = true /\
  at_report (base_shoot_ev cfg h invalid id tag path x) = base_shoot cfg h invalid id tag path x /\
  (forall p q, base_shoot_ev cfg h invalid id tag path x = p ++ q ->
     at_end p = at_report p /\ late_writes p = 0%nat) /\
  (h <> HFail ->
     at_report (base_shoot_ev cfg h invalid id tag path x) = [base_spec cfg invalid id tag path x] /\
     at_end (base_shoot_ev cfg h invalid id tag path x) = [base_spec cfg invalid id tag path x]).
Proof.
  intros. split; [apply base_ev_handoff|]. split; [apply base_ev_at_report|].
  split; [apply base_ev_final|apply base_ev_spec].
Qed.
Print Assumptions C10_sample_complete_at_report.

(* The same for the scenario guns and the gRPC gun: each step's sample is complete at its
   Report (completed step: SetProtoCode, Report; failing HTTP step: AddTag, SetProtoCode(0),
   SetErr, Report; gRPC: the deferred SetProtoCode(code), Report). *)
Theorem C10_scenario_complete_at_report : forall name hsteps gsteps tag c,
  (handoff_ok false (hscen_ev name hsteps) = true /\
   at_report (hscen_ev name hsteps) = hscen_spec name hsteps /\ at_end (hscen_ev name hsteps) = hscen_spec name hsteps) /\
  (handoff_ok false (gscen_ev name gsteps) = true /\
   at_report (gscen_ev name gsteps) = gscen_spec name gsteps /\ at_end (gscen_ev name gsteps) = gscen_spec name gsteps) /\
  (handoff_ok false (grpc_ev tag c) = true /\
   at_report (grpc_ev tag c) = grpc_shoot tag c /\ at_end (grpc_ev tag c) = grpc_shoot tag c).
Proof.
  intros. split; [|split].
  - split; [apply hscen_ev_handoff|]. rewrite <- hscen_shoot_spec. apply hscen_ev_at_report.
  - split; [apply gscen_ev_handoff|]. rewrite <- gscen_shoot_spec. apply gscen_ev_at_report.
  - apply grpc_ev_ok.
Qed.
Print Assumptions C10_scenario_complete_at_report.

(* non-vacuity, both ways: the order of base.go keeps the discipline (a refused exchange is
   handed over with net code 111); storing the error AFTER the hand-over does not - the
   aggregator may see net code 0 for the failed exchange, and the sample is written to late *)
Example C10_handoff_example :
  let cfg := Build_autotag_cfg false 2 true in
  let e := EOp (ESys (EErrno 111)) in
  base_shoot_ev cfg HNone false 7 [116] [47] (XErr false e) = [SvAcquire [116] 7; SvSetErr false e; SvReport] /\
  at_report [SvAcquire [116] 7; SvSetErr false e; SvReport] = [mkSample [116] 0 111 7] /\
  handoff_ok false [SvAcquire [116] 7; SvReport; SvSetErr false e] = false /\
  at_report [SvAcquire [116] 7; SvReport; SvSetErr false e] = [mkSample [116] 0 0 7] /\
  at_end [SvAcquire [116] 7; SvReport; SvSetErr false e] = [mkSample [116] 0 111 7] /\
  late_writes [SvAcquire [116] 7; SvReport; SvSetErr false e] = 1%nat.
Proof. repeat split. Qed.

(* ---------------------------------------------------------------------------------------
   "whose tag is the ammo's tag": from the bytes of the ammo file to the samples
   (Model/ShootAmmo.v = the decoders of property C07 composed with BaseGun.Shoot).
   For every url oracle, auto-tag setting, network behaviour (xof), well-formed file of the
   format with any layout, and every number k of acquisitions: shooting what the provider
   delivers yields exactly one sample per ammo of the file (cyclically), in order, each the
   sample base_spec describes for the tag written on ITS request line (entity, for http/json).
   --------------------------------------------------------------------------------------- *)
Theorem C10_ammo_file_samples :
  forall cfg url_parse (path_of : entry -> bytes) (xof : nat -> entry -> exchange) (k : nat),
  (forall maxtok items fin,
     forallb (wf_uitem url_parse maxtok) items = true -> uri_entries (map fst items) [] <> [] ->
     shoot_deliveries cfg e_tag path_of xof 0 1 (uri_decode url_parse maxtok cfg0 k (render_uri items fin)) =
     ammo_spec cfg e_tag path_of xof 0 1
       (cycle_take k (uri_entries (map fst items) []) (uri_entries (map fst items) []))) /\
  (forall items fin,
     forallb (wf_pitem url_parse) items = true -> uripost_entries (map fst items) [] <> [] ->
     shoot_deliveries cfg e_tag path_of xof 0 1 (uripost_decode url_parse cfg0 k (render_uripost items fin)) =
     ammo_spec cfg e_tag path_of xof 0 1
       (cycle_take k (uripost_entries (map fst items) []) (uripost_entries (map fst items) []))) /\
  (forall ents es,
     read_array url_parse ents = Some es -> es <> [] ->
     shoot_deliveries cfg e_tag path_of xof 0 1 (json_stream_decode url_parse cfg0 k ents JEof) =
     ammo_spec cfg e_tag path_of xof 0 1 (cycle_take k es es)).
Proof.
  intros. split; [|split]; intros.
  - apply uri_file_samples; assumption.
  - apply uripost_file_samples; assumption.
  - apply json_file_samples; assumption.
Qed.
Print Assumptions C10_ammo_file_samples.

Theorem C10_ammo_file_samples_raw :
  forall cfg (path_of : rentry -> bytes) (xof : nat -> rentry -> exchange) (k : nat) items fin,
  forallb wf_ritem items = true -> raw_entries (map fst items) <> [] ->
  shoot_deliveries cfg rb_tag path_of xof 0 1 (raw_decode cfg0 k (render_raw items fin)) =
  ammo_spec cfg rb_tag path_of xof 0 1 (cycle_take k (raw_entries (map fst items)) (raw_entries (map fst items))).
Proof. intros. apply raw_file_samples; assumption. Qed.
Print Assumptions C10_ammo_file_samples_raw.

(* what ammo_spec says: one sample per ammo; tags chosen (C10_tag_choice) from each ammo's own
   tag; ids the consecutive counter values, pairwise distinct; and the tags of the entries ARE
   the tags written in the file, whole (every word), in order. *)
Theorem C10_ammo_file_tags_ids :
  (forall (E : Type) cfg (tag_of path_of : E -> bytes) xof es i id,
     length (ammo_spec cfg tag_of path_of xof i id es) = length es /\
     map sm_tags (ammo_spec cfg tag_of path_of xof i id es) = map (fun e => shoot_tags cfg (tag_of e) (path_of e)) es /\
     map sm_id (ammo_spec cfg tag_of path_of xof i id es) = ids_from id (length es) /\
     NoDup (map sm_id (ammo_spec cfg tag_of path_of xof i id es))) /\
  (forall items h, map e_tag (uri_entries items h) = uitem_tags items) /\
  (forall items h, map e_tag (uripost_entries items h) = pitem_tags items) /\
  (forall items, map rb_tag (raw_entries items) = ritem_tags items) /\
  (forall url_parse ents es, read_array url_parse ents = Some es -> map e_tag es = map j_tag ents).
Proof.
  split; [intros; split; [apply ammo_spec_length|split; [apply ammo_spec_tags|split; [apply ammo_spec_ids|apply ammo_spec_ids_nodup]]]|].
  split; [exact uri_entries_tags|]. split; [exact uripost_entries_tags|].
  split; [exact raw_entries_tags|exact read_array_tags].
Qed.
Print Assumptions C10_ammo_file_tags_ids.

(* Any number of concurrently shooting instances: whatever order the scheduler makes the
   instances acquire the delivered ammo in (any permutation es' of the deliveries es), the
   samples are - up to order and ids - those of the sequential run: tag and codes of a sample
   depend on its own ammo only; the ids stay pairwise distinct (counter values). *)
Theorem C10_ammo_concurrent_instances :
  forall (E : Type) cfg (tag_of path_of : E -> bytes) (x : E -> exchange) es es' i id i' id',
  Permutation es es' ->
  Permutation (map sm_fields (ammo_spec cfg tag_of path_of (fun _ => x) i id es))
              (map sm_fields (ammo_spec cfg tag_of path_of (fun _ => x) i' id' es')) /\
  NoDup (map sm_id (ammo_spec cfg tag_of path_of (fun _ => x) i' id' es')).
Proof. intros. split; [apply ammo_spec_any_order; assumption|apply ammo_spec_ids_nodup]. Qed.
Print Assumptions C10_ammo_concurrent_instances.

(* non-vacuity: an uripost file whose request has a three-word tag; auto-tag appended *)
Example C10_ammo_file_example :
  let url (u : bytes) : option (bytes * bytes) := Some (u, []) in
  let items := [ (PReq [47;111;47;99] [108;105;115;116;32;97;108;108;32;111] [97;98], {| l_lead := []; l_trail := []; l_cr := false |});
                 (PReq [47;120] [] [], {| l_lead := [32]; l_trail := []; l_cr := true |}) ] in
  let cfg := Build_autotag_cfg true 1 false in
  forallb (wf_pitem url) items = true /\
  shoot_deliveries cfg e_tag e_url (fun _ _ => XResp 202 BodyOk) 0 1 (uripost_decode url cfg0 3 (render_uripost items true)) =
  [ mkSample ([108;105;115;116;32;97;108;108;32;111] ++ 124 :: [47;111]) 202 0 1;
    mkSample [47;120] 202 0 2;
    mkSample ([108;105;115;116;32;97;108;108;32;111] ++ 124 :: [47;111]) 202 0 3 ].
Proof. split; vm_compute; reflexivity. Qed.

(* ---------------------------------------------------------------------------------------
   Round 6.  (a) The scenario FILE declares a request with a name and, optionally, a tag.
   --------------------------------------------------------------------------------------- *)

(* HTTP scenario gun over declared steps: one sample per executed step, in order, labelled
   <scenario>.<request NAME> (failing step: ...|__EMPTY__, proto 0, net 999) - the declared tag
   of the request has no influence whatever it is; nothing is written after the hand-over. *)
Theorem C10_scenario_step_name_http : forall name (steps : list (sdecl * hstep)),
  hscen_shoot_decl name steps = hscen_decl_spec name steps /\
  (forall f, hscen_shoot_decl name (retag f steps) = hscen_shoot_decl name steps) /\
  length (hscen_shoot_decl name steps) = length (executed (fun x => hstep_stops (snd x)) steps) /\
  (forall s, In s (hscen_shoot_decl name steps) ->
     exists d o, In (d, o) steps /\
       sm_tags s = match o with
                   | HStepOk _ => name ++ dot :: sd_name d
                   | HStepFail => name ++ dot :: sd_name d ++ 124 :: empty_tag
                   end) /\
  handoff_ok false (hscen_ev_decl name steps) = true /\
  at_report (hscen_ev_decl name steps) = hscen_decl_spec name steps /\
  at_end (hscen_ev_decl name steps) = hscen_decl_spec name steps.
Proof.
  intros name steps. split; [apply hscen_decl_shoot_spec|]. split; [intros f; apply hscen_decl_tag_ignored|].
  split; [apply hscen_decl_labels|]. split; [apply hscen_decl_labels|]. apply hscen_decl_ev.
Qed.
Print Assumptions C10_scenario_step_name_http.

(* gRPC scenario gun: labelled <scenario>.<call TAG>, whatever the call is named *)
Theorem C10_scenario_step_tag_grpc : forall name (steps : list (sdecl * gstep)),
  gscen_shoot_decl name steps = gscen_decl_spec name steps /\
  (forall f, gscen_shoot_decl name (rename f steps) = gscen_shoot_decl name steps) /\
  length (gscen_shoot_decl name steps) = length (executed (fun x => gstep_stops (snd x)) steps) /\
  (forall s, In s (gscen_shoot_decl name steps) ->
     exists d o, In (d, o) steps /\ sm_tags s = name ++ dot :: sd_tag d /\ sm_proto s = gstep_code o /\ sm_net s = 0) /\
  handoff_ok false (gscen_ev_decl name steps) = true /\
  at_report (gscen_ev_decl name steps) = gscen_decl_spec name steps /\
  at_end (gscen_ev_decl name steps) = gscen_decl_spec name steps.
Proof.
  intros name steps. split; [apply gscen_decl_shoot_spec|]. split; [intros f; apply gscen_decl_name_ignored|].
  split; [apply gscen_decl_labels|]. split; [apply gscen_decl_labels|]. apply gscen_decl_ev.
Qed.
Print Assumptions C10_scenario_step_tag_grpc.

(* From the scenario file to the samples: for every registry of declared requests (any names,
   any tags, duplicates: the last declaration of a name counts) and every list of steps
   ("name", "name(cnt)", "sleep(ms)"): when the provider accepts the list, the shot's samples are
   one per executed step of the steps the list MEANS (every named request as often as written,
   sleeps are no steps), labelled with the request names; a list that starts with a request
   fired at least once and names declared requests only is accepted. *)
Theorem C10_scenario_file_samples : forall name (reg : list (sdecl * hstep)) items,
  (forall samples, hscen_file_shoot name reg items = Some samples -> samples = hscen_file_spec name reg items) /\
  (forall tr, hscen_file_ev name reg items = Some tr ->
     handoff_ok false tr = true /\ at_report tr = hscen_file_spec name reg items /\ at_end tr = hscen_file_spec name reg items) /\
  (forall nm cnt r, items = SIReq nm (S cnt) :: r -> forallb (item_known reg) items = true ->
     hscen_file_shoot name reg items = Some (hscen_file_spec name reg items)).
Proof.
  intros name reg items. split; [intros; apply hscen_file_shoot_spec; assumption|].
  split; [intros; apply hscen_file_ev_spec; assumption|].
  intros nm cnt r -> Hk. unfold hscen_file_shoot. rewrite scen_steps_accepts by exact Hk.
  cbn [option_map]. f_equal. apply hscen_decl_shoot_spec.
Qed.
Print Assumptions C10_scenario_file_samples.

(* the same for a gRPC scenario file (`calls:` with name, tag, call): labelled with the call TAGS *)
Theorem C10_scenario_file_samples_grpc : forall name (reg : list (sdecl * gstep)) items,
  (forall samples, gscen_file_shoot name reg items = Some samples -> samples = gscen_file_spec name reg items) /\
  (forall tr, gscen_file_ev name reg items = Some tr ->
     handoff_ok false tr = true /\ at_report tr = gscen_file_spec name reg items /\ at_end tr = gscen_file_spec name reg items) /\
  (forall nm cnt r, items = SIReq nm (S cnt) :: r -> forallb (item_known reg) items = true ->
     gscen_file_shoot name reg items = Some (gscen_file_spec name reg items)).
Proof.
  intros name reg items. split; [intros; apply gscen_file_shoot_spec; assumption|].
  split; [intros; apply gscen_file_ev_spec; assumption|].
  intros nm cnt r -> Hk. unfold gscen_file_shoot. rewrite scen_steps_accepts by exact Hk.
  cbn [option_map]. f_equal. apply gscen_decl_shoot_spec.
Qed.
Print Assumptions C10_scenario_file_samples_grpc.

(* two requests sharing a tag stay two labels; "b(2)" is two steps; the sleep is none;
   the second declaration of "a" is the one meant *)
Example C10_scenario_file_example :
  let reg := [ (mkDecl [97] [116], HStepOk 500); (mkDecl [98] [116], HStepOk 201); (mkDecl [97] [120], HStepOk 200) ] in
  hscen_file_shoot [115] reg [SIReq [97] 1; SISleep; SIReq [98] 2] =
    Some [mkSample [115;46;97] 200 0 0; mkSample [115;46;98] 201 0 0; mkSample [115;46;98] 201 0 0] /\
  hscen_file_shoot [115] reg [SISleep; SIReq [97] 1] = None /\
  hscen_file_shoot [115] reg [SIReq [99] 1] = None.
Proof. vm_compute. repeat split. Qed.

(* ---------------------------------------------------------------------------------------
   Round 6.  (b) "Each fired request produces exactly one sample" - in the results file.
   The standard aggregator (phout) takes a reported sample through a bounded channel to its
   writer (Model/ReportQueue.v, shared with C04; Gen/PhoutReport_bridge.v: Report re-read from
   phout.go is the blocking send).  A run: any number of instances of any gun kinds shoot,
   their Reports and the writer's receives are interleaved in any order (a history of completed
   operations), the queue has any capacity, the writer may be as far behind as it likes.
   Then the lines written (after the final drain) are, up to order, exactly the samples the
   property asks for - one per fired request / executed step, with its tag and codes -, their
   number is the number of fired requests, and nothing is thrown away. *)
Theorem C10_one_line_per_request : forall cap (shots : list shot) (evs : list (qev sample)) lines,
  Permutation (sends evs) (flat_map shot_reports shots) ->
  run_lines qblocking cap evs = Some lines ->
  Permutation lines (flat_map shot_spec shots) /\
  length lines = list_sum (map shot_requests shots) /\
  run_lost qblocking cap evs = Some [].
Proof. exact run_one_line_per_request. Qed.
Print Assumptions C10_one_line_per_request.

(* ... and such histories exist for every list of reports and every capacity (no deadlock):
   the one in which the writer moves only when a reporter is stuck *)
Theorem C10_reports_always_complete : forall cap (reports : list sample),
  exists s', qrun qblocking cap qinit (lazy_history qblocking cap qinit reports) = Some s' /\
             sends (lazy_history qblocking cap qinit reports) = reports.
Proof.
  intros cap reports. destruct (lazy_history_runs cap reports qinit (Nat.le_0_l cap)) as [s' [H1 [H2 _]]].
  exists s'. split; assumption.
Qed.
Print Assumptions C10_reports_always_complete.

(* the statement is false of a Report that gives up when the channel is full *)
Theorem C10_dropping_report_refuted :
  let cfg := {| at_enabled := false; at_depth := 2; at_notagonly := true |} in
  let shots := [ShHttp cfg false 1 [97] [47] (XResp 200 BodyOk); ShHttp cfg false 2 [98] [47] (XResp 200 BodyOk)] in
  let evs := lazy_history qdropping 1 qinit (flat_map shot_reports shots) in
  sends evs = flat_map shot_reports shots /\
  run_lines qdropping 1 evs = Some [mkSample [97] 200 0 1] /\
  run_lost qdropping 1 evs = Some [mkSample [98] 200 0 2].
Proof. exact dropping_run_loses_a_request. Qed.
Print Assumptions C10_dropping_report_refuted.

(* non-vacuity: three instances (HTTP, HTTP scenario failing at its second step, gRPC), queue of
   one sample, the writer behind: four lines *)
Example C10_run_example :
  let cfg := {| at_enabled := false; at_depth := 2; at_notagonly := true |} in
  let shots := [ShHttp cfg false 1 [97] [47] (XResp 200 BodyOk);
                ShHScen [115] [(mkDecl [97] [116], HStepOk 200); (mkDecl [98] [], HStepFail); (mkDecl [99] [], HStepOk 200)];
                ShGrpc [103] (GCalled 0)] in
  let evs := lazy_history qblocking 1 qinit (flat_map shot_reports shots) in
  sends evs = flat_map shot_reports shots /\
  option_map (@length sample) (run_lines qblocking 1 evs) = Some 4%nat /\
  list_sum (map shot_requests shots) = 4%nat.
Proof. vm_compute. repeat split. Qed.

(* ---- round 7: the pool run through the engine (Model/ShootEngine.v) ---- *)

(* For every list [ooa] of cancel functions called in the "out of ammo" branch of awaitRun that does not contain
   runCancel (engine.go: [instanceStartCancel], Gen/AwaitRun_bridge.v), every ammo list, every startup schedule length
   and EVERY trace of a pool run (any number of instances started at any moments, any interleaving of acquiring,
   shooting, reporting, writing, schedules ending, the provider running dry, the await loop receiving results):
   what is written or queued is always exactly the samples of the shots that have ended, every fired shot has ended or
   is in flight, and the aggregator returns only when nothing is in flight, every instance has been awaited and no
   instance will be started - so the results then hold exactly one sample per fired request, each the one the property
   asks for. *)
Theorem C10_engine_one_sample_per_fired_request : forall ooa ammo tostart evs st,
  no_run_cancel ooa = true ->
  erun ooa (einit ammo tostart) evs = Some st ->
  a_lines (e_a st) ++ a_sink (e_a st) = flat_map shot_spec (w_reported (e_w st)) /\
  Permutation (w_fired (e_w st)) (w_reported (e_w st) ++ inflight (w_insts (e_w st))) /\
  (a_running (e_a st) = false ->
   inflight (w_insts (e_w st)) = [] /\
   Forall (fun s => s = IAwaited) (w_insts (e_w st)) /\ c_start_awaited (e_c st) = true /\
   a_lines (e_a st) = flat_map shot_spec (w_reported (e_w st)) /\
   Permutation (w_reported (e_w st)) (w_fired (e_w st)) /\
   length (a_lines (e_a st)) = fired_requests st).
Proof. exact engine_one_sample_per_fired_request. Qed.
Print Assumptions C10_engine_one_sample_per_fired_request.

(* once the aggregator has returned it stays so: the results above are final *)
Theorem C10_engine_results_final : forall ooa st evs2 st2,
  a_running (e_a st) = false -> erun ooa st evs2 = Some st2 -> a_running (e_a st2) = false.
Proof. exact engine_results_final. Qed.
Print Assumptions C10_engine_results_final.

(* the statement is false of an await loop that cancels the RUN (not only the instance start) when an instance
   comes back "out of ammo" while instances are still being started: one ammo, two instances, a slow target -
   the request is fired and its sample reported, the pool ends with everything awaited, the results are empty *)
Theorem C10_engine_cancel_run_at_out_of_ammo_refuted :
  exists st, erun [CcRun] (einit [lost_witness_shot] 5) lost_witness_trace = Some st /\
             eover st = true /\ Forall (fun s => s = IAwaited) (w_insts (e_w st)) /\
             fired_requests st = 1%nat /\ a_lines (e_a st) = [] /\
             erun engine_ooa (einit [lost_witness_shot] 5) lost_witness_trace = None.
Proof. exact engine_cancel_run_loses_requests. Qed.
Print Assumptions C10_engine_cancel_run_at_out_of_ammo_refuted.

(* non-vacuity: the slow-target trace of the harness (4 instances, 3 ammo) is a complete run with all three lines *)
Example C10_engine_example :
  let shots := [lost_witness_shot; ShGrpc [103] (GCalled 14); lost_witness_shot] in
  slow_run_lines engine_ooa shots = flat_map shot_spec shots /\ slow_run_over engine_ooa shots = true /\
  slow_run_lines [CcRun] shots = [] /\ slow_run_over [CcRun] shots = true.
Proof. exact engine_example_slow. Qed.

(* non-vacuity *)
Example C10_shoot_example :
  base_shoot (Build_autotag_cfg true 1 true) HNone false 7 [] [47;97;47;98] (XResp 503 (BodyErr false (EOp (ESys (EErrno 104)))))
  = [mkSample [47;97] 503 104 7] /\
  hscen_shoot [115] [([97], HStepOk 200); ([98], HStepFail); ([99], HStepOk 200)]
  = [mkSample [115;46;97] 200 0 0; mkSample ([115;46;98] ++ 124 :: empty_tag) 0 999 0].
Proof. split; vm_compute; reflexivity. Qed.

(* non-vacuity: a concrete error shape meeting the errno hypothesis *)
Example C10_netcode_example :
  get_errno false (EWrap (EUrl (EOp (ESys (EErrno 111))))) = 111 /\
  get_errno false (EUrl (EWrap (EErrno 111))) = 999 /\
  (* Underlying() is followed first, then Cause(); not the other way round *)
  get_errno false (EUnder (EUnder (EWrap (EOp (ESys (EErrno 104)))))) = 104 /\
  get_errno false (EWrap (EUnder (EErrno 104))) = 999.
Proof. repeat split; reflexivity. Qed.

(* ---------------------------------------------------------------------------------------
   Round 8.  The http/json (jsonline) file line by line, each line as the MEMBERS written in its
   JSON object (Model/ShootJsonLine.v): the optional members (tag, headers, body) may be absent,
   null, repeated, or stand beside members that name nothing.  Scan decodes every line into a
   fresh entity, so the ammo a line means depends on that line only.
   --------------------------------------------------------------------------------------- *)
From PV Require Import Model.ShootJsonLine Proofs.ShootJsonLineProofs Gen.JsonLineTargetGen Gen.JsonLineTarget_bridge.

(* every line list (any members, any order), every url oracle, auto-tag setting and number k of
   acquisitions: when the provider accepts the lines (entries es) shooting what it delivers yields
   one sample per line, cyclically, and the tag each sample is chosen from is the tag written on
   ITS OWN line - the empty one for a line that writes no tag member, whatever the lines before
   it say; such a sample is tagged by the auto-tag or __EMPTY__ (C10_tag_choice). *)
Theorem C10_jsonline_tag_of_own_line :
  forall cfg url_parse (path_of : entry -> bytes) (xof : nat -> entry -> exchange) (k : nat) (ls : list jline) es,
  read_array url_parse (lines_entities ls) = Some es -> es <> [] ->
  shoot_deliveries cfg e_tag path_of xof 0 1 (json_stream_decode url_parse cfg0 k (lines_entities ls) JEof) =
    ammo_spec cfg e_tag path_of xof 0 1 (cycle_take k es es) /\
  map e_tag es = map line_tag ls /\ length es = length ls /\
  (forall l, written_tag l = None -> j_tag (line_entity l) = []).
Proof.
  intros cfg url_parse path_of xof k ls es H Hne.
  destruct (json_lines_file_samples cfg url_parse path_of xof ls es k H Hne) as [A [B C]].
  split; [exact A|]. split; [exact B|]. split; [exact C|]. exact untagged_line_no_tag.
Qed.
Print Assumptions C10_jsonline_tag_of_own_line.

(* the array form of the file ([obj, obj, ...], decoded at construction by readArray and replayed by
   index): the same statement - each element means an ammo with the tag written in that element *)
Theorem C10_jsonline_array_tag_of_own_element :
  forall cfg url_parse (path_of : entry -> bytes) (xof : nat -> entry -> exchange) (k : nat) (ls : list jline) es,
  read_array url_parse (lines_entities ls) = Some es -> es <> [] ->
  exists ds, json_array_decode url_parse cfg0 k (lines_entities ls) = Some ds /\
    shoot_deliveries cfg e_tag path_of xof 0 1 ds = ammo_spec cfg e_tag path_of xof 0 1 (cycle_take k es es) /\
    map e_tag es = map line_tag ls.
Proof. intros. apply json_array_file_samples; assumption. Qed.
Print Assumptions C10_jsonline_array_tag_of_own_element.

(* One decode target for all lines (the allocation-saving variant): it is the same decoder exactly
   when the target is reset to the zero value before each line; with ANY reset that leaves the tag
   field alone the tags are the carried ones - a line that writes no tag inherits the tag of the
   lines before it - which is false of the specification for every non-empty tag t. *)
Theorem C10_jsonline_reused_target_refuted :
  (forall clear, (forall e, clear e = fresh_entity) ->
     forall ls cur, reuse_entities clear cur ls = lines_entities ls) /\
  (forall clear, (forall e, j_tag (clear e) = j_tag e) ->
     (forall ls cur, map j_tag (reuse_entities clear cur ls) = carried_tags (j_tag cur) ls) /\
     (forall t, t <> [] ->
        map j_tag (reuse_entities clear fresh_entity [[MTag t]; []]) <> map line_tag [[MTag t]; []])).
Proof.
  split; [exact reuse_reset_all|]. intros clear Hc.
  split; [exact (reuse_keeping_tag clear Hc)|]. intros t Ht. exact (reuse_keeping_tag_wrong clear t Hc Ht).
Qed.
Print Assumptions C10_jsonline_reused_target_refuted.

(* The decoder of the SOURCE: the way jsonline.go Scan holds its decode target is re-read on every run
   (translate jsontarget -> Gen/JsonLineTargetGen.v); with it every line list decodes to the entities of the
   model above, so the tags are the ones written on the lines themselves.  In general: any target that is
   zeroed before each line is that decoder; a reused target whose tag field is not reset carries tags over. *)
Theorem C10_jsonline_source_target :
  (forall ls, scan_entities gen_jsonline_target ls = lines_entities ls) /\
  (forall ls, map j_tag (scan_entities gen_jsonline_target ls) = map line_tag ls) /\
  (forall t, target_zeroed t = true -> forall ls, scan_entities t ls = lines_entities ls) /\
  (forall fs, resets fs FTag = false -> forall ls, map j_tag (scan_entities (TReused fs) ls) = carried_tags [] ls).
Proof.
  split; [exact c10_jsonline_scan_is_model|].
  split; [intros ls; rewrite c10_jsonline_scan_is_model; apply lines_entities_tags|].
  split; [exact scan_entities_zeroed|exact scan_entities_tag_kept].
Qed.
Print Assumptions C10_jsonline_source_target.

(* non-vacuity: three lines - tagged, without a tag member (an ignored "tags" member instead), tag
   written twice - shot with auto-tag for untagged ammo only *)
Example C10_jsonline_example :
  let url (u : bytes) : option (bytes * bytes) := Some (u, []) in
  let ls := [ [MHost [104]; MMethod [71;69;84]; MUri [47;97;47;98]; MTag [116;49]];
              [MIgnored [116;97;103;115]; MUri [47;99;47;100]; MMethod [71;69;84]; MHost [104]];
              [MTag [120]; MHost [104]; MMethod [71;69;84]; MUri [47;101]; MTag [121]] ] in
  let cfg := Build_autotag_cfg true 1 true in
  map line_tag ls = [[116;49]; []; [121]] /\
  map sm_tags (shoot_deliveries cfg e_tag (fun _ => [47;99;47;100]) (fun _ _ => XResp 200 BodyOk) 0 1
     (json_stream_decode url cfg0 4 (lines_entities ls) JEof)) = [[116;49]; [47;99]; [121]; [116;49]] /\
  map j_tag (reuse_entities (fun e => e) fresh_entity ls) = [[116;49]; [116;49]; [121]].
Proof. repeat split; vm_compute; reflexivity. Qed.
