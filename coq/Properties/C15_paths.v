(* Property C15, the sentence "[next] indexing into a data source hands out consecutive rows
   round-robin across all instances": WHICH counter a path expression uses.

   Model/MapPath.v models lib/mp GetMapValue for arbitrary path strings over arbitrary variable
   trees (split at dots, TrimSpace, name[idx] segments, calcIndex with integer / last / rand /
   next, the error and panic outcomes).  The key handed to Iterator.Next is the text of the path
   walked so far.  Statements only (closed by [exact]); proofs in Proofs/MapPathProofs.v. *)
From Coq Require Import List NArith ZArith Bool.
From PV Require Import Model.Iterator Model.Scenario Model.MapPath.
From PV Require Import Proofs.IteratorProofs Proofs.MapPathProofs.
Import ListNotations.

(* ANY path string, any tree, any iterator state.  An evaluation changes the iterator exactly as
   critical sections of Next on its ghost keys [ks] do (so C15_next_round_robin applies to
   histories of evaluations); every such key belongs to one of the path's own name[next]
   segments and is pfx ++ "." ++ text_0 ++ ... ++ "." ++ text_i: the trimmed texts of ALL
   segments walked so far; and two keys are equal exactly when those texts are equal, segment by
   segment — a list is never confused with a list that only has the same last name. *)
Theorem C15_next_key_is_path_text :
  (forall tree path pfx st r st' ks,
     get_map_value tree path pfx st = (r, st', ks) ->
     g_iter st' = snd (it_run (g_iter st) (tag ks)) /\
     Forall (fun k => exists i sg, nth_error (parse_path path) i = Some sg /\ next_seg sg /\
                                   k = pfx ++ enc (firstn (S i) (texts path))) ks) /\
  (forall pfx p q i j,
     pfx ++ enc (firstn i (texts p)) = pfx ++ enc (firstn j (texts q)) ->
     firstn i (texts p) = firstn j (texts q)).
Proof. split; [exact gmv_keys_general|exact key_text_inj]. Qed.
Print Assumptions C15_next_key_is_path_text.

(* Canonical paths (names separated by dots, a list addressed as name[digits] or name[next], at
   most one [next]): the printed path parses back to its segments, and two paths use the same
   counter exactly when they address the same list — same parents AND same list name. *)
Theorem C15_next_counter_per_list_address :
  (forall cp, cp <> [] -> forallb cseg_ok cp = true -> parse_path (print_cpath cp) = map pseg_of cp) /\
  (forall pfx cp1 cp2,
     forallb cseg_ok cp1 = true -> forallb cseg_ok cp2 = true -> next_loc cp1 <> [] -> next_loc cp2 <> [] ->
     seg_eqb (nkey pfx cp1) (nkey pfx cp2) = loc_eqb (next_loc cp1) (next_loc cp2)) /\
  (forall a b, loc_eqb a b = true <-> a = b).
Proof. split; [exact parse_print|]. split; [exact nkey_eqb|exact loc_eqb_eq]. Qed.
Print Assumptions C15_next_counter_per_list_address.

(* One evaluation of a canonical path in ANY iterator state holding c0 earlier evaluations per
   key (fewer than 2^63): the result is the specified one with k = the number of earlier
   evaluations of THIS list — element k mod len of the list, then the rest of the path —, the
   list's counter advances by one exactly when the list was reached (non-empty list at that
   address), no other counter and no random draw is touched. *)
Theorem C15_next_one_evaluation :
  forall cp t pfx st c0,
    cpath_ok cp = true -> repr (g_iter st) c0 -> (N.of_nat (c0 (nkey pfx cp)) < two63)%N ->
    exists st' ks,
      get_map_value t (print_cpath cp) pfx st = (fst (sgmv t cp (c0 (nkey pfx cp))), st', ks) /\
      g_draws st' = g_draws st /\
      repr (g_iter st') (if reaches t cp then bump c0 (nkey pfx cp) else c0).
Proof. exact gmv_canon_path. Qed.
Print Assumptions C15_next_one_evaluation.

(* ANY history (fewer than 2^63 evaluations) of canonical-path evaluations on a fresh iterator, on
   any trees (the tree may change from evaluation to evaluation: request variables), in any
   order (any interleaving of any number of instances: every evaluation is at most one critical
   section): the p-th evaluation returns the specified result with k = the number of EARLIER
   evaluations that reached the SAME list (same address) — evaluations of other lists, including
   lists with the same last name under other parents, do not count (second part: the count is
   the same in the sub-history of this list's own evaluations).  So every list hands out elements
   0, 1, 2, ... mod len to its own successive evaluations: consecutive, round-robin. *)
Theorem C15_next_per_list :
  (forall pfx h draws,
     Forall (fun e => cpath_ok (snd e) = true) h -> (N.of_nat (length h) < two63)%N ->
     run_paths pfx (to_paths h) {| g_iter := []; g_draws := draws |} = spec_paths [] h) /\
  (forall L done,
     count_loc L (filter (fun e => loc_eqb (next_loc (snd e)) L) done) = count_loc L done).
Proof. split; [exact paths_per_list|exact count_loc_own]. Qed.
Print Assumptions C15_next_per_list.

(* The counter segments of the scenario model (Model/Scenario.v: seg_next for csv tables,
   seg_vnext for list variables) ARE the keys this path model computes for the documented
   spellings source.<src>[next].<field> and source.<src>.<lst>[next] in iterator [own]; so the
   statements above apply to the preprocessor paths of C15_next_in_preprocessor. *)
Theorem C15_next_scenario_keys :
  forall own src field lst,
    seg_next own src = nkey [own] [CPlain ex_source; CNext src; CPlain field] /\
    seg_vnext own src lst = nkey [own] [CPlain ex_source; CPlain src; CNext lst].
Proof. exact scenario_keys. Qed.
Print Assumptions C15_next_scenario_keys.

(* Why the whole path must be the key (the model's key is not an idle detail): with the bare
   segment as the key — the parents forgotten — source.eu.users[next] and source.us.users[next]
   share one counter and the history eu, us, eu, us gets e0, u1, e2, u1 instead of e0, u0, e1, u1. *)
Theorem C15_next_bare_segment_key_refuted :
  Forall (fun e => cpath_ok (snd e) = true) ex_hist /\
  run_paths_bare [] (to_paths ex_hist) st_fresh <> spec_paths [] ex_hist /\
  run_paths_bare [] (to_paths ex_hist) st_fresh =
    [GvOk (VStr [101;48]%N); GvOk (VStr [117;49]%N); GvOk (VStr [101;50]%N); GvOk (VStr [117;49]%N)].
Proof. exact bare_key_refuted. Qed.
Print Assumptions C15_next_bare_segment_key_refuted.

(* non-vacuity: the same history with the code's key: e0, u0, e1, u1; the path strings are the
   documented spellings; a fifth evaluation of the eu list after the turn wraps to e0 *)
Example C15_next_per_list_example :
  map snd (to_paths ex_hist) =
    [ [115;111;117;114;99;101;46;101;117;46;117;115;101;114;115;91;110;101;120;116;93]%N;
      [115;111;117;114;99;101;46;117;115;46;117;115;101;114;115;91;110;101;120;116;93]%N;
      [115;111;117;114;99;101;46;101;117;46;117;115;101;114;115;91;110;101;120;116;93]%N;
      [115;111;117;114;99;101;46;117;115;46;117;115;101;114;115;91;110;101;120;116;93]%N ] /\
  run_paths [] (to_paths ex_hist) st_fresh =
    [GvOk (VStr [101;48]%N); GvOk (VStr [117;48]%N); GvOk (VStr [101;49]%N); GvOk (VStr [117;49]%N)] /\
  spec_paths [] ex_hist = run_paths [] (to_paths ex_hist) st_fresh /\
  nth 4 (run_paths [] (to_paths (ex_hist ++ [(ex_tree, ex_path ex_eu); (ex_tree, ex_path ex_eu)])) st_fresh) GvErr
    = GvOk (VStr [101;50]%N) /\
  nth 5 (run_paths [] (to_paths (ex_hist ++ [(ex_tree, ex_path ex_eu); (ex_tree, ex_path ex_eu)])) st_fresh) GvErr
    = GvOk (VStr [101;48]%N).
Proof. repeat split; vm_compute; reflexivity. Qed.
