(* Property C17 — config decoding: unknown keys rejected at every nesting level, defaults kept (incl.
   discard_overflow), values validated, ${env:}/${property:} placeholders.
   Statements only; proofs live in Proofs/ConfigDecodeProofs.v and Gen/ConfigSchema_bridge.v.
   The oracles (environment, property files, library parsers) and the registry are universally quantified;
   `notok r` = r is not `Ok _` (an error, for every amount of fuel). *)
From Coq Require Import List NArith ZArith Bool QArith.
From PV Require Import Model.ConfigDecode Proofs.ConfigDecodeProofs Proofs.ConfigFuelProofs Gen.ConfigSchemaGen Gen.ConfigSchema_bridge.
Import ListNotations.
Local Open Scope N_scope.

(* Unknown key. For every registry, schema, written tree v0 and path p: inserting a key k at p yields a tree v
   that the decoder rejects whenever k is not among the keys accepted at p (p may go through structs, squashed
   structs, slices, maps, nested plugins, the schedule-list shorthand).  lz = false: no position is decoded lazily
   (Registry.NewFactory after fix bfeb27f). *)
Theorem C17_unknown_key :
  forall env prop orc orcq reg p k y v0 v s cur acc,
    insert_key p k y v0 = Some v ->
    classify reg false false p s cur v = PStrict acc -> accepted_b k acc = false ->
    forall F c, notok (decode_and_validate env prop orc orcq reg false F s c v).
Proof. intros. apply dv_notok. eapply unknown_key_insert; eauto. Qed.
Print Assumptions C17_unknown_key.

(* The same on the schema regenerated from the source: cli.CliConfig on cli.DefaultConfig() with the registry
   filled by the CLI's imports, and the laziness the model has now (model_factory_lazy = false).  The side
   conditions are computed on the generated table: every component config is a struct (every plugin node is a
   strict node), nothing is outside the model, the shorthand hooks land on what the model assumes, the pool has
   the documented keys. *)
Theorem C17_builtin_unknown_key :
  (forall env prop orc orcq p k y v0 v acc,
    insert_key p k y v0 = Some v ->
    classify gen_registry model_factory_lazy false p gen_root_schema gen_root_default v = PStrict acc ->
    accepted_b k acc = false ->
    forall F c, notok (decode_and_validate env prop orc orcq gen_registry model_factory_lazy F gen_root_schema c v))
  /\ model_factory_lazy = false
  /\ (confs_are_structs gen_registry = true /\ is_struct_schema gen_root_schema = true)
  /\ (forallb (fun e => match e_conf e with Some (cs, _) => supported cs | None => true end) gen_registry = true
      /\ supported gen_root_schema = true)
  /\ (composite_ok gen_registry = true /\ file_sink_ok gen_registry = true)
  /\ entries_nodup gen_registry = true.
Proof.
  split; [intros; apply dv_notok; eapply unknown_key_insert; eauto|].
  split; [reflexivity|].
  split; [exact gen_confs_are_structs|]. split; [exact gen_all_supported|].
  split; [exact gen_shorthands_ok|exact gen_registry_nodup].
Qed.
Print Assumptions C17_builtin_unknown_key.

(* Defaults kept: decoding never zeroes.  A struct field whose key is not written (or written as null) keeps its
   current value; an option of a component that is not written keeps the REGISTERED default of that component
   (and the component's config passed its validate tags and the constraints its constructor enforces). *)
Theorem C17_defaults_kept :
  forall env prop orc orcq reg lz,
  (forall F nl fs cur kvs r,
     decode env prop orc orcq reg lz (S F) (SStruct nl fs) cur (VMap kvs) = Ok r ->
     exists rs, r = CStruct rs /\
       forall i f, nth_error (flat_fields (SStruct nl fs)) i = Some f -> unwritten F (f_key f) kvs ->
         nth_error rs i = Some (cur_at (struct_cur (SStruct nl fs) cur) i f))
  /\
  (forall F iface fk cur kvs r e nl fs d,
     decode env prop orc orcq reg lz (S F) (SPlugin iface fk) cur (VMap kvs) = Ok r ->
     plugin_entry reg iface kvs = Some e -> e_conf e = Some (SStruct nl fs, d) -> entry_lazy lz fk e = false ->
     exists name rs, r = CPlugin name false (CStruct rs) /\
       validate orc (CStruct rs) (SStruct nl fs) = true /\
       ctor_ok (SStruct nl fs) (CStruct rs) = true /\
       forall i f, nth_error (flat_fields (SStruct nl fs)) i = Some f ->
         unwritten F (f_key f) (filter (fun kv => negb (is_type_key kv)) kvs) ->
         nth_error rs i = Some (cur_at (struct_cur (SStruct nl fs) d) i f)).
Proof. intros. split; [apply defaults_kept_struct|apply defaults_kept_plugin]. Qed.
Print Assumptions C17_defaults_kept.

(* discard_overflow: cli.readConfig's pre-pass rewrites every pool of `pools`; a pool without the key gets
   discard_overflow = true, a pool that writes the key is untouched; the decoder's own default is false (computed on
   the generated pool schema), so the key is on exactly when absent or written true. *)
Theorem C17_discard_default :
  (forall kvs k l, find_exact s_pools kvs = Some (k, VList l) ->
     exists kvs', cli_prepass (VMap kvs) = VMap kvs' /\ find_exact s_pools kvs' = Some (k, VList (map prepass_pool l)))
  /\ (forall kvs, has_key s_discard kvs = false ->
        exists kvs', prepass_pool (VMap kvs) = VMap kvs' /\ find_exact s_discard kvs' = Some (s_discard, VBool true))
  /\ (forall kvs, has_key s_discard kvs = true -> prepass_pool (VMap kvs) = VMap kvs).
Proof. split; [exact cli_prepass_pools|split; [exact prepass_pool_absent|exact prepass_pool_present]]. Qed.
Print Assumptions C17_discard_default.

(* Wrongly typed value / value violating its validate tag, at any depth reached by the decoder. *)
Theorem C17_type_and_range :
  forall env prop orc orcq reg lz uq,
  (forall p s cur v s' tags d x,
     reach reg lz uq p [] s cur v = Some (s', tags, d, x) ->
     (wrong_type_b s' x = true \/ exists t, x = VStr t /\ wrong_type_str_b s' t = true) ->
     forall F c, notok (decode env prop orc orcq reg lz F s c v))
  /\
  (forall p s cur v iface fk tags d0 kvs e nl fs d i f k' x,
     reach reg lz uq p [] s cur v = Some (SPlugin iface fk, tags, d0, VMap kvs) ->
     plugin_entry reg iface kvs = Some e -> e_conf e = Some (SStruct nl fs, d) -> entry_lazy lz fk e = false ->
     nth_error (flat_fields (SStruct nl fs)) i = Some f ->
     find_key (f_key f) (filter (fun kv => negb (is_type_key kv)) kvs) = Some (k', x) ->
     (forall F' c', decode env prop orc orcq reg lz F' (f_schema f) (cur_at (struct_cur (SStruct nl fs) d) i f) x = Ok c' ->
                    check_field orc (f_schema f) c' (f_tags f) = false) ->
     forall F c, notok (decode env prop orc orcq reg lz F s c v))
  /\
  (forall F nl fs cur kvs i f k' x,
     nth_error (flat_fields (SStruct nl fs)) i = Some f ->
     find_key (f_key f) kvs = Some (k', x) ->
     (forall c', decode env prop orc orcq reg lz F (f_schema f) (cur_at (struct_cur (SStruct nl fs) cur) i f) x = Ok c' ->
                 check_field orc (f_schema f) c' (f_tags f) = false) ->
     notok (decode_and_validate env prop orc orcq reg lz (S F) (SStruct nl fs) cur (VMap kvs))).
Proof. intros. split; [apply wrong_type_at|split; [apply range_at|apply range_struct]]. Qed.
Print Assumptions C17_type_and_range.

(* Placeholders ${env:NAME}: in a scalar position of any kind (string, numeric, boolean, duration, size, text) the
   placeholder is decoded like the literal its text casts to, or like the text itself; an unset variable is an
   error wherever the decoder reaches it; text without "${" is unchanged. *)
Theorem C17_placeholders :
  forall env prop orc orcq reg lz uq,
  (forall name t k F c,
     simple_name name = true -> env name = Some t -> has_dollar_brace t = false ->
     decode env prop orc orcq reg lz (S F) (SScalar k) c (VStr (ph_env name)) =
     match cast_text orc orcq (SScalar k) t with
     | HVal (VStr _) => decode env prop orc orcq reg lz (S F) (SScalar k) c (VStr t)
     | HVal lit => decode env prop orc orcq reg lz (S F) (SScalar k) c lit
     | HErr e => Err e
     end)
  /\
  (forall p s cur v s' tags d name,
     reach reg lz uq p [] s cur v = Some (s', tags, d, VStr (ph_env name)) ->
     simple_name name = true -> env name = None ->
     forall F c, notok (decode env prop orc orcq reg lz F s c v))
  /\
  (forall target t, has_dollar_brace t = false -> inject env prop orc orcq target t = HVal (VStr t)).
Proof. intros. split; [apply placeholder_scalar|split; [apply placeholder_unset_at|apply no_placeholder_unchanged]]. Qed.
Print Assumptions C17_placeholders.

(* Error propagation, the lemma everything above rests on: a failing sub-problem fails the whole decode. *)
Theorem C17_error_propagation :
  forall env prop orc orcq reg lz uq p tags s cur v s' tags' cur' x,
    reach reg lz uq p tags s cur v = Some (s', tags', cur', x) ->
    (forall F c, notok (decode env prop orc orcq reg lz F s' c x)) ->
    forall F c, notok (decode env prop orc orcq reg lz F s c v).
Proof. exact propagate. Qed.
Print Assumptions C17_error_propagation.

(* The fuel of the model is enough: with fuel_for v = 3 * depth v + 3 the decoder never answers Fuel, for every schema,
   current value and oracle, over every registry whose component configs are structs and whose `nested` / `path` fields
   are not themselves a schedule / a sink (computed true on the generated registry).  Hence every `notok` above is an
   error `Err _` at the fuel the model runs with. *)
Theorem C17_fuel_bound :
  (forall env prop orc orcq reg lz, shorthand_safe reg = true ->
     forall v s c, decode env prop orc orcq reg lz (fuel_for v) s c v <> Fuel)
  /\ shorthand_safe gen_registry = true.
Proof. split; [intros; apply decode_never_out_of_fuel; assumption|exact gen_shorthand_safe]. Qed.
Print Assumptions C17_fuel_bound.

(* ---- non-vacuity on the generated schema: a concrete pool configuration *)
Definition ex_env (n : str) : option str := if str_eqb n [84] then Some [50] else None.       (* T=2 *)
Definition ex_prop (_ _ : str) : option str := None.
Definition ex_orc (k : okind) (s : str) : option Z :=
  match k with OEndpoint => Some 1%Z | OInt _ => if str_eqb s [50] then Some 2%Z else None | _ => None end.
Definition ex_orcq (s : str) : option Q := if str_eqb s [50] then Some (2 # 1)%Q else None.

Definition ex_key (s : str) := s.
Definition ex_plug (name : str) (kvs : list (str * value)) : value := VMap ((s_type, VStr name) :: kvs).
Definition ex_pool (rps : value) : value :=
  VMap [ ([97;109;109;111], ex_plug [100;117;109;109;121] []);                                   (* ammo: dummy *)
         ([114;101;115;117;108;116], ex_plug [100;105;115;99;97;114;100] []);                    (* result: discard *)
         ([103;117;110], ex_plug [104;116;116;112] [([116;97;114;103;101;116], VStr [104;58;49])]); (* gun: http, target "h:1" *)
         ([114;112;115], rps);
         ([115;116;97;114;116;117;112], ex_plug [111;110;99;101] [([116;105;109;101;115], VInt 1)]) ].
Definition ex_const (extra : list (str * value)) : value :=
  ex_plug [99;111;110;115;116] (([111;112;115], VInt 1) :: ([100;117;114;97;116;105;111;110], VInt 1000000000) :: extra).
Definition ex_cfg (rps : value) : value := VMap [(s_pools, VList [ex_pool rps])].
Definition ex_run (v : value) : res cval :=
  decode_and_validate ex_env ex_prop ex_orc ex_orcq gen_registry model_factory_lazy (fuel_for v) gen_root_schema gen_root_default v.
Definition is_ok (r : res cval) : bool := match r with Ok _ => true | _ => false end.
Definition is_err (r : res cval) : bool := match r with Err _ => true | _ => false end.

(* valid config accepted; {type: const, ops: 1, duration: 1s, from: 1} (DESIGN.md section 6, #23) rejected; ops below
   min rejected; a string for ops rejected; ops: ${env:T} accepted, ops: ${env:U} (unset) rejected *)
Example C17_example_pool :
  is_ok (ex_run (ex_cfg (ex_const []))) = true /\
  is_err (ex_run (ex_cfg (ex_const [([102;114;111;109], VInt 1)]))) = true /\
  classify gen_registry false false [SKey s_pools; SIdx 0; SKey [114;112;115]] gen_root_schema gen_root_default
     (ex_cfg (ex_const [([102;114;111;109], VInt 1)]))
   = PStrict [s_type; [79;112;115]; [68;117;114;97;116;105;111;110]] /\
  is_err (ex_run (ex_cfg (ex_plug [99;111;110;115;116] [([111;112;115], VInt (-1)); ([100;117;114;97;116;105;111;110], VInt 1000000000)]))) = true /\
  is_err (ex_run (ex_cfg (ex_plug [99;111;110;115;116] [([111;112;115], VStr [120]); ([100;117;114;97;116;105;111;110], VInt 1000000000)]))) = true /\
  is_ok (ex_run (ex_cfg (ex_plug [99;111;110;115;116] [([111;112;115], VStr (ph_env [84])); ([100;117;114;97;116;105;111;110], VInt 1000000000)]))) = true /\
  is_err (ex_run (ex_cfg (ex_plug [99;111;110;115;116] [([111;112;115], VStr (ph_env [85])); ([100;117;114;97;116;105;111;110], VInt 1000000000)]))) = true.
Proof. vm_compute. repeat split; reflexivity. Qed.

(* the CLI pre-pass end to end on the generated schema: pool 1 without the key -> true, pool 2 writes false -> false *)
Definition ex_two_pools : value :=
  VMap [(s_pools, VList [ex_pool (ex_const []);
                         match ex_pool (ex_const []) with VMap kvs => VMap (kvs ++ [(s_discard, VBool false)]) | x => x end])].
Definition ex_discards (r : res cval) : list cval :=
  match r with
  | Ok (CStruct (CSlice pools :: _)) => map (fun p => match p with CStruct fs => last fs CNil | _ => CNil end) pools
  | _ => []
  end.
Example C17_example_discard :
  ex_discards (ex_run (cli_prepass ex_two_pools)) = [CBool true; CBool false] /\
  ex_discards (ex_run ex_two_pools) = [CBool false; CBool false].
Proof. vm_compute. split; reflexivity. Qed.
