(* Property C17 — config decoding. Statements only; proofs live in Proofs/ and Gen/. *)
From Coq Require Import List NArith ZArith Bool QArith.
From PV Require Import Model.ConfigDecode Proofs.ConfigDecodeProofs Gen.ConfigSchemaGen Gen.ConfigSchema_bridge.
Import ListNotations.
Local Open Scope N_scope.

(* cli.readConfig's pre-pass: a pool without the key gets discard_overflow = true, a pool that writes the key is untouched. *)
Theorem C17_discard_prepass : forall kvs,
  (has_key s_discard kvs = false ->
     exists kvs', prepass_pool (VMap kvs) = VMap kvs' /\ find_exact s_discard kvs' = Some (s_discard, VBool true)) /\
  (has_key s_discard kvs = true -> prepass_pool (VMap kvs) = VMap kvs).
Proof. intro kvs. split; [apply prepass_pool_absent|apply prepass_pool_present]. Qed.
Print Assumptions C17_discard_prepass.
