(* Property C04, round 7 - "no request is fired before its scheduled time ... a request that is less than two
   seconds late is never discarded ... all instance counts": the instances of a pool (each with a Waiter of
   its own) take their FIRST tokens from one fresh self-starting leaf schedule at the same moment
   (`startup: once N`; the engine never calls Start).  Statements only; proofs in Proofs/WaiterLeafProofs.v
   (the leaf-level invariant is C02's, Proofs/SchedLeafConcProofs.v).  The leaf is the fine-grained
   Model/SchedLeafConc.v whose method bodies are re-read from core/schedule/do_at.go on every run
   (harness/cmd/trC02 -> Gen/SchedSyncGen.v; Gen/WaiterLeaf_bridge.v). *)
From Coq Require Import List ZArith Bool Arith.
From PV Require Import Model.SchedTree Model.SchedLeafConc Model.Waiter Model.WaiterLeaf.
From PV Require Import Proofs.SchedLeafConcProofs Proofs.WaiterProofs Proofs.WaiterLeafProofs Model.WaiterPool.
From Coq Require Import Permutation.
Import ListNotations.
Local Open Scope Z_scope.

(* Any number of callers with any programs of Next / Left on a fresh leaf (n tokens at doAt = a, duration d;
   the start field holding the zero time [zero]), every interleaving of their micro-steps, any non-decreasing
   clock readings from [lo] on.  Every token (t, true) any caller was ever handed is stamped  S + a i  for ONE
   reading S of the run's clock (lo <= S <= now) - never zero + a i - and so, for EVERY Waiter state, variant,
   entry instant, clock reading and timer wake-up (clock monotone, timers never early):
   * Wait returns no earlier than the token's configured time S + a i;
   * IsSlowDown after it means that S + a i is >= 2 s in the past when Wait returns
     (with discard_overflow: discarded only when >= 2 s late);
   * for a profile with non-negative offsets: IsSlowDown means that the run itself is >= 2 s old
     (what the `first` correspondence cases observe). *)
Theorem C04_first_tokens_configured : forall n d a zero lo plans g,
  Forall (Forall nl_op) plans ->
  lreach n d a doat_progs (linit zero lo plans) g ->
  forall j th t, nth_error (lg_threads g) j = Some th -> In (RNext t true) (lt_hist th) ->
  let S := l_start (lg_s g) in
  lo <= S <= lg_lo g /\
  exists i, (i < n)%nat /\ t = S + a i /\
    forall v st enter c st' o,
      c_tok c = Some t -> wf_call st enter c -> wait v st c = (st', o) -> w_ok o = true ->
      S + a i <= return_lower enter c o /\
      (is_slow_down st' = true -> max_overdue <= return_lower enter c o - (S + a i)) /\
      (0 <= a i -> is_slow_down st' = true -> max_overdue <= return_lower enter c o - lo).
Proof. exact first_tokens_configured. Qed.
Print Assumptions C04_first_tokens_configured.

(* The statement is about the synchronisation of the lazy start: of the leaf whose Next looks at the started
   flag before entering the Once (`if !s.IsStarted() { s.startOnce.Do(...) }`, MarkStarted before the store of
   the start time) it is FALSE.  const 1 rps, three callers: caller 2 skips the Once between caller 0's
   MarkStarted and its store of start = 105 ns and is handed token 1 stamped  year 1 + 1 s ; its fresh Waiter
   returns at 104 ns, a second before the configured 105 ns + 1 s (early shot); and it is judged slow although
   it is not late: with discard_overflow the token is reported 777/discarded. *)
Theorem C04_started_flag_fast_path_refuted :
  exists g th t,
    lreach 3 3000000000 ex1_a flagfirst_progs (linit ex1_zero 100 ex1_plans) g /\
    nth_error (lg_threads g) 2 = Some th /\ lt_hist th = [RNext t true] /\
    let S := l_start (lg_s g) in
    let f := first_wait wcurrent (RNext t true) 104 104 104 in
    S = 105 /\ t = ex1_zero + ex1_a 1 /\
    fs_fired f = true /\ fs_at f < S + ex1_a 1 /\
    fs_slow f = true /\ fs_at f - (S + ex1_a 1) < max_overdue /\
    decide true (fs_slow f) = Discard.
Proof. exact flagfirst_early_and_false_discard. Qed.
Print Assumptions C04_started_flag_fast_path_refuted.

(* ... and that interleaving does not exist on the tree as it is: a caller that finds another one inside the
   Once has no step *)
Theorem C04_once_blocks_second_caller :
  lrun 3 3000000000 ex1_a doat_progs ex1_sched (linit ex1_zero 100 ex1_plans) = None /\
  lrun 3 3000000000 ex1_a doat_progs (zsch [(0, 100); (0, 101); (1, 102)]) (linit ex1_zero 100 ex1_plans) = None.
Proof. exact doat_same_schedule_blocked. Qed.
Print Assumptions C04_once_blocks_second_caller.

(* the executable schedulers behind the predictions of the `first` cases only produce reachable states *)
Theorem C04_seq_callers_reachable : forall n d a P fuel nows k g0 g g',
  lreach n d a P g0 g -> seq_callers fuel n d a P k nows g = Some g' -> lreach n d a P g0 g'.
Proof. exact seq_callers_reach. Qed.
Print Assumptions C04_seq_callers_reachable.

(* Soundness of the attribution-free judgement of the `first` (and of a cancelled `comp`) run: only SOME tokens of
   the profile are fired in the observed instant (the other callers still sleep), the schedule really started at S,
   the harness counts the configured offsets from an instant t0 <= S (taken before the barrier opens).  If every
   fired request is at or after the time of the token it consumed - under ANY hand-out of tokens to callers - then
   never_ahead_b holds against t0 + offsets.  So a 0 bit means an early shot whatever the hand-out was. *)
Theorem C04_first_never_ahead_sound : forall t0 S offs fired rest ats,
  t0 <= S -> Permutation (fired ++ rest) (map (fun o => S + o) offs) -> Forall2 Z.le fired ats ->
  never_ahead_b (map (fun o => t0 + o) offs) ats = true.
Proof. exact part_never_ahead. Qed.
Print Assumptions C04_first_never_ahead_sound.

(* executable specification of the `first` cases *)
Theorem C04_spec_first : forall ahead slow,
  spec_first_b ahead slow = true <-> (forall x, In x ahead -> x = true) /\ (forall x, In x slow -> x = true).
Proof. exact spec_first_b_true_iff. Qed.
Print Assumptions C04_spec_first.

(* Non-vacuity: three callers at t0 = 100 ns on const 1 rps (hypotheses of C04_first_tokens_configured hold of
   the reached state): one fires at t0, the others sleep to +1 s / +2 s, nobody is judged slow. *)
Example C04_example_first_tokens :
  first_shots wcurrent doat_progs [0; 1000000000; 2000000000] 3000000000 ex1_zero 100 3 =
    Some [ {| fs_fired := true; fs_slow := false; fs_at := 100 |};
           {| fs_fired := true; fs_slow := false; fs_at := 1000000100 |};
           {| fs_fired := true; fs_slow := false; fs_at := 2000000100 |} ] /\
  exists g, seq_callers 16 3 3000000000 (offs_fn [0; 1000000000; 2000000000]) doat_progs 0 [100; 100; 100]
              (linit ex1_zero 100 ex1_plans) = Some g /\
            lreach 3 3000000000 (offs_fn [0; 1000000000; 2000000000]) doat_progs (linit ex1_zero 100 ex1_plans) g /\
            Forall (Forall nl_op) ex1_plans /\
            map lt_hist (lg_threads g) = [[RNext 100 true]; [RNext 1000000100 true]; [RNext 2000000100 true]].
Proof. exact first_shots_example. Qed.
