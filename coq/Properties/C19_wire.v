(* Property C19, second part: (1) what a response ANNOUNCES about its body versus what ARRIVES (Model/RobustWire.v:
   Content-Length / chunk sizes up to 2^63-1, Go's make as a partial operation: recoverable panic beyond maxAlloc,
   unrecoverable death beyond the machine's memory); (2) the mutex-guarded state every new connection goes through
   (Model/LockFlow.v; the skeletons of the real functions are re-read from the source by translate lockflow and
   checked in Gen/LockFlow_bridge.v).  Statements only; proofs in Proofs/RobustWireProofs.v, Proofs/LockFlowProofs.v. *)
From Coq Require Import List ZArith Bool.
From PV Require Import Model.Robust Model.RobustWire Model.LockFlow Proofs.RobustProofs Proofs.RobustWireProofs Proofs.LockFlowProofs.
Import ListNotations.
Local Open Scope Z_scope.

(* whatever is announced (any number net/http lets through), both ways of consuming the body ask the runtime for
   memory bounded by what really ARRIVED *)
Theorem C19_body_request_bounded_by_arrived : forall k w, wire_wf w ->
  0 < sink_request k w <= 2 * bw_arrives w + discard_buf.
Proof. exact sink_request_bound. Qed.
Print Assumptions C19_body_request_bounded_by_arrived.

(* so with memory for twice what arrives (and within Go's maxAlloc) reading the body never panics and never kills the
   process: it ends, successfully exactly when everything announced arrived / the unannounced stream ended properly *)
Theorem C19_body_read_safe : forall mem k w, wire_wf w ->
  2 * bw_arrives w + discard_buf <= mem -> mem <= max_alloc ->
  read_body mem k w = BodyRead (body_complete w).
Proof. exact read_body_safe. Qed.
Print Assumptions C19_body_read_safe.

(* two lies that both exceed what arrives are indistinguishable to the gun *)
Theorem C19_body_read_ignores_announced : forall mem k w n m, wire_wf w ->
  2 * bw_arrives w + discard_buf <= mem -> mem <= max_alloc ->
  bw_arrives w < n -> bw_arrives w < m ->
  read_body mem k {| bw_announced := Some n; bw_arrives := bw_arrives w; bw_clean_end := bw_clean_end w |} =
  read_body mem k {| bw_announced := Some m; bw_arrives := bw_arrives w; bw_clean_end := bw_clean_end w |}.
Proof. exact read_body_ignores_announced. Qed.
Print Assumptions C19_body_read_ignores_announced.

(* the guns over a wire are the guns of Model/Robust.v with rs_body_ok = "everything announced arrived": all of
   Properties/C19.v (one sample per shot / per executed step, the instance survives) carries over to wires *)
Theorem C19_step_wire_refines : forall mem s w, wire_wf w ->
  2 * bw_arrives w + discard_buf <= mem -> mem <= max_alloc ->
  shoot_step_wire mem s w = WStep (shoot_step (step_with_body s (body_complete w))).
Proof. exact shoot_step_wire_refines. Qed.
Print Assumptions C19_step_wire_refines.

Theorem C19_step_wire_safe : forall mem s w, pps_safe s -> wire_wf w ->
  2 * bw_arrives w + discard_buf <= mem -> mem <= max_alloc ->
  exists o, shoot_step_wire mem s w = WStep o /\ o <> StepPanic.
Proof. exact shoot_step_wire_safe. Qed.
Print Assumptions C19_step_wire_safe.

Theorem C19_gun_wire_refines : forall mem c inv r w, wire_wf w ->
  2 * bw_arrives w + discard_buf <= mem -> mem <= max_alloc ->
  base_shoot_wire mem c inv r w = WShot (base_shoot c inv (with_body_ok r (body_complete w))).
Proof. exact base_shoot_wire_refines. Qed.
Print Assumptions C19_gun_wire_refines.

(* the contrast (why the hypothesis-free statement is about the code's readers and not about any reader): sizing the
   buffer by the announced length panics beyond maxAlloc and kills the process beyond the machine's memory *)
Theorem C19_reader_sized_by_announcement_refuted :
  (forall mem w n, bw_announced w = Some n -> max_alloc < n -> read_body_announced mem w = BodyPanic) /\
  (forall mem w n, bw_announced w = Some n -> 0 <= mem -> mem < n -> n <= max_alloc -> read_body_announced mem w = BodyFatal).
Proof. split; [exact read_body_announced_panics|exact read_body_announced_dies]. Qed.
Print Assumptions C19_reader_sized_by_announcement_refuted.

(* non-vacuity: Content-Length 2^63-1, five bytes arrive, 1 GiB of memory: a failed read (one failed sample), where the
   announcement-sized reader panics; an honest 5-byte body is read *)
Example C19_example_wire :
  let lie := {| bw_announced := Some 9223372036854775807; bw_arrives := 5; bw_clean_end := false |} in
  let honest := {| bw_announced := Some 5; bw_arrives := 5; bw_clean_end := false |} in
  let ok := {| rs_conn := ConnOk; rs_status := 200; rs_body_ok := true; rs_h2 := false |} in
  let st := mk_step {| go_dump := false; go_trace := false; go_answlog := None; go_debug := false |} PreNone true true ok
                    [PPHeader [([], [97%N])]] in
  wire_wf lie /\
  read_body (2 ^ 30) SinkReadAll lie = BodyRead false /\ read_body_announced (2 ^ 30) lie = BodyPanic /\
  read_body (2 ^ 30) SinkReadAll honest = BodyRead true /\
  shoot_step_wire (2 ^ 30) st lie = WStep StepErr /\
  shoot_step_wire (2 ^ 30) st honest = WStep (StepOk {| sm_code := 200; sm_err := false |}).
Proof. vm_compute. repeat split; try reflexivity; try discriminate. intros n H; injection H as <-; discriminate. Qed.

(* ---------- mutex-guarded state on the dial path ---------- *)

(* the check evaluated on the translated functions covers every execution of the skeleton *)
Theorem C19_lock_check_sound : forall s p, lf_check s = true -> exec s p -> trace_ok HFree (lp_trace p) = true.
Proof. exact lf_check_sound. Qed.
Print Assumptions C19_lock_check_sound.

(* goroutines whose calls are all well bracketed, any number, any schedule: never "unlock of unlocked mutex", the mutex
   is free when all are finished, and while one is unfinished one can move; each move uses up an event *)
Theorem C19_lock_no_deadlock : forall ts sched, Forall (fun t => trace_ok HFree t = true) ts ->
  let st := sys_run sched (rw_free, ts) in
  some_fatal st = false /\
  (all_done st = true -> fst st = rw_free) /\
  (all_done st = false -> exists i st', sys_step i st = Some st' /\ S (total st') = total st).
Proof. exact lf_no_deadlock. Qed.
Print Assumptions C19_lock_no_deadlock.

(* non-vacuity and the contrast: a function with an early return between Lock and Unlock fails the check, and two
   goroutines calling it end up with the second one waiting for ever (nobody can move, not everybody is finished) *)
Example C19_example_lock :
  let good := LSeq (LEv EvLock) (LSeq (LIf LSkip LSkip) (LEv EvUnlock)) in
  let deferred := LSeq (LEv EvRLock) (LSeq (LDefer EvRUnlock) (LIf LReturn LSkip)) in
  let early := LSeq (LEv EvLock) (LSeq (LIf LReturn LSkip) (LEv EvUnlock)) in
  lf_check good = true /\ lf_check deferred = true /\ lf_check early = false /\
  let stuck := sys_run [0%nat; 1%nat; 0%nat; 1%nat] (rw_free, [[EvLock]; [EvLock; EvUnlock]]) in
  all_done stuck = false /\ sys_step 0 stuck = None /\ sys_step 1 stuck = None.
Proof. vm_compute. repeat split. Qed.
