(* Property C11, clauses "the ammo ... seen by one instance are never altered by another" and "no built-in
   provider ... touches shared state unsafely", for the http provider family (uri / uripost / raw / jsonline) with
   provider middlewares.  Statements only.  Model: Model/AmmoShare.v - decoded ammo that are delivered again and again
   (preload, jsonline array) share the VALUE SLICES of their header with every request built from them
   (util.EnrichRequestWithHeaders); Provider.Acquire, which runs the middlewares, is executed by the instances.
   The model is at the level of backing arrays, (pointer, len, cap) slices and Go's append; the specification
   (spec_request / spec_run) knows values only.  K = header keys, V = header values. *)
From Coq Require Import List Bool Arith.
From PV Require Import Model.AmmoShare Proofs.AmmoShareProofs.
Import ListNotations.

(* For every configuration whose shared slices are handed over WITHOUT spare capacity (p_clip) and whose middlewares
   only Add or Set headers, for every number of instances and every sequence of decodings / Acquires / Shoots, for
   every spare capacity the decoders or append leave anywhere else and every value the middlewares write:
   each Acquire yields exactly the request determined by the ammo file, the config and that Acquire's own middleware
   values, and what an instance finds in its request when it shoots is what it acquired - whatever the other
   instances acquired meanwhile, and the stored ammo stay as decoded (later Acquires still agree with the spec). *)
Theorem C11_share_isolated : forall (K V : Type) (keqb : K -> K -> bool),
  (forall a b, keqb a b = true <-> a = b) ->
  forall (c : pcfg K V) (ops : list (pop V)),
  p_clip K V c = true -> Forall (safe_mw K) (p_mws K V c) ->
  prun K V keqb c pinit ops = spec_run K V keqb c (fun _ => false) (fun _ => None) ops.
Proof. exact share_isolated. Qed.
Print Assumptions C11_share_isolated.

(* Needed 1: a shared slice handed over WITH spare capacity (a config header with 17 values copied by
   append([]string(nil), vv...) has capacity 18) lets Header.Add of one Acquire write into the array another
   instance's request reads: instance 0 acquired [7; 100] and shoots [7; 200]. *)
Theorem C11_share_unclipped_capacity_refuted :
  prun nat nat Nat.eqb (wit_cfg false (MwAdd 0) 1) pinit wit_ops
  = [None; Some [(0, [7; 100])]; Some [(0, [7; 200])]; Some [(0, [7; 200])]].
Proof. exact share_unclipped_capacity_refuted. Qed.
Print Assumptions C11_share_unclipped_capacity_refuted.

(* Needed 2: a middleware that refreshes an existing value in place (vs := h.Values(k); vs[0] = v) rewrites the stored
   ammo and every request built from it, clipped or not. *)
Theorem C11_share_refresh_in_place_refuted :
  prun nat nat Nat.eqb (wit_cfg true (MwRefresh 0) 0) pinit wit_ops
  = [None; Some [(0, [100])]; Some [(0, [200])]; Some [(0, [200])]].
Proof. exact share_refresh_in_place_refuted. Qed.
Print Assumptions C11_share_refresh_in_place_refuted.

(* Non-vacuity: the specification on the same operations - instance 0 shoots what it acquired. *)
Example C11_share_example :
  spec_run nat nat Nat.eqb (wit_cfg true (MwAdd 0) 1) (fun _ => false) (fun _ => None) wit_ops
  = [None; Some [(0, [7; 100])]; Some [(0, [7; 200])]; Some [(0, [7; 100])]]
  /\ p_clip nat nat (wit_cfg true (MwAdd 0) 1) = true /\ Forall (safe_mw nat) (p_mws nat nat (wit_cfg true (MwAdd 0) 1)).
Proof. split; [exact share_spec_example|]. split; [reflexivity|]. repeat constructor. Qed.
