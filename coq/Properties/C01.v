(* Property C01 — RPS schedules realise the configured load profile.
   Statements only; proofs live in Proofs/Sched*.v.
   Rates are arbitrary non-negative rationals (every float64 is one), durations are integers
   (ns) of at least 1 ms; nothing is bounded.  [cum p x] is the integral of the configured
   rate over the first x ns (Model/Sched.v, written from docs/eng/load-profile.md);
   [count], [at_], [dur] are the formulas of const.go/line.go/do_at.go in exact arithmetic. *)
From Coq Require Import String ZArith QArith Qround List Bool.
From PV Require Import Model.Sched Model.SchedExpr Proofs.SchedArith Proofs.SchedQ Proofs.SchedProofs Proofs.SchedStep Gen.SchedGen Gen.Sched_bridge.
From Coq Require Import Reals.
From PV Require Import Proofs.SchedReal Proofs.SchedSpecB.
Import ListNotations.
Local Open Scope Z_scope.

(* The profile contains as many operations as the integral over its whole duration, rounded down. *)
Theorem C01_count : forall p, valid p -> is_rate p = true ->
  count p = Qfloor (cum p (dur p)).
Proof. exact count_spec. Qed.
Print Assumptions C01_count.

(* Operation k is scheduled in the nanosecond [x, x+1) in which the integral reaches k:
   cum x <= k < cum (x+1); the instant exists (no NaN), lies in [0, D) ... *)
Theorem C01_at_bracket : forall p k, valid p -> is_rate p = true -> 0 <= k < count p ->
  exists x, at_ p k = Some x /\ 0 <= x /\ x + 1 <= dur p /\
            (cum p x <= qz k)%Q /\ (qz k < cum p (x + 1))%Q.
Proof. exact at_bracket. Qed.
Print Assumptions C01_at_bracket.

(* ... and is the only such nanosecond, hence the earliest: the integral is strictly increasing
   on [0, D] whenever the profile has an operation at all. *)
Theorem C01_at_earliest : forall p,
  valid p -> is_rate p = true ->
  (forall x y, 0 < count p -> 0 <= x -> x < y -> y <= dur p -> (cum p x < cum p y)%Q) /\
  (forall k x, 0 <= k < count p -> 0 <= x -> x + 1 <= dur p ->
     (cum p x <= qz k)%Q -> (qz k < cum p (x + 1))%Q -> at_ p k = Some x).
Proof.
  intros p Hv Hr. split.
  - intros x y. apply cum_strict; assumption.
  - intros k x. apply at_unique; assumption.
Qed.
Print Assumptions C01_at_earliest.

(* No operation before the start or after start+duration; instants never go back; a
   decreasing line never takes the square root of a negative number. *)
Theorem C01_range : forall p, valid p -> is_rate p = true ->
  (forall k, 0 <= k < count p -> exists x, at_ p k = Some x /\ 0 <= x <= dur p) /\
  (forall k k' x x', 0 <= k -> k <= k' -> k' < count p ->
     at_ p k = Some x -> at_ p k' = Some x' -> x <= x') /\
  (forall f t D k, p = PLine f t D -> ~ (f == t)%Q -> 0 <= k < line_n f t D ->
     0 <= line_radicand f t D k).
Proof.
  intros p Hv Hr. split; [|split].
  - intros k. apply at_range; assumption.
  - intros k k' x x'. apply at_mono; assumption.
  - intros f t D k -> E Hk. destruct Hv as (Hf & Ht & HD). apply line_radicand_nonneg; assumption.
Qed.
Print Assumptions C01_range.

(* Next hands out exactly the instants at_ 0 .. at_ (count-1) with ok = true, and from then on
   reports exactly start + duration with ok = false (Left = 0). *)
Theorem C01_finish : forall p, is_rate p = true ->
  (forall i, 0 <= i < count p -> leaf_next (the_leaf p) i = (at_ p i, true)) /\
  (forall i, count p <= i -> leaf_next (the_leaf p) i = (Some (dur p), false) /\ leaf_left (the_leaf p) i = 0) /\
  dur p = match p with PConst _ D | PLine _ _ D => D | _ => 0 end.
Proof.
  intros p Hr. split; [|split].
  - intros i. apply next_token.
  - intros i. apply finish_spec. exact Hr.
  - apply dur_rate. exact Hr.
Qed.
Print Assumptions C01_finish.

(* A step profile is the succession of one const profile per rate level: the loop of NewStep
   yields (never running out of fuel) the levels from, from+st, ... while <= to; the drained
   composite is, level after level, the tokens of const(level_j, D) shifted by j*D; it finishes
   at levels*D; Left() is the sum of the levels' counts; every level is a valid const profile,
   so C01_count / C01_at_bracket / C01_range apply to each of them. *)
Theorem C01_step : forall f t st D, valid (PStep f t st D) ->
  let lv := spec_levels f t st in
  (exists d, drain (PStep f t st D) = Some d /\
     d_tokens d = flat_map (level_tokens D 0) (combine (seq 0 (length lv)) lv) /\
     d_finish d = Z.of_nat (length lv) * D /\
     d_left d = fold_right Z.add 0 (map (fun r => count (PConst r D)) lv) /\
     Forall (fun r => valid (PConst r D)) lv) /\
  (forall j r, nth_error lv j = Some r -> r = level f st j /\ (r <= t)%Q) /\
  ((f <= t)%Q -> ~ (level f st (length lv) <= t)%Q) /\
  (~ (f <= t)%Q -> lv = []).
Proof.
  intros f t st D Hv. split; [apply step_drain; exact Hv|].
  apply spec_levels_shape. destruct Hv as (_ & _ & Hst & _). exact Hst.
Qed.
Print Assumptions C01_step.

(* A once profile releases all its operations at its start instant and finishes there. *)
Theorem C01_once : forall n, valid (POnce n) ->
  drain (POnce n) = Some {| d_left := n; d_tokens := repeat (Some 0) (Z.to_nat n); d_finish := 0 |}.
Proof. exact once_drain. Qed.
Print Assumptions C01_once.

(* The formulas of the model are the formulas the source states now: the expressions re-read
   from NewConst/constDoAt/NewLine (Gen/SchedGen.v) evaluate, for every rate, duration and
   index, to const_n / const_at / line_a / line_n of Model/Sched.v; lineDoAt is the expression
   m_line_at whose real-number reading Proofs/SchedReal.v relates to line_at. *)
Theorem C01_source_formulas :
  (forall sq ops D, ~ (qz D == 0)%Q ->
     evalQ sq (env_of [("ops"%string, ops); ("duration"%string, qz D)]) gen_const_n = qz (const_n ops D)) /\
  (forall sq ops k, ~ (ops == 0)%Q ->
     evalQ sq (env_of [("ops"%string, ops); ("i"%string, qz k)]) gen_const_at = qz (const_at ops k)) /\
  (forall sq f t D, ~ (qz D == 0)%Q ->
     (evalQ sq (env_of [("from"%string, f); ("to"%string, t); ("duration"%string, qz D)]) (nth 0 gen_line_doat_args (Lit 0)) == line_a f t D)%Q) /\
  (forall sq f t D, ~ (qz D == 0)%Q -> ~ (t - f == 0)%Q ->
     evalQ sq (env_of [("from"%string, f); ("to"%string, t); ("duration"%string, qz D)]) gen_line_n = qz (line_n f t D)) /\
  (forall sq env, (forall x y, (x == y)%Q -> (sq x == sq y)%Q) -> ~ (env "a"%string == 0)%Q ->
     evalQ sq env gen_line_at = evalQ sq env m_line_at).
Proof.
  split; [exact bridge_const_n|]. split; [exact bridge_const_at|]. split; [exact bridge_line_a|].
  split; [exact bridge_line_n|exact bridge_line_at].
Qed.
Print Assumptions C01_source_formulas.

(* Meaning of the executable specification the correspondence run evaluates on the tokens of the
   implementation (Model/Sched.v spec_b): with zero tolerance it accepts an observation of a
   const / line profile iff it is the stream of the theorems above (Left = count, finish =
   duration, count tokens, token k at at_ p k). *)
Theorem C01_spec_b_meaning : forall p, valid p -> is_rate p = true ->
  (forall left xs fin, spec_b p 0 0 left xs fin = true ->
     left = count p /\ fin = dur p /\ Z.of_nat (length xs) = count p /\
     forall j x, nth_error xs j = Some x -> at_ p (Z.of_nat j) = Some x) /\
  spec_b p 0 0 (count p) (model_tokens p) (dur p) = true.
Proof.
  intros p Hv Hr. split; [intros left xs fin; apply spec_b_sound; assumption|apply spec_b_complete; assumption].
Qed.
Print Assumptions C01_spec_b_meaning.

(* Real-number side (Coq Reals): the closed form lineDoAt evaluates inverts the integral of
   the line rate, and the integer formula of the model (Z.sqrt + floor division) is exactly
   the truncation of that real-number expression with the slope and intercept NewLine passes. *)
Theorem C01_closed_form :
  (forall a b i : R, a <> 0%R -> (0 <= 2 * a * i + b * b)%R ->
     let x := ((sqrt (2 * a * i + b * b) - b) / a)%R in (a * x * x / 2 + b * x = i)%R) /\
  (forall (f t : Q) (D k x : Z),
     valid (PLine f t D) -> ~ (f == t)%Q -> 0 <= k -> line_at f t D k = Some x ->
     let X := line_at_R (slopeR (rn_from f t) (rn_to f t) (rn_den f t) D)
                        (interceptR (rn_from f t) (rn_den f t)) (IZR k) in
     (IZR x <= X < IZR x + 1)%R).
Proof. split; [exact closed_form_inverts|exact line_at_is_trunc]. Qed.
Print Assumptions C01_closed_form.

(* non-vacuity: the profile of the defect report (0 -> 10 rps over 1.5 s) is valid, has 7
   operations, the last at 1 341 640 786 ns *)
Example C01_example_line :
  valid (PLine 0 (10 # 1) 1500000000) /\ count (PLine 0 (10 # 1) 1500000000) = 7 /\
  at_ (PLine 0 (10 # 1) 1500000000) 6 = Some 1341640786.
Proof. split; [repeat split; easy|split; vm_compute; reflexivity]. Qed.

Example C01_example_decreasing :
  count (PLine (10 # 1) 0 500000000) = 2 /\ at_ (PLine (10 # 1) 0 500000000) 1 = Some 112701665.
Proof. split; vm_compute; reflexivity. Qed.

Example C01_example_step :
  valid (PStep (1 # 1) (5 # 1) 2 1500000000) /\
  spec_levels (1 # 1) (5 # 1) 2 = [1 + qz (0 * 2); 1 + qz (1 * 2); 1 + qz (2 * 2)]%Q /\
  option_map d_tokens (drain (PStep (1 # 1) (2 # 1) 1 1500000000)) =
    Some [Some 0; Some 1500000000; Some 2000000000; Some 2500000000].
Proof. split; [repeat split; easy|split; vm_compute; reflexivity]. Qed.
