(* Property C05 -- placeholder while the pipeline is brought up; theorems follow. *)
From Coq Require Import List Arith Bool.
From PV Require Import Model.Pool.
Import ListNotations.

Example C05_healthy_run :
  option_map (fun g => option_map er_res (eng g))
    (grun fixed [1] (ginit [1])
       [GvPool 0 (PvPre PreOk); GvPool 0 (PvMsg (StartRes 1 ENil) ChSend); GvPool 0 (PvMsg (RunRes 0 ENil) ChSend);
        GvPool 0 (PvMsg (ProvRes ENil) ChSend); GvPool 0 (PvMsg (AggrRes ECtx) ChSend); GvPool 0 PvFrontClosed; GvEngRecv 0])
  = Some (Some RNil).
Proof. vm_compute. reflexivity. Qed.
