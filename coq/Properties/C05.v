(* Property C05 -- run outcome and termination at every finish, failure and cancel point.
   Statements only; proofs live in Proofs/PoolProofs.v.  The model (Model/Pool.v) follows
   core/engine/engine.go; [fixed] is the tree after the two fix commits, [orig] the tree
   before them.  Every theorem quantifies over the number of pools, the number of instances
   of each pool ([cfg]) and over EVERY history [tr]: every fault plan (which results carry
   which error), every position of the caller's cancel, every order in which the result
   channels become ready and every choice of the select in onErrAwaited.

   reachable cfg g  :=  exists tr, grun fixed cfg (ginit cfg) tr = Some g. *)
From Coq Require Import List Arith Bool.
From PV Require Import Model.Pool Proofs.PoolProofs Model.PoolLaunch Proofs.PoolLaunchProofs
  Model.GrpcJsonStart Proofs.GrpcJsonStartProofs Model.GrpcWarmUp Proofs.GrpcWarmUpProofs
  Model.EncAggrRun Proofs.EncAggrRunProofs Model.PlugFactory Proofs.PlugFactoryProofs
  Model.ScanDecode Proofs.ScanDecodeProofs Model.JsonDecode Proofs.JsonDecodeProofs.
Import ListNotations.

(* the correspondence run and the theorems are about the same variant of the code *)
Theorem C05_model_is_current_tree : current = fixed.
Proof. reflexivity. Qed.
Print Assumptions C05_model_is_current_tree.

(* ---- C05_terminates ------------------------------------------------------------------ *)

(* Executions are finite: no history has more than 2 + sum (instances_i + 9) steps. *)
Theorem C05_terminates_bounded : forall v cfg tr g,
  grun v cfg (ginit cfg) tr = Some g -> length tr <= 2 + cfg_bound cfg.
Proof. exact run_bounded. Qed.
Print Assumptions C05_terminates_bounded.

(* No deadlock: while something is left to run, a step other than the caller's cancel is
   possible (provided outstanding components deliver their result -- the liveness hypothesis
   on provider, aggregator, start loop and instances). *)
Theorem C05_terminates_no_deadlock : forall cfg g,
  reachable cfg g -> terminal g = false ->
  exists e, e <> GvCancel /\ gstep fixed cfg g e <> None.
Proof. exact progress. Qed.
Print Assumptions C05_terminates_no_deadlock.

(* The await loop can always take any outstanding result, whatever error it carries: the
   select in onErrAwaited always has an arm that fires (so the loop never blocks for ever). *)
Theorem C05_terminates_await_receptive : forall n parent s m,
  ph s = PhAwait -> msg_allowed n parent s m = true -> pending (aw s) m = true ->
  exists ch, pstep fixed n parent s (PvMsg m ch) <> None.
Proof. exact await_receptive. Qed.
Print Assumptions C05_terminates_await_receptive.

(* When nothing is left to run: Engine.Run has returned, Engine.Wait() returns (onWaitDone
   was called exactly once per pool), and in every pool that got past warm-up the await loop
   received its four kinds of result -- provider, aggregator, start, and one result of every
   started instance --, runCancel() was called, nothing panicked. *)
Theorem C05_terminates : forall cfg g,
  reachable cfg g -> terminal g = true ->
  eng g <> None /\ wait_returns g = true /\
  forall p s n, nth_error (pools g) p = Some s -> nth_error cfg p = Some n -> pool_final n s.
Proof. exact terminal_final. Qed.
Print Assumptions C05_terminates.

(* onWaitDone is never called twice (a second Done would panic the WaitGroup). *)
Theorem C05_wait_done_at_most_once : forall cfg g s, reachable cfg g -> In s (pools g) -> wait_done s <= 1.
Proof. exact wait_done_at_most_once. Qed.
Print Assumptions C05_wait_done_at_most_once.

(* "closable guns are closed": the full statement (created = closed) is false of the model
   of the current tree -- the warm-up gun and guns whose Bind failed are never closed -- ... *)
Theorem C05_guns_closed_refuted :
  exists g, grun fixed [1] (ginit [1])
     [GvPool 0 (PvPre PreOk); GvPool 0 (PvMsg (StartRes 1 ENil) ChSend); GvPool 0 (PvMsg (RunRes 0 ENil) ChSend);
      GvPool 0 (PvMsg (ProvRes ENil) ChSend); GvPool 0 (PvMsg (AggrRes ENil) ChSend); GvPool 0 PvFrontClosed; GvEngRecv 0] = Some g /\
    terminal g = true /\ total_created g = 2 /\ total_closed g = 1.
Proof. exact guns_closed_refuted. Qed.
Print Assumptions C05_guns_closed_refuted.

(* ... what holds: every created gun is closed except those never handed to an instance.
   Partial: the guard "owned by a started instance" excludes exactly the known finding. *)
Theorem C05_guns_closed_partial : forall cfg g,
  reachable cfg g -> total_created g = total_closed g + total_unbound g.
Proof. exact guns_closed_partial. Qed.
Print Assumptions C05_guns_closed_partial.

(* ---- C05_success_iff ----------------------------------------------------------------- *)

(* er_fails / er_cancelled of the return record are the failures that had occurred and
   whether the caller had cancelled at the moment Engine.Run returned. *)
Theorem C05_return_record_is_snapshot : forall v cfg g e g' er,
  gstep v cfg g e = Some g' -> eng g = None -> eng g' = Some er ->
  er_cancelled er = cancelled g /\ er_fails er = all_fails g.
Proof. exact eret_snapshot. Qed.
Print Assumptions C05_return_record_is_snapshot.

(* Without a cancel by the caller: Run returns nil iff no component had failed. *)
Theorem C05_success_iff : forall cfg g er,
  reachable cfg g -> eng g = Some er -> er_cancelled er = false ->
  (er_res er = RNil <-> er_fails er = []).
Proof. exact outcome_success_iff. Qed.
Print Assumptions C05_success_iff.

(* Run returns nil only at the natural end: every pool got past warm-up, awaited provider,
   aggregator, start and all its instances, and its own Run returned nil; a failure can be
   among the awaited results only if the caller had cancelled before Run returned. *)
Theorem C05_success_only_at_natural_end : forall cfg g er,
  reachable cfg g -> eng g = Some er -> er_res er = RNil ->
  (forall p s n, nth_error (pools g) p = Some s -> nth_error cfg p = Some n ->
     front s = Some RNil /\ ph s = PhDone /\ awaited (aw s) = n /\ prov_pending (aw s) = false /\
     aggr_pending (aw s) = false /\ start_pending (aw s) = false) /\
  (er_fails er = [] \/ er_cancelled er = true).
Proof. exact outcome_nil_complete. Qed.
Print Assumptions C05_success_only_at_natural_end.

(* ---- C05_error_carried --------------------------------------------------------------- *)

(* If some component had failed and the caller had not cancelled, Run returns an error whose
   cause is one of the failures that occurred. *)
Theorem C05_error_carried : forall cfg g er,
  reachable cfg g -> eng g = Some er -> er_fails er <> [] -> er_cancelled er = false ->
  exists p c, er_res er = RFail c /\ In (p, c) (er_fails er).
Proof. exact outcome_error_carried. Qed.
Print Assumptions C05_error_carried.

(* Two-sided: a failure returned by Run did occur, and is not returned after a cancel. *)
Theorem C05_error_returned_occurred : forall cfg g er c,
  reachable cfg g -> eng g = Some er -> er_res er = RFail c ->
  er_cancelled er = false /\ exists p, In (p, c) (er_fails er).
Proof. exact outcome_fail_sound. Qed.
Print Assumptions C05_error_returned_occurred.

(* ---- C05_cancel_prompt --------------------------------------------------------------- *)

(* After the caller's cancel Engine.Run can return ctx.Err() at once, without any component. *)
Theorem C05_cancel_prompt_engine : forall v cfg g,
  cancelled g = true -> eng g = None ->
  exists g', gstep v cfg g GvEngCtx = Some g' /\ option_map er_res (eng g') = Some RCtx.
Proof. exact cancel_engine_enabled. Qed.
Print Assumptions C05_cancel_prompt_engine.

(* ... and so can every instancePool.Run that reached its select. *)
Theorem C05_cancel_prompt_pool : forall v n s,
  front s = None -> (ph s = PhAwait \/ ph s = PhDone) ->
  exists s', pstep v n true s PvFrontCtx = Some s' /\ front s' = Some RCtx.
Proof. exact cancel_front_enabled. Qed.
Print Assumptions C05_cancel_prompt_pool.

(* What Run returns once the caller has cancelled: the cancellation error -- or nil, but only
   when every pool had already returned nil (the natural end raced with the cancel). *)
Theorem C05_cancel_result : forall cfg g er,
  reachable cfg g -> eng g = Some er -> er_cancelled er = true ->
  er_res er = RCtx \/ (er_res er = RNil /\ forall s, In s (pools g) -> front s = Some RNil).
Proof. exact outcome_after_cancel. Qed.
Print Assumptions C05_cancel_result.

(* The cancellation error is returned only if the caller cancelled. *)
Theorem C05_ctx_error_means_cancel : forall cfg g er,
  reachable cfg g -> eng g = Some er -> er_res er = RCtx -> er_cancelled er = true /\ cancelled g = true.
Proof. exact outcome_ctx_means_cancel. Qed.
Print Assumptions C05_ctx_error_means_cancel.

(* The executable specification used on the implementation's observations holds of the model. *)
Theorem C05_spec_sound : forall cfg g er,
  reachable cfg g -> eng g = Some er ->
  spec_outcome_b (er_fails er) (er_cancelled er) (forallb front_is_nil (pools g)) (er_res er) = true.
Proof. exact spec_outcome_holds. Qed.
Print Assumptions C05_spec_sound.

(* ---- C05_stopped_at_wait: "all started instances, providers and aggregators stop ... and
   waiting for the engine's background tasks returns" ------------------------------------- *)

(* At ANY moment of a run (not only at its end): a pool that has released the engine's
   WaitGroup (onWaitDone) has nothing outstanding -- the results of its provider, its
   aggregator, its start loop and of all n instances of this run have been received, or the
   pool never launched anything. *)
Theorem C05_wait_done_only_when_stopped : forall cfg g p s n,
  reachable cfg g -> nth_error (pools g) p = Some s -> nth_error cfg p = Some n ->
  wait_done s = 1 -> outstanding n s = 0.
Proof. exact wait_done_means_stopped. Qed.
Print Assumptions C05_wait_done_only_when_stopped.

(* ... and it releases the WaitGroup as soon as the last outstanding result has been received *)
Theorem C05_wait_done_as_soon_as_stopped : forall cfg g p s n,
  reachable cfg g -> nth_error (pools g) p = Some s -> nth_error cfg p = Some n ->
  launched s = true -> outstanding n s = 0 -> wait_done s = 1.
Proof. exact stopped_means_wait_done. Qed.
Print Assumptions C05_wait_done_as_soon_as_stopped.

(* Whenever Engine.Wait() can return, nothing any pool launched is outstanding. *)
Theorem C05_wait_returns_only_when_all_stopped : forall cfg g,
  reachable cfg g -> wait_returns g = true -> total_outstanding cfg (pools g) = 0.
Proof. exact wait_returns_means_stopped. Qed.
Print Assumptions C05_wait_returns_only_when_all_stopped.

(* The function the correspondence run evaluates on the recorded history (what is outstanding
   at the first moment Engine.Wait can return) is 0 on every history. *)
Theorem C05_stopped_at_wait_on_every_history : forall cfg tr k,
  outstanding_at_wait fixed cfg (ginit cfg) tr = Some k -> k = 0.
Proof. exact outstanding_at_wait_zero. Qed.
Print Assumptions C05_stopped_at_wait_on_every_history.

(* runAsync opened up (Model/PoolLaunch.v; its statement order is re-read from the source,
   Gen/RunAsync_bridge.v).  For ANY statement order: the early error return of runAsync -- after
   which instancePool.Run releases the WaitGroup at once -- leaves nothing running iff nothing is
   launched before the schedule is built; what it leaves is exactly what was launched before. *)
Theorem C05_run_async_early_return_clean_iff : forall prog,
  In RaBuildSchedule prog ->
  (fst (ra_exec prog false []) = [] <-> launches_before_build prog = []).
Proof. exact ra_fail_clean_iff. Qed.
Print Assumptions C05_run_async_early_return_clean_iff.

Theorem C05_run_async_early_return_leaves : forall prog l,
  In RaBuildSchedule prog -> ra_exec prog false l = (rev (launches_before_build prog) ++ l, false).
Proof. exact ra_exec_fail. Qed.
Print Assumptions C05_run_async_early_return_leaves.

(* runAsync of the tree: a failing schedule factory -> nothing launched; success -> provider,
   aggregator and start loop launched once each *)
Theorem C05_run_async_fail_launches_nothing : ra_exec run_async_prog false [] = ([], false).
Proof. exact run_async_fail_launches_nothing. Qed.
Print Assumptions C05_run_async_fail_launches_nothing.

Theorem C05_run_async_ok_launches_each_once :
  snd (ra_exec run_async_prog true []) = true /\
  forall pr, count_pr pr (fst (ra_exec run_async_prog true [])) = 1.
Proof. exact run_async_ok_launches_each_once. Qed.
Print Assumptions C05_run_async_ok_launches_each_once.

(* the one-step treatment of warmUpGun + runAsync in Model/Pool.v agrees with the opened-up
   runAsync: a pool counts as launched exactly when runAsync launched something, and it then
   made one Provider.Run and one Aggregator.Run call; no other step launches anything *)
Theorem C05_pre_step_is_run_async : forall v n parent s o s',
  pstep v n parent s (PvPre o) = Some s' ->
  launched s = false /\
  launched s' = negb (is_nil (pre_launched run_async_prog o)) /\
  comp_runs s' = count_pr PrProv (pre_launched run_async_prog o) + count_pr PrAggr (pre_launched run_async_prog o).
Proof. exact pre_step_launched. Qed.
Print Assumptions C05_pre_step_is_run_async.

Theorem C05_only_run_async_launches : forall v n parent s e s',
  pstep v n parent s e = Some s' -> (forall o, e <> PvPre o) -> launched s' = launched s.
Proof. exact pstep_launched_stable. Qed.
Print Assumptions C05_only_run_async_launches.

(* what the statement excludes: a runAsync that launches provider and aggregator before it
   builds the schedule (same launches on success) returns its error with both running *)
Theorem C05_launch_before_schedule_refuted :
  ra_exec launch_first_prog false [] = ([PrAggr; PrProv], false) /\
  launches launch_first_prog = launches run_async_prog.
Proof. exact launch_first_leaves_running. Qed.
Print Assumptions C05_launch_before_schedule_refuted.

(* ---- C05_provider_reports: "if the ammo provider ... fails, the run returns an error" needs
   the provider to report its failure; the read loop of the grpc/json provider
   (Model/GrpcJsonStart.v = grpcjson.(Provider).start) for every file, limit, pass count ------ *)

(* Run to its end without being cancelled, start returns a failure exactly when the
   specification says this configuration has to report one: an undecodable line among the
   lines it wants (unless ContinueOnError), a scanner error (read failure, over-long line) it
   runs into, or an empty file -- whatever the number of passes, whichever pass is the last. *)
Theorem C05_grpcjson_failure_iff_spec : forall cf f fuel,
  1 <= fuel -> jres_is_failure (fst (gj_start fuel cf f None)) = gj_spec_fails cf f.
Proof. exact gj_failure_iff_spec. Qed.
Print Assumptions C05_grpcjson_failure_iff_spec.

(* a scanner error is never swallowed: not on the last allowed pass, not when a limit is set
   that the file cannot satisfy *)
Theorem C05_grpcjson_scan_error_never_swallowed : forall cf f fuel,
  1 <= fuel -> jend f = TErr -> (j_limit cf = 0 \/ length (jlines f) <= j_limit cf) ->
  jres_is_failure (fst (gj_start fuel cf f None)) = true.
Proof. exact gj_scan_error_never_swallowed. Qed.
Print Assumptions C05_grpcjson_scan_error_never_swallowed.

Theorem C05_grpcjson_decode_error_never_swallowed : forall cf f fuel,
  1 <= fuel -> j_coe cf = false -> existsb is_bad (gj_wanted cf f) = true ->
  jres_is_failure (fst (gj_start fuel cf f None)) = true.
Proof. exact gj_decode_error_never_swallowed. Qed.
Print Assumptions C05_grpcjson_decode_error_never_swallowed.

(* nil from an uncancelled run means there was nothing to report *)
Theorem C05_grpcjson_nil_means_no_failure : forall cf f fuel d,
  1 <= fuel -> gj_start fuel cf f None = (JNil, d) -> gj_spec_fails cf f = false.
Proof. exact gj_nil_means_no_failure. Qed.
Print Assumptions C05_grpcjson_nil_means_no_failure.

(* ... and that the pool really ran out of ammo: the run delivered Passes times the file, cut at Limit *)
Theorem C05_grpcjson_nil_means_all_delivered : forall cf f fuel d,
  gj_start fuel cf f None = (JNil, d) -> d = gj_spec_delivered cf f.
Proof. exact gj_nil_delivered. Qed.
Print Assumptions C05_grpcjson_nil_means_all_delivered.

(* the pass budget the correspondence run gives the model is enough (no OutOfFuel outcome) *)
Theorem C05_grpcjson_fuel_enough : forall cf f,
  (j_passes cf <> 0 \/ j_limit cf <> 0) -> fst (gj_start (gj_fuel cf) cf f None) <> JOutOfFuel.
Proof. exact gj_fuel_enough. Qed.
Print Assumptions C05_grpcjson_fuel_enough.

(* the files of the correspondence run: k good lines, then a failing read / an over-long line *)
Theorem C05_grpcjson_read_failure_reported : forall cf k m fuel,
  1 <= fuel -> (j_limit cf = 0 \/ k <= j_limit cf) ->
  jres_is_failure (fst (gj_start fuel cf (gj_file k m PoRead) None)) = true.
Proof. exact gj_file_read_failure_reported. Qed.
Print Assumptions C05_grpcjson_read_failure_reported.

(* ---- gun warm-up: the grpc gun against the target's reflection endpoint (Model/GrpcWarmUp.v) ---- *)

(* For EVERY endpoint (connection, list of services, any number of listed services each answered
   with descriptors or refused with any status code) and every shared-client configuration:
   WarmUp returns an error iff the specification says a warm-up cannot succeed against it. *)
Theorem C05_grpc_warmup_failure_iff_spec : forall rf cp,
  wres_failed (warm_up tree_policy rf cp) = gw_spec_fails rf.
Proof. exact warm_up_failure_iff_spec. Qed.
Print Assumptions C05_grpc_warmup_failure_iff_spec.

(* ... and the error it returns carries the FIRST thing that went wrong (two-sided) *)
Theorem C05_grpc_warmup_cause_carried : forall rf cp c,
  warm_up tree_policy rf cp = WFail c <-> gw_spec_cause rf = Some c.
Proof. exact warm_up_cause_is_spec_cause. Qed.
Print Assumptions C05_grpc_warmup_cause_carried.

(* a listed service whose descriptors are refused with anything but NOT_FOUND is never swallowed:
   the warm-up fails, naming the first such service of the list *)
Theorem C05_grpc_warmup_refusal_never_swallowed : forall rf cp s c,
  rf_connect rf = true -> rf_list rf = None ->
  In (s, RsErr c) (rf_services rf) -> refusal_is_failure c = true ->
  exists s' c' pre post, warm_up tree_policy rf cp = WFail (WcResolve s' c') /\ refusal_is_failure c' = true /\
    rf_services rf = pre ++ (s', RsErr c') :: post /\ existsb svc_refused pre = false.
Proof. exact warm_up_refusal_never_swallowed. Qed.
Print Assumptions C05_grpc_warmup_refusal_never_swallowed.

(* nil means: connected, the list was served, every listed service was resolved or is not there,
   and the method table holds exactly the methods of the resolved services, each once *)
Theorem C05_grpc_warmup_nil_means_complete : forall rf cp t n,
  warm_up tree_policy rf cp = WOk (t, n) ->
  rf_connect rf = true /\ rf_list rf = None /\
  (forall s r, In (s, r) (rf_services rf) -> (exists ms, r = RsOk ms) \/ r = RsErr code_not_found) /\
  (forall k, In k t <-> In k (gw_spec_methods rf)) /\ NoDup t.
Proof. exact warm_up_nil_complete. Qed.
Print Assumptions C05_grpc_warmup_nil_means_complete.

(* the error paths of prepareClientPool are dead: the dial that would fail there failed for the
   reflection connection first (any policy) *)
Theorem C05_grpc_warmup_pool_causes_unreachable : forall pol rf cp,
  warm_up pol rf cp <> WFail WcPoolNew /\ warm_up pol rf cp <> WFail WcPoolConnect.
Proof. exact warm_up_never_pool_cause. Qed.
Print Assumptions C05_grpc_warmup_pool_causes_unreachable.

(* For ANY treatment of the two classes of ResolveService errors: no failing warm-up is swallowed iff
   the errors that are not NOT_FOUND are returned; every acceptable endpoint is accepted iff the
   NOT_FOUND ones are skipped.  The tree's treatment is re-read from the source (Gen/GrpcWarmUp_bridge.v). *)
Theorem C05_grpc_warmup_policy_never_swallows_iff : forall pol,
  (forall rf cp, gw_spec_fails rf = true -> wres_failed (warm_up pol rf cp) = true) <-> on_other pol = RaFail.
Proof. exact policy_never_swallows_iff. Qed.
Print Assumptions C05_grpc_warmup_policy_never_swallows_iff.

Theorem C05_grpc_warmup_policy_tolerates_not_found_iff : forall pol,
  (forall rf cp, gw_spec_fails rf = false -> wres_failed (warm_up pol rf cp) = false) <-> on_not_found pol = RaSkip.
Proof. exact policy_tolerates_not_found_iff. Qed.
Print Assumptions C05_grpc_warmup_policy_tolerates_not_found_iff.

(* "log and skip whatever the error": a service refused with PERMISSION_DENIED is swallowed *)
Theorem C05_grpc_warmup_skip_all_refuted :
  gw_spec_fails (one_service 7) = true /\
  warm_up skip_all_policy (one_service 7) {| cp_enabled := false; cp_number := 0 |} = WOk ([], 0).
Proof. exact skip_all_swallows. Qed.
Print Assumptions C05_grpc_warmup_skip_all_refuted.

(* The engine: in EVERY history (any pools, any interleaving, cancelled or not) in which the pool step
   of some pool is the warm-up of a grpc gun against an endpoint the specification says it cannot
   succeed against, Engine.Run does not return nil. *)
Theorem C05_grpc_warmup_failure_fails_the_run : forall cfg tr g er p rf cp,
  grun fixed cfg (ginit cfg) tr = Some g -> eng g = Some er ->
  In (GvPool p (PvPre (gw_pre_outcome (warm_up tree_policy rf cp)))) tr ->
  gw_spec_fails rf = true ->
  er_res er <> RNil.
Proof. exact failed_warm_up_never_a_successful_run. Qed.
Print Assumptions C05_grpc_warmup_failure_fails_the_run.

(* ---- the tree before the fix commits --------------------------------------------------- *)

(* #4 (fixed by a0becc0): schedule factory error with a shared profile: Wait() never returns *)
Theorem C05_orig_terminates_refuted :
  exists g, grun orig [1] (ginit [1]) refute4_trace = Some g /\ terminal g = true /\ wait_returns g = false.
Proof. exact orig_wait_hangs. Qed.
Print Assumptions C05_orig_terminates_refuted.

(* #5 (fixed by c19eb6a): provider error awaited after runCancel dropped, Run returns nil *)
Theorem C05_orig_error_carried_refuted :
  exists g er, grun orig [1] (ginit [1]) refute5_trace = Some g /\ eng g = Some er /\
    er_res er = RNil /\ er_cancelled er = false /\ er_fails er = [(0, CProv)].
Proof. exact orig_error_dropped. Qed.
Print Assumptions C05_orig_error_carried_refuted.

Theorem C05_fixed_excludes_the_dropping_history : grun fixed [1] (ginit [1]) refute5_trace = None.
Proof. exact fixed_rejects_refute5. Qed.
Print Assumptions C05_fixed_excludes_the_dropping_history.

(* ---- non-vacuity ----------------------------------------------------------------------- *)

(* a reachable terminal state of two pools in which a failure occurred and was carried *)
Example C05_example_failure_carried :
  exists g er, grun fixed [1; 0] (ginit [1; 0])
    [GvPool 0 (PvPre PreOk); GvPool 1 (PvPre PreOk);
     GvPool 0 (PvMsg (StartRes 1 ENil) ChSend); GvPool 0 (PvMsg (RunRes 0 (EFail CShootPanic)) ChSend);
     GvEngRecv 0;
     GvPool 1 PvFrontCtx; GvPool 1 (PvMsg (StartRes 0 ECtx) ChSend);
     GvPool 0 (PvMsg (ProvRes ECtx) ChSend); GvPool 0 (PvMsg (AggrRes (EFail CAggr)) ChSuppress);
     GvPool 1 (PvMsg (ProvRes ENil) ChSend); GvPool 1 (PvMsg (AggrRes ENil) ChSend)] = Some g /\
    terminal g = true /\ wait_returns g = true /\ eng g = Some er /\
    er_res er = RFail CShootPanic /\ er_cancelled er = false /\ er_fails er = [(0, CShootPanic)].
Proof. eexists. eexists. split; [vm_compute; reflexivity|]. repeat split. Qed.

(* a cancelled run: Run returns the cancellation error although a provider failed afterwards *)
Example C05_example_cancel :
  exists g er, grun fixed [1] (ginit [1])
    [GvPool 0 (PvPre PreOk); GvPool 0 (PvMsg (StartRes 1 ENil) ChSend); GvCancel; GvEngCtx;
     GvPool 0 (PvMsg (ProvRes (EFail CProv)) ChSuppress); GvPool 0 PvFrontCtx;
     GvPool 0 (PvMsg (RunRes 0 ECtx) ChSend); GvPool 0 (PvMsg (AggrRes ECtx) ChSend)] = Some g /\
    terminal g = true /\ wait_returns g = true /\ eng g = Some er /\ er_res er = RCtx /\ er_cancelled er = true.
Proof. eexists. eexists. split; [vm_compute; reflexivity|]. repeat split. Qed.

(* the hypotheses of C05_terminates_await_receptive are satisfiable with a failing message *)
Example C05_example_receptive :
  exists s, pstep fixed 1 false pstate_init (PvPre PreOk) = Some s /\ ph s = PhAwait /\
    msg_allowed 1 false s (ProvRes (EFail CProv)) = true /\ pending (aw s) (ProvRes (EFail CProv)) = true.
Proof. eexists. split; [reflexivity|]. repeat split. Qed.

(* a run in which Engine.Wait can return only after the last result: before the aggregator's
   result two pools' worth of bookkeeping shows one outstanding, at the end none *)
Example C05_example_stopped_at_wait :
  let tr := [GvPool 0 (PvPre PreOk); GvPool 0 (PvMsg (StartRes 1 ENil) ChSend); GvPool 0 (PvMsg (RunRes 0 ENil) ChSend);
             GvPool 0 (PvMsg (ProvRes ENil) ChSend)] in
  (exists g s, grun fixed [1] (ginit [1]) tr = Some g /\ nth_error (pools g) 0 = Some s /\
     launched s = true /\ wait_done s = 0 /\ outstanding 1 s = 1 /\ wait_returns g = false) /\
  outstanding_at_wait fixed [1] (ginit [1]) (tr ++ [GvPool 0 (PvMsg (AggrRes ENil) ChSend)]) = Some 0 /\
  outstanding_at_wait fixed [1] (ginit [1]) [GvPool 0 (PvPre PreSchedFail)] = Some 0.
Proof. split; [eexists; eexists; split; [vm_compute; reflexivity|repeat split]|split; reflexivity]. Qed.

(* the grpc/json read loop: two good lines then a read failure, one pass (the last one) --
   reported, two ammo delivered; the same file behind a limit of 1 is never read that far *)
Example C05_example_grpcjson :
  gj_start 1 {| j_limit := 0; j_passes := 1; j_coe := false |} (gj_file 2 2 PoRead) None = (JFailScan, 2) /\
  gj_spec_fails {| j_limit := 0; j_passes := 1; j_coe := false |} (gj_file 2 2 PoRead) = true /\
  gj_start 1 {| j_limit := 1; j_passes := 1; j_coe := false |} (gj_file 2 2 PoRead) None = (JNil, 1) /\
  gj_start 3 {| j_limit := 0; j_passes := 3; j_coe := false |} (gj_file 2 1 PoNone) None = (JNil, 9).
Proof. repeat split. Qed.

(* the grpc gun's warm-up: a service refused with PERMISSION_DENIED between two served ones fails the
   warm-up with that service as the cause; refused with NOT_FOUND it is skipped and the table holds the
   methods of the other two; and a run whose pool step is the failing warm-up returns that failure *)
Example C05_example_grpc_warmup :
  let rf c := {| rf_connect := true; rf_list := None; rf_services := gw_services [gw_methods 2; RsErr c; gw_methods 1] |} in
  let cp := {| cp_enabled := true; cp_number := 0 |} in
  warm_up tree_policy (rf 7) cp = WFail (WcResolve 1 7) /\ gw_spec_fails (rf 7) = true /\
  warm_up tree_policy (rf 5) cp = WOk ([(0, 0); (0, 1); (2, 0)], 1) /\ gw_spec_fails (rf 5) = false /\
  (exists g er, grun fixed [1] (ginit [1]) [GvPool 0 (PvPre (gw_pre_outcome (warm_up tree_policy (rf 7) cp))); GvEngRecv 0] = Some g /\
     eng g = Some er /\ er_res er = RFail CWarmUp /\ wait_returns g = true).
Proof. repeat split. eexists. eexists. split; [vm_compute; reflexivity|repeat split]. Qed.

(* ---- the aggregator as a component: the run loop of the encoder aggregator (Model/EncAggrRun.v) ---- *)

(* For every run of the aggregator (whatever the select takes in whatever order, every outcome of every Encode /
   Flush / Close): Run returns an error iff something it did to its encoder or sink went wrong. *)
Theorem C05_enc_aggr_failure_iff_spec : forall e,
  negb (match ea_run tree_epolicy e with [] => true | _ => false end) = ea_spec_fails e.
Proof. exact ea_run_failure_iff_spec. Qed.
Print Assumptions C05_enc_aggr_failure_iff_spec.

Theorem C05_enc_aggr_nil_iff_nothing_failed : forall e, ea_run tree_epolicy e = [] <-> ea_spec_fails e = false.
Proof. exact ea_run_tree_nil_iff. Qed.
Print Assumptions C05_enc_aggr_nil_iff_nothing_failed.

(* the error carries the FIRST thing that went wrong, and nothing that did not go wrong *)
Theorem C05_enc_aggr_first_cause_carried : forall e, hd_error (ea_run tree_epolicy e) = ea_spec_first e.
Proof. exact ea_run_first_cause. Qed.
Print Assumptions C05_enc_aggr_first_cause_carried.

Theorem C05_enc_aggr_no_invented_failure : forall e c, In c (ea_run tree_epolicy e) -> ea_occurs e c = true.
Proof. exact ea_run_sound. Qed.
Print Assumptions C05_enc_aggr_no_invented_failure.

(* a failing periodic (flush-interval) flush in the middle of the run is what Run reports, whatever is queued or
   happens afterwards (later flushes, the final flush and the close of the sink may all succeed) *)
Theorem C05_enc_aggr_periodic_flush_failure_reported : forall e pre post,
  ea_open e = true -> ea_events e = pre ++ EvTick false false :: post -> forallb ev_ok pre = true ->
  hd_error (ea_run tree_epolicy e) = Some EcFlush.
Proof. exact ea_periodic_flush_failure_reported. Qed.
Print Assumptions C05_enc_aggr_periodic_flush_failure_reported.

(* for ANY treatment of the two error branches of the handle loop (return / break HandleLoop / go on): nothing is
   swallowed iff both return.  The tree's treatment is re-read from the source (Gen/EncAggr_bridge.v). *)
Theorem C05_enc_aggr_policy_never_swallows_iff : forall pol,
  (forall e, ea_spec_fails e = true -> ea_run pol e <> []) <-> (ep_sample pol = EaReturn /\ ep_tick pol = EaReturn).
Proof. exact ea_policy_never_swallows_iff. Qed.
Print Assumptions C05_enc_aggr_policy_never_swallows_iff.

(* "break HandleLoop on a flush error, to handle the queued samples": the drain loop's `return nil` drops the error *)
Theorem C05_enc_aggr_break_on_flush_error_refuted :
  ea_spec_fails ea_flush_witness = true /\ ea_spec_first ea_flush_witness = Some EcFlush /\
  ea_run break_on_flush_policy ea_flush_witness = [] /\ ea_run tree_epolicy ea_flush_witness = [EcFlush].
Proof. exact ea_break_on_flush_error_swallows. Qed.
Print Assumptions C05_enc_aggr_break_on_flush_error_refuted.

(* the engine: once the await loop has taken the result of an aggregator run in which something went wrong, the
   aggregator failure is among the failures of that pool -- from there C05_error_carried / C05_success_iff apply *)
Theorem C05_enc_aggr_failure_is_recorded : forall v cfg g g' p e ch,
  gstep v cfg g (GvPool p (PvMsg (AggrRes (ea_engine_err (ea_run tree_epolicy e))) ch)) = Some g' ->
  ea_spec_fails e = true -> In (p, CAggr) (all_fails g').
Proof. exact failing_aggregator_is_a_recorded_failure. Qed.
Print Assumptions C05_enc_aggr_failure_is_recorded.

(* ---- gun / schedule creation: the factory the plugin registry builds from a registered constructor
        (Model/PlugFactory.v) ---- *)

(* For every shape of registered constructor (implementation or interface result, with or without an error result,
   already of the factory's type or not), both factory types and every outcome of the config fill and of the
   constructor: a call of the factory gives exactly what the specification asks for -- the creation error as the
   factory's error (as a panic carrying it when the factory type has no error result), the object otherwise. *)
Theorem C05_plugin_factory_is_spec : forall numOut direct conf out,
  valid_call numOut direct out ->
  factory_call tree_cvprog numOut direct conf out = factory_spec numOut (eff_conf direct conf) out.
Proof. exact factory_call_is_spec. Qed.
Print Assumptions C05_plugin_factory_is_spec.

Theorem C05_plugin_factory_creation_error_never_swallowed : forall numOut direct conf out e,
  valid_call numOut direct out -> creation_error (eff_conf direct conf) out = Some e ->
  factory_call tree_cvprog numOut direct conf out = if numOut =? 2 then FrErr e else FrPanic e.
Proof. exact creation_error_never_swallowed. Qed.
Print Assumptions C05_plugin_factory_creation_error_never_swallowed.

Theorem C05_plugin_factory_ok_means_created : forall numOut direct conf out n,
  valid_call numOut direct out -> factory_call tree_cvprog numOut direct conf out = FrOk n ->
  creation_error (eff_conf direct conf) out = None /\ n = ctor_objnil out.
Proof. exact factory_ok_means_created. Qed.
Print Assumptions C05_plugin_factory_ok_means_created.

(* whatever the first guarded statement of convertFactoryOutParams does: the factory is right for every constructor
   iff the converted value replaces out[0] in place.  The tree's statements are re-read (Gen/PlugConv_bridge.v). *)
Theorem C05_plugin_factory_first_step_right_iff : forall s1,
  (forall numOut conf out, valid_call numOut false out ->
     factory_call (prog_with s1) numOut false conf out = factory_spec numOut conf out) <-> s1 = CvWrapFirst.
Proof. exact first_step_right_iff. Qed.
Print Assumptions C05_plugin_factory_first_step_right_iff.

(* rebuilding the result slice around the converted value drops the constructor's error *)
Theorem C05_plugin_factory_rebuild_refuted :
  valid_call 2 false [VImpl false; VErr (Some 7)] /\
  creation_error None [VImpl false; VErr (Some 7)] = Some 7 /\
  factory_call rebuild_cvprog 2 false None [VImpl false; VErr (Some 7)] = FrOk false /\
  factory_call tree_cvprog 2 false None [VImpl false; VErr (Some 7)] = FrErr 7.
Proof. exact rebuild_drops_the_constructor_error. Qed.
Print Assumptions C05_plugin_factory_rebuild_refuted.

(* the engine: in EVERY history (any pools, any interleaving, cancelled or not) in which the first call of a pool's
   gun factory -- built by the registry from a constructor of any shape -- is a creation that failed, Engine.Run does
   not return nil *)
Theorem C05_plugin_factory_failure_fails_the_run : forall cfg tr g er p direct conf out e,
  grun fixed cfg (ginit cfg) tr = Some g -> eng g = Some er ->
  valid_call 2 direct out -> creation_error (eff_conf direct conf) out = Some e ->
  In (GvPool p (PvPre (pf_pre_outcome (factory_call tree_cvprog 2 direct conf out)))) tr ->
  er_res er <> RNil.
Proof. exact failed_gun_creation_never_a_successful_run. Qed.
Print Assumptions C05_plugin_factory_failure_fails_the_run.

(* the encoder aggregator: two samples, a tick whose flush fails, more samples -- the flush failure is reported although
   the final flush and the close succeed; with nothing failing Run returns nil; and the engine, given that result,
   returns the aggregator failure *)
Example C05_example_enc_aggr :
  let e ok := {| ea_open := true; ea_events := [EvSample true; EvSample true; EvTick false ok; EvTick true false; EvSample true];
                 ea_queued := [true]; ea_final := true; ea_close := true; ea_dropped := false |} in
  ea_run tree_epolicy (e false) = [EcFlush] /\ ea_spec_fails (e false) = true /\
  ea_run tree_epolicy (e true) = [] /\ ea_spec_fails (e true) = false /\
  (exists g er, grun fixed [0] (ginit [0])
     [GvPool 0 (PvPre PreOk); GvPool 0 (PvMsg (AggrRes (ea_engine_err (ea_run tree_epolicy (e false)))) ChSend); GvEngRecv 0] = Some g /\
     eng g = Some er /\ er_res er = RFail CAggr).
Proof. repeat split. eexists. eexists. split; [vm_compute; reflexivity|repeat split]. Qed.

(* the usual Go constructor func(conf) ( *Impl, error) behind a func() (Plugin, error) factory: its error is the
   factory's error, a failing config fill too, and a run whose pool step is that failing creation fails *)
Example C05_example_plugin_factory :
  factory_call tree_cvprog 2 false None [VImpl false; VErr (Some 3)] = FrErr 3 /\
  factory_call tree_cvprog 2 false None [VImpl false; VErr None] = FrOk false /\
  factory_call tree_cvprog 2 false (Some 4) [VImpl false; VErr None] = FrErr 4 /\
  factory_call tree_cvprog 1 false None [VImpl false; VErr (Some 3)] = FrPanic 3 /\
  factory_call tree_cvprog 2 false None [VImpl false] = FrOk false /\
  (exists g er, grun fixed [1] (ginit [1])
     [GvPool 0 (PvPre (pf_pre_outcome (factory_call tree_cvprog 2 false None [VImpl false; VErr (Some 3)]))); GvEngRecv 0] = Some g /\
     eng g = Some er /\ er_res er = RFail CGunFactory).
Proof. repeat split. eexists. eexists. split; [vm_compute; reflexivity|repeat split]. Qed.

(* ---- the ammo provider as a component: a decode provider on the scan decoder (Model/ScanDecode.v) ---- *)

(* For every input (any chunks, clean end or scanner error): the provider stops after at most one Decode call per chunk
   plus one, returns an error exactly when something is wrong with the input (a chunk that does not decode, a scanner
   error), and has handed out exactly the ammo before the first broken chunk -- it runs out of ammo when the file does. *)
Theorem C05_scan_provider_terminates_and_reports : forall l e fuel d,
  length l < fuel ->
  dp_run fuel sd_fixed l e d = (if sd_spec_fails l e then PFail else PNil, d + sd_spec_delivered l).
Proof. exact dp_run_fixed_spec. Qed.
Print Assumptions C05_scan_provider_terminates_and_reports.

Theorem C05_scan_provider_terminates : forall l e, fst (dp_run (S (length l)) sd_fixed l e 0) <> POutOfFuel.
Proof. exact dp_run_fixed_terminates. Qed.
Print Assumptions C05_scan_provider_terminates.

(* the tree before fix 1f55920 (a clean end of the scanner gave a nil error): on EVERY healthy input the provider never
   stops -- whatever the fuel, it is used up handing out blank ammo *)
Theorem C05_scan_provider_orig_never_ends_refuted : forall l fuel d,
  existsb ck_bad l = false -> fst (dp_run fuel sd_orig l false d) = POutOfFuel.
Proof. exact dp_run_orig_healthy_file_never_ends. Qed.
Print Assumptions C05_scan_provider_orig_never_ends_refuted.

Theorem C05_scan_model_is_current_tree : sd_current = sd_fixed.
Proof. reflexivity. Qed.
Print Assumptions C05_scan_model_is_current_tree.

Example C05_example_scan_provider :
  dp_run 10 sd_fixed (fst (sd_file 2 1 SpNone)) false 0 = (PNil, 3) /\
  dp_run 10 sd_fixed (fst (sd_file 2 1 SpBad)) false 0 = (PFail, 2) /\
  dp_run 10 sd_fixed (fst (sd_file 2 1 SpScan)) true 0 = (PFail, 2) /\
  dp_run 10 sd_orig (fst (sd_file 2 1 SpNone)) false 0 = (POutOfFuel, 10).
Proof. repeat split. Qed.

(* ---- the ammo provider as a component: the JSON decode provider (Model/JsonDecode.v) ---- *)

(* "if the ammo provider fails ... at the very end ... a component error is never swallowed": for EVERY data, however the
   source cuts it into reads and whether or not its last read carries io.EOF together with the data, with no limit the
   provider fails exactly when something in the data does not decode (having handed out the ammo before it), and
   otherwise ends with nil having handed out everything. *)
Theorem C05_json_provider_reports_undecodable_data : forall chunks eofwl d,
  jd_pass jd_tree 0 eofwl chunks false d =
  if jd_spec_fails (concat chunks) then (JdFail, d + jd_ammo_before_bad (concat chunks))
  else (JdNil, d + jd_count_ammo (concat chunks)).
Proof. exact jd_pass_tree_spec. Qed.
Print Assumptions C05_json_provider_reports_undecodable_data.

(* under any limit: a nil result means the limit was reached or nothing in the data is broken *)
Theorem C05_json_provider_nil_is_honest : forall chunks limit eofwl d n,
  jd_pass jd_tree limit eofwl chunks false d = (JdNil, n) ->
  jd_lim_reached limit n = true \/ jd_spec_fails (concat chunks) = false.
Proof. exact jd_pass_tree_nil_honest. Qed.
Print Assumptions C05_json_provider_nil_is_honest.

(* how the source cuts the data into reads does not matter *)
Theorem C05_json_provider_reads_do_not_matter : forall chunks limit eofwl d,
  jd_pass jd_tree limit eofwl chunks false d =
  match jd_scan limit false (concat chunks) d with
  | (Some res, d') => (res, d')
  | (None, d') => (JdNil, d')
  end.
Proof. exact jd_pass_tree_chunking. Qed.
Print Assumptions C05_json_provider_reads_do_not_matter.

(* the edit "note the source's error also when it came with data" refuted: on a source that hands its data out in one
   read together with io.EOF, NO data whatsoever makes the provider fail *)
Theorem C05_json_provider_noting_error_with_data_refuted : forall l limit d,
  fst (jd_pass jd_notes_error_with_data limit true [l] false d) <> JdFail.
Proof. exact jd_pass_noting_swallows. Qed.
Print Assumptions C05_json_provider_noting_error_with_data_refuted.

(* "a run always terminates": a source that can be sought and holds no ammo (nothing, or white space only) ends the
   provider after one pass, whatever passes (0 = unlimited included) and limit say, as long as the guard is installed *)
Theorem C05_json_provider_no_ammo_terminates : forall v passes limit pend nonempty fuel,
  jv_guard v passes = true ->
  jd_passes (S fuel) v passes limit 0 pend nonempty 0 0 0 = (JdNil, 0).
Proof. exact jd_passes_no_ammo_ends. Qed.
Print Assumptions C05_json_provider_no_ammo_terminates.

Theorem C05_json_provider_tree_installs_the_guard : forall passes, jv_guard jd_current passes = true.
Proof. reflexivity. Qed.
Print Assumptions C05_json_provider_tree_installs_the_guard.

(* the edit "install the guard only for passes > 1" refuted: passes = 0 on white space only never ends, whatever the fuel *)
Theorem C05_json_provider_guard_only_for_several_passes_refuted : forall fuel limit pend pc db,
  jd_passes fuel jd_guard_for_several_passes 0 limit 0 pend true pc 0 db = (JdOutOfFuel, 0).
Proof. exact jd_passes_guardless_never_ends. Qed.
Print Assumptions C05_json_provider_guard_only_for_several_passes_refuted.

(* "succeeds only if every pool ran out of ammo": data with ammo on ANY source that can be sought -- one that reports its
   end on a read of its own (pend = 0) as well as one that hands its last data out together with io.EOF (pend up to a):
   the guard never refuses a rewind, `passes` passes hand out passes * a ammo, then nil (after repair c78f643) *)
Theorem C05_json_provider_passes_counted : forall a pend passes n pc d db fuel,
  0 < a -> 0 < n -> pc + n = passes -> db <= d -> n <= fuel ->
  jd_passes fuel jd_current passes 0 a pend true pc d db = (JdNil, d + n * a).
Proof. intros a pend passes n pc d db fuel. apply jd_passes_counts. left. reflexivity. Qed.
Print Assumptions C05_json_provider_passes_counted.

(* whatever the guard's Read does, sources that report their end on a read of their own are read passes times *)
Theorem C05_json_provider_passes_counted_end_on_own_read : forall v a passes n pc d db fuel,
  0 < a -> 0 < n -> pc + n = passes -> db <= d -> n <= fuel ->
  jd_passes fuel v passes 0 a 0 true pc d db = (JdNil, d + n * a).
Proof. intros v a passes n pc d db fuel. apply jd_passes_counts. right. reflexivity. Qed.
Print Assumptions C05_json_provider_passes_counted_end_on_own_read.

(* sensitivity witness, the tree before the repair (the guard without a Read of its own): a source that hands all its
   data out in one read together with io.EOF (pend = a) is read ONCE whatever passes says (2, 3, ..., 0 = unlimited) --
   the run "succeeds" having shot a instead of passes * a ammo *)
Theorem C05_json_provider_passes_counted_without_guard_read_refuted : forall a passes fuel,
  0 < a -> passes <> 1 ->
  jd_passes (S fuel) jd_guard_without_read passes 0 a a true 0 0 0 = (JdNil, a).
Proof. intros a passes fuel Ha Hp. apply jd_passes_eof_with_data_one_pass; [reflexivity|exact Ha|exact Hp|reflexivity]. Qed.
Print Assumptions C05_json_provider_passes_counted_without_guard_read_refuted.

(* with a limit the provider ends whatever passes says (also 0 = unlimited) *)
Theorem C05_json_provider_limit_terminates : forall v a passes limit pend fuel pc d db,
  0 < a -> 0 < limit -> limit <= d + fuel ->
  fst (jd_passes (S fuel) v passes limit a pend true pc d db) = JdNil.
Proof. exact jd_passes_limit_ends. Qed.
Print Assumptions C05_json_provider_limit_terminates.

Example C05_example_json_provider :
  jd_pass jd_tree 0 true [[JiAmmo; JiBlank]; [JiAmmo; JiBad]] false 0 = (JdFail, 2) /\
  jd_pass jd_notes_error_with_data 0 true [[JiAmmo; JiBlank]; [JiAmmo; JiBad]] false 0 = (JdNil, 2) /\
  jd_pass jd_tree 2 false [jd_items 3 1 JpBad] false 0 = (JdNil, 2) /\
  jd_passes 5 jd_tree 0 0 0 0 true 0 0 0 = (JdNil, 0) /\
  jd_passes 5 jd_guard_for_several_passes 0 0 0 0 true 0 0 0 = (JdOutOfFuel, 0) /\
  jd_passes 5 jd_tree 3 0 2 0 true 0 0 0 = (JdNil, 6) /\
  jd_passes 5 jd_tree 3 0 2 2 true 0 0 0 = (JdNil, 6) /\
  jd_passes 5 jd_guard_without_read 3 0 2 2 true 0 0 0 = (JdNil, 2) /\
  jd_passes 9 jd_tree 0 7 2 0 true 0 0 0 = (JdNil, 7) /\
  jd_spec_delivered true 3 0 (jd_items 2 0 JpNone) = 6.
Proof. repeat split. Qed.
