(* Property C17, round 6: "options that are not given keep the component's documented defaults" and a given option is
   applied as written -- stated about what the constructed component HOLDS, not only about the decoded config struct:
   its own config, and, for a component wrapping another one (grpc/scenario wraps the grpc gun), the configuration it
   assembles for the wrapped component option by option.
   Statements only; proofs in Proofs/ConfigAppliedProofs.v. *)
From Coq Require Import List NArith ZArith Bool QArith.
From PV Require Import Model.ConfigDecode Model.ConfigApplied Proofs.ConfigDecodeProofs Proofs.ConfigAppliedProofs
  Gen.ConfigSchemaGen.
Import ListNotations.
Local Open Scope N_scope.

(* (1) Options at any depth of a config struct (key paths through nested structs), for every schema, registry, oracle,
   fuel: an option the section does not write (a key on the way absent, or written as null) keeps the value it has in
   the config the section is decoded onto; an option the section writes becomes the decoding of the written value onto
   the value it had. *)
Theorem C17_option_paths :
  forall env prop orc orcq reg lz,
  (forall p F s d v c s' d',
     decode env prop orc orcq reg lz F s d v = Ok c -> unwritten_path p v = true ->
     opt_at p s d = Some (s', d') -> opt_at p s c = Some (s', d'))
  /\
  (forall p F s d v c s' d' x,
     decode env prop orc orcq reg lz F s d v = Ok c -> written_path p v = Some x ->
     opt_at p s d = Some (s', d') ->
     exists F' c', opt_at p s c = Some (s', c') /\ decode env prop orc orcq reg lz F' s' d' x = Ok c').
Proof. intros. split; [apply opt_unwritten_kept|apply opt_written_decoded]. Qed.
Print Assumptions C17_option_paths.

(* (2) The component: its section goes through the plugin hook (decoded onto the REGISTERED default, validated, handed
   to the constructor).  For every rule (dst, src) of a configuration the component holds -- whatever the rule table --
   the option that arrives at dst is the registered default at src when the section does not write src, and the
   decoding of the written value onto that default when it does.  Nothing else can arrive: with distinct destinations
   the held configuration is a function of the destination. *)
Theorem C17_applied_options :
  forall env prop orc orcq reg lz,
  (forall F iface fk cur kvs r e cs d rules,
     decode env prop orc orcq reg lz (S F) (SPlugin iface fk) cur (VMap kvs) = Ok r ->
     plugin_entry reg iface kvs = Some e -> e_conf e = Some (cs, d) -> entry_lazy lz fk e = false ->
     exists name c, r = CPlugin name false c /\ validate orc c cs = true /\ ctor_ok cs c = true /\
       forall dst src s' d', In (dst, src) rules -> opt_at src cs d = Some (s', d') ->
         let sec := VMap (filter (fun kv => negb (is_type_key kv)) kvs) in
         (unwritten_path src sec = true -> In (dst, Some d') (forwarded rules cs c))
         /\ (forall x, written_path src sec = Some x ->
               exists F' c', In (dst, Some c') (forwarded rules cs c) /\
                             decode env prop orc orcq reg lz F' s' d' x = Ok c'))
  /\
  (forall rules s c dst a b,
     paths_nodup (map fst rules) = true ->
     In (dst, a) (forwarded rules s c) -> In (dst, b) (forwarded rules s c) -> a = b).
Proof. intros. split; [apply applied_plugin|apply forwarded_functional]. Qed.
Print Assumptions C17_applied_options.

(* ---- non-vacuity, on the generated schema and the generated table: the grpc/scenario gun.
   section {type: grpc/scenario, target: h:1, timeout: 30s}                -> the wrapped gun's dial timeout is the default 0, its request timeout 30s
   section {..., dial_options: {timeout: 2s}}                              -> dial timeout 2s, request timeout the default 0
   section {..., timeout: 30s, dial_options: {timeout: 2s, authority: a}}  -> 30s and 2s *)
Definition ax_env (n : str) : option str := None.
Definition ax_prop (f k : str) : option str := None.
Definition ax_orc (k : okind) (s : str) : option Z :=
  match k with
  | ODur => if str_eqb s [51;48;115] then Some 30000000000%Z else if str_eqb s [50;115] then Some 2000000000%Z else None
  | _ => None
  end.
Definition ax_orcq (s : str) : option Q := None.
Definition k_timeout : str := [116;105;109;101;111;117;116].
Definition k_dial : str := [100;105;97;108;95;111;112;116;105;111;110;115].
Definition k_target : str := [84;97;114;103;101;116].
Definition k_authority : str := [97;117;116;104;111;114;105;116;121].
Definition i_gun : str := [99;111;114;101;46;71;117;110].
Definition n_grpc_scn : str := [103;114;112;99;47;115;99;101;110;97;114;105;111].
Definition n_grpc : str := [103;114;112;99].
Definition ax_section (opts : list (str * value)) : value :=
  VMap ((s_type, VStr n_grpc_scn) :: (k_target, VStr [104;58;49]) :: opts).
Definition ax_held (opts : list (str * value)) : list (list str * option cval) :=
  match decode ax_env ax_prop ax_orc ax_orcq gen_registry model_factory_lazy 12 (SPlugin i_gun 0) CNil (ax_section opts) with
  | Ok (CPlugin _ _ c) =>
      match lookup_entry gen_registry i_gun n_grpc_scn with
      | Some e => match e_conf e with
                  | Some (cs, _) =>
                      match applied_of gen_applied i_gun n_grpc_scn cs c with
                      | [(_, l)] => filter (fun x => path_eqb (fst x) [k_timeout] || path_eqb (fst x) [k_dial; k_timeout]) l
                      | _ => []
                      end
                  | None => [] end
      | None => []
      end
  | _ => []
  end.

Example C17_applied_example :
  ax_held [(k_timeout, VStr [51;48;115])]
    = [([k_timeout], Some (CInt 30000000000)); ([k_dial; k_timeout], Some (CInt 0))]
  /\ ax_held [(k_dial, VMap [(k_timeout, VStr [50;115])])]
    = [([k_timeout], Some (CInt 0)); ([k_dial; k_timeout], Some (CInt 2000000000))]
  /\ ax_held [(k_timeout, VStr [51;48;115]); (k_dial, VMap [(k_timeout, VStr [50;115]); (k_authority, VStr [97])])]
    = [([k_timeout], Some (CInt 30000000000)); ([k_dial; k_timeout], Some (CInt 2000000000))]
  /\ map fst (lookup_applied gen_applied i_gun n_grpc_scn) = [n_grpc].
Proof. vm_compute. repeat split; reflexivity. Qed.
