(* Property C02 - the doAtSchedule leaf itself under concurrent callers.  Statements only; proofs live
   in Proofs/SchedLeafConcProofs.v.

   Properties/C02.v and C02_nested.v take a leaf operation as ONE atomic step.  Here that is proved for
   doAtSchedule (once / const / line and every part of step / instance_step) from a finer model
   (Model/SchedLeafConc.v): a Next is the sequence  sync.Once{ MarkStarted ; start = now } ; i = Inc-1 ;
   read start, return - every access its own step, any number of threads, every interleaving
   ([lreach]), a thread that finds another one inside the Once waits.  The method bodies are re-read
   from do_at.go on every run (harness/cmd/trC02 -> Gen/SchedSyncGen.v, Gen/SchedSync_bridge.v).

   "exactly once ... no matter how many callers draw concurrently", "after exhaustion every call keeps
   returning the same finish time": the engine never calls Start, so the first Next calls of the
   instances sharing a schedule race to start it. *)
From Coq Require Import List ZArith Bool Arith Lia.
From PV Require Import Model.SchedTree Model.SchedLeafConc Proofs.SchedLeafConcProofs Proofs.SchedUnlConcProofs.
Import ListNotations.
Local Open Scope Z_scope.

(* A fresh leaf nobody called Start on, any threads with any programs of Next / Left, every
   interleaving of the micro-steps with any non-decreasing clock readings: no step panics (in
   particular "schedule is already started" is unreachable); there is a start instant [st] such that
   the ghost history - operations in the order of the steps in which they take effect - is a run of
   the ATOMIC leaf [DoAt n d a 0 (Some st)] of Model/SchedTree.v (so the tokens 0, 1, 2, ... are handed
   out exactly once, then (st + d, false) for ever, and every Left is n - i at its linearisation
   point); every thread got exactly the results of its own operations in that history, in program
   order; and once the Once is done [st] is the clock reading of the one thread that ran its body,
   taken during the run. *)
Theorem C02_leaf_linearizable : forall n d a zero lo plans g,
  Forall (Forall nl_op) plans ->
  lreach n d a doat_progs (linit zero lo plans) g ->
  ~ lstuck n d a doat_progs g /\
  exists st, leaf_conclusion n d a g st /\
             (l_done (lg_s g) = true -> st = l_start (lg_s g) /\ lo <= st <= lg_lo g).
Proof. exact leaf_linearizable. Qed.
Print Assumptions C02_leaf_linearizable.

(* the same for a leaf started by a sequential Start(t) (compositeSchedule.startNext under the write
   lock, or the caller before the threads exist): the start instant is t *)
Theorem C02_leaf_linearizable_started : forall n d a t lo plans g,
  Forall (Forall nl_op) plans ->
  lreach n d a doat_progs (linit_started t lo plans) g ->
  ~ lstuck n d a doat_progs g /\ leaf_conclusion n d a g t.
Proof. exact leaf_linearizable_started. Qed.
Print Assumptions C02_leaf_linearizable_started.

(* Consequence in the words of the property: every time any caller ever got from a self-starting leaf
   is the ONE start instant plus the offset of a token (ok) or plus the duration (finish) - the start
   instant being a clock reading of the run, never the zero time the field held before. *)
Theorem C02_leaf_one_start : forall n d a zero lo plans g,
  Forall (Forall nl_op) plans ->
  lreach n d a doat_progs (linit zero lo plans) g ->
  forall j th t ok, nth_error (lg_threads g) j = Some th -> In (RNext t ok) (lt_hist th) ->
  let st := l_start (lg_s g) in
  lo <= st <= lg_lo g /\
  (if ok then exists i, (i < n)%nat /\ t = st + a i else t = st + d).
Proof. exact leaf_one_start. Qed.
Print Assumptions C02_leaf_one_start.

(* the executable scheduler used by the examples only produces reachable states *)
Theorem C02_leaf_lrun_reach : forall n d a P sch g0 g g',
  lreach n d a P g0 g -> lrun n d a P sch g = Some g' -> lreach n d a P g0 g'.
Proof. exact lrun_reach. Qed.
Print Assumptions C02_leaf_lrun_reach.

(* Non-vacuity: 2 tokens at +0 / +3 of 10, zero time -1000, three threads; a 17-step interleaving in
   which the starter stores start = 105, another thread takes index 0 before the starter does, and a
   caller arriving while the starter is inside the Once has no step. *)
Example C02_leaf_example :
  Forall (Forall nl_op) ex_plans /\
  lrun 2 10 ex_a doat_progs [(0%nat, 100); (1%nat, 101)] (linit (-1000) 100 ex_plans) = None /\
  exists g, lrun 2 10 ex_a doat_progs ex_sched (linit (-1000) 100 ex_plans) = Some g /\
            lreach 2 10 ex_a doat_progs (linit (-1000) 100 ex_plans) g /\
            map lt_hist (lg_threads g) =
              [[RNext 108 true; RNext 115 false]; [RNext 105 true; RLeft 0]; [RLeft 2; RNext 115 false]] /\
            l_start (lg_s g) = 105.
Proof. exact leaf_example. Qed.
Print Assumptions C02_leaf_example.

(* The theorem is about the synchronisation, not about the arithmetic: the same leaf whose Next looks at
   the started flag before entering the Once (`if !s.IsStarted() { s.startOnce.Do(...) }`) has a
   10-step interleaving of two callers in which one of them is handed the zero time (-1000) although
   the schedule started at 105 - C02_leaf_one_start is false of it. *)
Example C02_leaf_once_guard_needed :
  exists g, lreach 2 10 ex_a fastpath_progs (linit (-1000) 100 [[ONext]; [ONext]]) g /\
            map lt_hist (lg_threads g) = [[RNext 108 true]; [RNext (-1000) true]] /\
            l_start (lg_s g) = 105.
Proof. exact leaf_once_guard_needed. Qed.
Print Assumptions C02_leaf_once_guard_needed.

(* ------------------------------------------------------------------ unlimitedSchedule *)
(* The same for the unlimited leaf (Model/SchedLeafConc.v [unl_progs] = unlilmited.go, re-read from the
   source like do_at.go):  Next = sync.Once{ finish.Store(now + d) ; MarkStarted } ; now := time.Now() ;
   finish.Load, answer;  Left = started.Load (-1 at once when not set) ; time.Now, finish.Load.
   A fresh leaf nobody called Start on, any threads, any programs of Next / Left, every interleaving:
   no step panics, and the ghost history - every operation at the clock reading of the step in which
   it takes effect, the start made explicit as Start(finish - d) in the step that marks the schedule
   started - is a run of the ATOMIC leaf [Unlim d None] of Model/SchedTree.v at those readings (so every
   Left is -1 before the start and "-1 while now < finish, else 0" after it, every Next is
   max(now, start) while the window is open and (finish, false) after); no reading is later than the
   present clock; every thread got exactly its own results, in program order. *)
Theorem C02_unl_linearizable : forall n d a zero lo plans g,
  Forall (Forall nl_op) plans ->
  lreach n d a unl_progs (linit zero lo plans) g ->
  ~ lstuck n d a unl_progs g /\ unl_conclusion d None g.
Proof. exact unl_linearizable. Qed.
Print Assumptions C02_unl_linearizable.

(* after a sequential Start(t) (compositeSchedule.startNext under the write lock) *)
Theorem C02_unl_linearizable_started : forall n d a t lo plans g,
  Forall (Forall nl_op) plans ->
  lreach n d a unl_progs (linit_unl_started d t lo plans) g ->
  ~ lstuck n d a unl_progs g /\ unl_conclusion d (Some (t + d)) g.
Proof. exact unl_linearizable_started. Qed.
Print Assumptions C02_unl_linearizable_started.

(* In the words of the property ("zero only if no token remains", "negative only while the total is
   genuinely unknown"): whatever the interleaving, a Left of a lazily started unlimited schedule that
   anybody ever got is -1, or it is 0 and then the schedule is started and its finish time is not after
   the present clock - the window has closed. *)
Theorem C02_unl_left_zero_only_closed : forall n d a zero lo plans g,
  Forall (Forall nl_op) plans ->
  lreach n d a unl_progs (linit zero lo plans) g ->
  forall j th k, nth_error (lg_threads g) j = Some th -> In (RLeft k) (lt_hist th) ->
  k = -1 \/ (k = 0 /\ l_started (lg_s g) = true /\ l_fin (lg_s g) <= lg_lo g).
Proof. exact unl_left_zero_only_closed. Qed.
Print Assumptions C02_unl_left_zero_only_closed.

(* Non-vacuity: window of 50, two threads, 14 steps: a Left before the flag is set (-1), the start
   (finish = 150) made explicit in the ghost when the flag is set, a Left inside the starter's Once that
   already reads the final finish time (-1 at 120), tokens 130 and (150, false), Left = 0 at 170. *)
Example C02_unl_example :
  Forall (Forall nl_op) ux_plans /\
  match lrun 0 50 (fun _ => 0) unl_progs ux_sched (linit (-1000) 100 ux_plans) with
  | Some g => (map lt_hist (lg_threads g), map (fun x => snd (fst x)) (lg_ghost g))
  | None => ([], [])
  end = ([[RNext 130 true; RNext 150 false]; [RLeft (-1); RLeft (-1); RLeft 0]],
         [OLeft; OStart 100; OLeft; ONext; ONext; OLeft]).
Proof. exact unl_example. Qed.
Print Assumptions C02_unl_example.

(* The order inside the Once is what the theorem rests on: with MarkStarted BEFORE the store of the
   finish time, a Left running in between sees the flag together with the stale finish time and answers
   0 with the whole window ahead (8 steps, two threads). *)
Example C02_unl_store_before_mark_needed :
  match lrun 0 50 (fun _ => 0) unl_swapped_progs (zsch [(0, 100); (0, 101); (1, 102); (1, 103); (0, 104); (0, 105); (0, 106); (0, 107)])
              (linit (-1000) 100 [[ONext]; [OLeft]]) with
  | Some g => map lt_hist (lg_threads g)
  | None => []
  end = [[RNext 106 true]; [RLeft 0]].
Proof. exact unl_store_before_mark_needed. Qed.
Print Assumptions C02_unl_store_before_mark_needed.
