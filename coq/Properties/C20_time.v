(* Property C20 — "… within the configured timeout": every call, every step of a scenario included, is
   given the whole configured timeout from the moment it is issued — whatever the clock says, however
   long the think time before it was, however long earlier calls took; a call that is not answered in
   time is a failed sample for THAT call.  Statements only; proofs live in Proofs/GrpcTimeProofs.v. *)
From Coq Require Import List NArith ZArith Bool.
From PV Require Import Model.GrpcCall Model.GrpcExample Model.GrpcWire Model.GrpcTime Model.GrpcTimeExample
  Proofs.GrpcCallProofs Proofs.GrpcWireProofs Proofs.GrpcTimeProofs.
Import ListNotations.
Local Open Scope Z_scope.

(* The reading of the source: deadline_scope is defined only for the arrangement "the function that calls
   InvokeRpc creates its deadline from context.Background()", and then it is PerCall; a function that
   invokes under a deadline handed down to it has none.  The bridge Gen/GrpcDial_bridge.v
   (deadline_is_per_call, timeout_sites) shows that the sites re-read from components/guns/grpc/**.go are
   of this kind. *)
Theorem C20_deadline_scope :
  (forall sites inv sc, deadline_scope sites inv = Some sc -> sc = PerCall) /\
  (forall sites inv f, In f inv -> site_in f sites = false -> deadline_scope sites inv = None).
Proof. split; [exact deadline_scope_some|exact deadline_scope_needs_site]. Qed.
Print Assumptions C20_deadline_scope.

(* The steps of a shot (any outcomes the gun decided, any think time after each), started at any time,
   against ANY target that answers with any status after any latency: what the target receives — which
   calls, each with which budget — and every sample code are those of the specification, which knows no
   clock and no think time.  Same for any number of shots one after another.  Hence (frame) two runs that
   differ in start time, think time or in what a per-shot deadline would be give the same result. *)
Theorem C20_timeout_is_per_call :
  forall (msg : Type) (code_of_status : N -> N) (target : list (sent msg) -> sent msg -> N)
         (latency : list (sent msg) -> sent msg -> Z),
    (forall steps shot_dl now hist,
       drop_clock (timed_steps msg code_of_status target latency PerCall shot_dl now hist steps) =
         spec_timed msg code_of_status target latency hist (map fst steps)) /\
    (forall shots budget now hist,
       drop_clock (timed_shots msg code_of_status target latency PerCall budget now hist shots) =
         spec_timed_shots msg code_of_status target latency hist (map (map fst) shots)) /\
    (forall steps steps' shot_dl shot_dl' now now' hist,
       map fst steps = map fst steps' ->
       drop_clock (timed_steps msg code_of_status target latency PerCall shot_dl now hist steps) =
       drop_clock (timed_steps msg code_of_status target latency PerCall shot_dl' now' hist steps')).
Proof.
  intros. split; [|split].
  - intros; apply timed_steps_per_call.
  - intros; apply timed_shots_per_call.
  - intros; apply timed_steps_frame; assumption.
Qed.
Print Assumptions C20_timeout_is_per_call.

(* … where the specification gives every arriving call its WHOLE timeout (> 0) as budget, the call is one
   that was to be sent, and its sample is the conversion of the target's answer if that comes within the
   timeout and of DeadlineExceeded if it does not *)
Theorem C20_call_gets_whole_timeout :
  forall (msg : Type) (code_of_status : N -> N) (target : list (sent msg) -> sent msg -> N)
         (latency : list (sent msg) -> sent msg -> Z) os hist c a,
    In (c, Some a) (snd (spec_timed msg code_of_status target latency hist os)) ->
    In (Sent (a_call a)) os /\ a_budget a = s_timeout (a_call a) /\ 0 < a_budget a /\
    c = code_of_status (a_status a) /\
    exists h, (latency h (a_call a) < s_timeout (a_call a) /\ a_status a = target h (a_call a)) \/
              (s_timeout (a_call a) <= latency h (a_call a) /\ a_status a = st_deadline).
Proof. exact spec_timed_arrival. Qed.
Print Assumptions C20_call_gets_whole_timeout.

(* against a target that answers every call within its timeout, the timed specification is the wire
   specification of C20_transport_delivers_once: one call per sent outcome, in order, code = conversion of
   the answer to that call *)
Theorem C20_timely_target_is_wire_spec :
  forall (msg : Type) (code_of_status : N -> N) (target : list (sent msg) -> sent msg -> N)
         (latency : list (sent msg) -> sent msg -> Z) os hist,
    (forall h s, In (Sent s) os -> 0 < s_timeout s /\ latency h s < s_timeout s) ->
    fst (spec_timed msg code_of_status target latency hist os) = hist ++ sent_of os /\
    map fst (snd (spec_timed msg code_of_status target latency hist os)) =
      spec_codes msg code_of_status target hist os.
Proof. exact spec_timed_fast. Qed.
Print Assumptions C20_timely_target_is_wire_spec.

(* a call that is not answered within its timeout is a DeadlineExceeded sample for THAT step; the steps
   after it are specified from the target's history alone *)
Theorem C20_late_answer_fails_its_own_step :
  forall (msg : Type) (code_of_status : N -> N) (target : list (sent msg) -> sent msg -> N)
         (latency : list (sent msg) -> sent msg -> Z) hist s r,
    0 < s_timeout s -> s_timeout s <= latency hist s ->
    spec_timed msg code_of_status target latency hist (Sent s :: r) =
      (fst (spec_timed msg code_of_status target latency (hist ++ [s]) r),
       (code_of_status st_deadline, Some (mkArr s (s_timeout s) st_deadline))
         :: snd (spec_timed msg code_of_status target latency (hist ++ [s]) r)).
Proof. exact spec_timed_slow_step. Qed.
Print Assumptions C20_late_answer_fails_its_own_step.

(* scenario shots (composes with C20_scenario_shot): any gun satisfying the cache invariant, any scenario
   of configured steps, any variables, started at any time, any think time after the steps, any target
   taking any time: every call that arrives is the call of a specified step and its budget is the
   configured timeout (15 s when none is configured) *)
Theorem C20_scenario_call_budget :
  forall (desc msg tmpl vars : Type) (parse_t : gbytes -> option tmpl) (exec_t : tmpl -> vars -> option gbytes)
         (fits_text : desc -> gbytes -> option msg) (code_of_status : N -> N)
         (target : list (sent msg) -> sent msg -> N) (latency : list (sent msg) -> sent msg -> Z)
         h defs (t : mtable desc) timeout scn (sts : list (step * vars)),
    steps_wf h defs -> Forall (fun sv => In (fst sv) defs) sts ->
    forall g, gun_ok desc tmpl parse_t h defs t timeout g ->
    forall (sleeps : list Z) shot_dl now hist c a,
    In (c, Some a)
       (snd (timed_steps msg code_of_status target latency PerCall shot_dl now hist
               (combine (snd (shoot_scenario desc msg tmpl vars parse_t exec_t fits_text h g scn sts)) sleeps))) ->
    In (Sent (a_call a)) (spec_scenario desc msg tmpl vars parse_t exec_t fits_text t timeout h sts) /\
    a_budget a = eff_timeout timeout /\ c = code_of_status (a_status a).
Proof. exact scenario_call_budget. Qed.
Print Assumptions C20_scenario_call_budget.

(* the timed replays of the correspondence driver equal their specifications *)
Theorem C20_timed_replay :
  forall (code_of_status : N -> N) (target : list (sent msg_c) -> sent msg_c -> N)
         (latency : list (sent msg_c) -> sent msg_c -> Z) timeout,
    (forall ss shots, scen_timed code_of_status target latency PerCall timeout ss shots =
                        scen_timed_spec code_of_status target latency shots) /\
    (forall os, json_timed code_of_status target latency PerCall timeout os =
                  json_timed_spec code_of_status target latency os).
Proof. intros. split; [apply scen_timed_per_call|apply json_timed_per_call]. Qed.
Print Assumptions C20_timed_replay.

(* ---------- non-vacuity, and what a per-shot deadline would do ---------- *)

(* two calls with a timeout of 1 s; 1.5 s of think time after the first; the target answers OK at once *)
Definition ext_call (m : N) : sent unit := mkSent [m] tt [] 1000000000.
Definition ext_steps : list (outcome unit * Z) := [(Sent (ext_call 1), 1500000000); (Sent (ext_call 2), 0)].
Definition ext_code : N -> N := fun st => if N.eqb st 0 then 200%N else if N.eqb st 4 then 504%N else 500%N.
Definition ext_run (sc : dscope) :=
  drop_clock (timed_steps unit ext_code (fun _ _ => 0%N) (fun _ _ => 0) sc 1000000000 0 [] ext_steps).

(* pandora's scope: both calls arrive, each with the whole second, both samples 200 *)
Example C20_think_time_does_not_eat_the_timeout :
  map (fun x => (fst x, option_map (fun a => a_budget a) (snd x))) (snd (ext_run PerCall)) =
    [(200%N, Some 1000000000); (200%N, Some 1000000000)].
Proof. vm_compute. reflexivity. Qed.

(* a deadline created once per shot: the second call is never sent and its sample is 504 — the model
   distinguishes the scopes, the theorems above are about pandora's *)
Example C20_shot_deadline_refuted :
  map (fun x => (fst x, option_map (fun a => a_budget a) (snd x))) (snd (ext_run PerShot)) =
    [(200%N, Some 1000000000); (504%N, None)] /\
  ext_run PerShot <> spec_timed unit ext_code (fun _ _ => 0%N) (fun _ _ => 0) [] (map fst ext_steps).
Proof. vm_compute. split; [reflexivity|discriminate]. Qed.

(* a target that takes 1.2 s for its first answer: 504 for that call, the next one is sent and answered *)
Example C20_slow_answer_example :
  map fst (snd (spec_timed unit ext_code (fun _ _ => 0%N)
                  (fun h _ => match h with [] => 1200000000 | _ => 0 end) [] (map fst ext_steps))) = [504%N; 200%N].
Proof. vm_compute. reflexivity. Qed.

(* the hypothesis of C20_timely_target_is_wire_spec is satisfiable *)
Example C20_timely_hyp_example :
  forall (h : list (sent unit)) s, In (Sent s) (map fst ext_steps) -> 0 < s_timeout s /\ (fun _ _ => 0) h s < s_timeout s.
Proof. intros h s [H|[H|[]]]; injection H as <-; cbn; split; reflexivity. Qed.
