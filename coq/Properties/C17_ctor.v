(* Property C17, round 5:
   (1) "a value violating a documented constraint is an error": constraints that no validate tag carries because the
       component's constructor enforces them while its section is decoded -- the `headers` option of the http
       providers (uri, uripost, raw, http/json, http), a list of "[Name: value]" lines;
   (2) ${property:FILE#KEY}: what the property file says (KEY=data lines; the data is everything after the first '=').
   Statements only; proofs in Proofs/ConfigCtorProofs.v. *)
From Coq Require Import List NArith ZArith Bool QArith.
From PV Require Import Model.ConfigDecode Proofs.ConfigDecodeProofs Proofs.ConfigDepthProofs Proofs.ConfigCtorProofs
  Gen.ConfigSchemaGen.
Import ListNotations.
Local Open Scope N_scope.

(* (1a) The header list: it decodes exactly when EVERY line decodes; a malformed line is an error of the whole list
   at any position (alone, first, in the middle, last), the error being that of the first malformed line; on success
   every line is taken, in order. *)
Theorem C17_header_list :
  (forall pre h post, hdr_ok h = false -> snd (hdr_decode (pre ++ h :: post)) <> None)
  /\ (forall l, forallb hdr_ok l = true ->
        exists kvs, hdr_decode l = (kvs, None) /\ map (@inl (str * str) herr) kvs = map hdr_line l)
  /\ (forall pre h post e, forallb hdr_ok pre = true -> hdr_line h = inr e ->
        exists kvs, hdr_decode (pre ++ h :: post) = (kvs, Some e) /\ map (@inl (str * str) herr) kvs = map hdr_line pre)
  /\ (forall k v, forallb (fun c => negb (c =? 58)) k = true -> trim k <> [] ->
        hdr_line (91 :: k ++ 58 :: v ++ [93]) = inl (trim k, trim v)).
Proof.
  split; [exact hdr_bad_anywhere|]. split; [intros l H; exact (proj1 (hdr_decode_spec l) H)|].
  split; [intros pre h post e Hp Hh; exact (hdr_loop_first_bad pre h post [] e Hp Hh)|exact hdr_line_wellformed].
Qed.
Print Assumptions C17_header_list.

(* (1b) A component reached anywhere in the tree (lz = false: nothing is decoded lazily) one of whose written options
   decodes to a value failing a constraint enforced by the constructor: the whole configuration is refused.  For the
   header list: a list of plain strings with a malformed line anywhere fails the constraint. *)
Theorem C17_ctor_constraint :
  forall env prop orc orcq reg lz uq,
  (forall p s cur v iface fk tags d0 kvs e nl fs d i f k' x,
     reach reg lz uq p [] s cur v = Some (SPlugin iface fk, tags, d0, VMap kvs) ->
     plugin_entry reg iface kvs = Some e -> e_conf e = Some (SStruct nl fs, d) -> entry_lazy lz fk e = false ->
     nth_error (flat_fields (SStruct nl fs)) i = Some f ->
     find_key (f_key f) (filter (fun kv => negb (is_type_key kv)) kvs) = Some (k', x) ->
     (forall F' c', decode env prop orc orcq reg lz F' (f_schema f) (cur_at (struct_cur (SStruct nl fs) d) i f) x = Ok c' ->
                    ctor_field_ok (f_tags f) c' = false) ->
     forall F c, notok (decode env prop orc orcq reg lz F s c v))
  /\
  (forall F ls cur c',
     forallb (fun x => negb (has_dollar_brace x)) ls = true -> forallb hdr_ok ls = false ->
     decode env prop orc orcq reg lz F (SSlice (SScalar KString)) cur (VList (map VStr ls)) = Ok c' ->
     ctor_field_ok [TCtorHeaders] c' = false).
Proof. intros. split; [apply ctor_at|apply headers_list_refused]. Qed.
Print Assumptions C17_ctor_constraint.

(* (2a) The property file.  A file written as lines ended by '\n' is read back as those lines; the line KEY=data
   (KEY free of '=', no CR) answers with the WHOLE data -- further '=' signs included -- when no earlier line defines
   KEY; a file that cannot be opened, a file none of whose lines defines KEY, and a KEY containing '=' are "missing". *)
Theorem C17_property_file :
  (forall lines, forallb (no_byte 10) lines = true -> raw_lines [] (render lines) = lines)
  /\ (forall files file key data pre post,
        files file = Some (render (pre ++ (key ++ 61 :: data) :: post)) ->
        forallb (no_byte 10) (pre ++ (key ++ 61 :: data) :: post) = true ->
        no_byte 61 key = true -> no_byte 13 (key ++ 61 :: data) = true ->
        forallb line_fits (pre ++ [key ++ 61 :: data]) = true ->
        forallb (other_key key) pre = true ->
        prop_of_files files file key = Some data)
  /\ (forall files file key,
        (files file = None -> prop_of_files files file key = None)
        /\ (forall lines, files file = Some (render lines) -> forallb (no_byte 10) lines = true ->
              forallb (other_key key) lines = true -> prop_of_files files file key = None)
        /\ (no_byte 61 key = false -> prop_of_files files file key = None))
  /\ (forall l, no_byte 13 l = true -> drop_cr (l ++ [13]) = l).
Proof.
  split; [exact raw_lines_render|]. split; [exact prop_file_hit|]. split; [exact prop_file_miss|exact drop_cr_crlf].
Qed.
Print Assumptions C17_property_file.

(* (2b) ... and the decoder on top of it: with the property oracle being the reader of a file system, the placeholder
   in a scalar position of any kind decodes like the literal the data casts to / the data itself; a missing
   property is an error wherever the decoder reaches it. *)
Theorem C17_property_file_placeholder :
  forall env files orc orcq reg lz uq,
  (forall file key t k F c,
     prop_names_ok file key = true -> prop_of_files files file key = Some t -> has_dollar_brace t = false ->
     decode env (prop_of_files files) orc orcq reg lz (S F) (SScalar k) c (VStr (ph_prop file key)) =
     match cast_text orc orcq (SScalar k) t with
     | HVal (VStr _) => decode env (prop_of_files files) orc orcq reg lz (S F) (SScalar k) c (VStr t)
     | HVal lit => decode env (prop_of_files files) orc orcq reg lz (S F) (SScalar k) c lit
     | HErr e => Err e
     end)
  /\
  (forall p s cur v s' tags d file key,
     reach reg lz uq p [] s cur v = Some (s', tags, d, VStr (ph_prop file key)) ->
     prop_names_ok file key = true -> prop_of_files files file key = None ->
     forall F c, notok (decode env (prop_of_files files) orc orcq reg lz F s c v)).
Proof. intros. split; [apply placeholder_scalar_prop|apply placeholder_prop_missing_at]. Qed.
Print Assumptions C17_property_file_placeholder.

(* ---- non-vacuity *)
Definition ex_str (s : list N) := s.
(* "[Host: a]" well-formed; "Host: a" (no brackets), "[Host a]" (no colon), "[ : a]" (blank name) malformed *)
Example C17_ctor_header_lines :
  hdr_line [91;72;111;115;116;58;32;97;93] = inl ([72;111;115;116], [97])
  /\ hdr_ok [72;111;115;116;58;32;97] = false
  /\ hdr_ok [91;72;111;115;116;32;97;93] = false
  /\ hdr_line [91;32;58;32;97;93] = inr HEmptyKey
  /\ snd (hdr_decode [[72;111;115;116;58;32;97]; [91;72;111;115;116;58;32;97;93]]) = Some HFormat      (* malformed, then well-formed *)
  /\ snd (hdr_decode [[91;72;111;115;116;58;32;97;93]; [91;72;111;115;116;58;32;97;93]]) = None.
Proof. vm_compute. repeat split; reflexivity. Qed.

(* on the generated schema: a pool whose ammo is the `uri` provider; headers [malformed; well-formed] refused,
   [well-formed; well-formed] accepted, and the position of the malformed line does not matter *)
Definition ex_plug (name : str) (kvs : list (str * value)) : value := VMap ((s_type, VStr name) :: kvs).
Definition ex_good : value := VStr [91;72;111;115;116;58;32;97;93].
Definition ex_bad : value := VStr [72;111;115;116;58;32;97].
Definition ex_pool (hdrs : list value) : value :=
  VMap [ ([97;109;109;111], ex_plug [117;114;105] [([102;105;108;101], VStr [97]); ([104;101;97;100;101;114;115], VList hdrs)]);
         ([114;101;115;117;108;116], ex_plug [100;105;115;99;97;114;100] []);
         ([103;117;110], ex_plug [104;116;116;112] [([116;97;114;103;101;116], VStr [104;58;49])]);
         ([114;112;115], ex_plug [111;110;99;101] [([116;105;109;101;115], VInt 1)]);
         ([115;116;97;114;116;117;112], ex_plug [111;110;99;101] [([116;105;109;101;115], VInt 1)]) ].
Definition ex_cfg (hdrs : list value) : value := VMap [(s_pools, VList [ex_pool hdrs])].
Definition ex_env (n : str) : option str := None.
Definition ex_files (f : str) : option str :=
  if str_eqb f [102] then Some [107;48;61;120;10; 107;61;97;61;98;61;61;10; 107;61;122;10] else None.  (* f: "k0=x\nk=a=b==\nk=z\n" *)
Definition ex_orc (k : okind) (s : str) : option Z := match k with OEndpoint => Some 1%Z | _ => None end.
Definition ex_orcq (s : str) : option Q := None.
Definition ex_run (v : value) : res cval :=
  decode_and_validate ex_env (prop_of_files ex_files) ex_orc ex_orcq gen_registry model_factory_lazy (fuel_for v)
    gen_root_schema gen_root_default v.
Definition is_ok (r : res cval) : bool := match r with Ok _ => true | _ => false end.
Definition is_ctor_err (r : res cval) : bool := match r with Err ECtor => true | _ => false end.

Example C17_ctor_example_pool :
  is_ok (ex_run (ex_cfg [ex_good; ex_good])) = true
  /\ is_ok (ex_run (ex_cfg [])) = true
  /\ is_ctor_err (ex_run (ex_cfg [ex_bad; ex_good])) = true
  /\ is_ctor_err (ex_run (ex_cfg [ex_good; ex_bad; ex_good])) = true
  /\ is_ctor_err (ex_run (ex_cfg [ex_good; ex_bad])) = true
  /\ is_ctor_err (ex_run (ex_cfg [ex_bad])) = true.
Proof. vm_compute. repeat split; reflexivity. Qed.

(* the file "k0=x / k=a=b== / k=z": k resolves to "a=b==" (first line defining k, whole data); k0 to "x"; q is missing;
   and ${property:f#k} in a string position decodes to "a=b==" *)
Example C17_property_file_example :
  prop_of_files ex_files [102] [107] = Some [97;61;98;61;61]
  /\ prop_of_files ex_files [102] [107;48] = Some [120]
  /\ prop_of_files ex_files [102] [113] = None
  /\ prop_of_files ex_files [103] [107] = None
  /\ decode ex_env (prop_of_files ex_files) ex_orc ex_orcq gen_registry false 3 (SScalar KString) CNil (VStr (ph_prop [102] [107]))
     = Ok (CStr [97;61;98;61;61])
  /\ prop_names_ok [102] [107] = true.
Proof. vm_compute. repeat split; reflexivity. Qed.
