(* Property C01, list profiles and step / list profiles shared by several consumers.
   Statements only (proofs: Proofs/SchedList.v, Proofs/SchedShare.v). *)
From Coq Require Import List ZArith QArith Bool Arith Lia.
From PV Require Import Model.SchedTree Model.SchedConc
  Proofs.SchedTreeProofs Proofs.SchedTreeSeq Proofs.SchedTreeRun Proofs.SchedTreeSpec
  Proofs.SchedConcSections Proofs.SchedConcProofs Proofs.SchedConcCor.
From PV Require Import Model.Sched Model.SchedList Proofs.SchedProofs Proofs.SchedStep Proofs.SchedList Proofs.SchedListSpec Proofs.SchedShare.
Import ListNotations.
Local Open Scope Z_scope.

(* A list profile (`rps: [p1, ..., pk]`, every part a valid const / line / step / once profile)
   drained by one consumer is the succession of its parts: the parts can all be built, the stream
   is part j's own stream shifted by the sum of the durations of the parts before it, the profile
   is exhausted exactly at start + the sum of all durations, Left() is the sum of the parts'
   counts.  (C01_count / C01_at_bracket / C01_step / C01_once say what each part's own stream is.) *)
Theorem C01_list : forall ps, Forall valid ps ->
  exists d, list_drain ps = Some d /\
    d_tokens d = list_tokens ps 0 /\ d_finish d = list_spec_finish ps /\ d_left d = list_left ps.
Proof. exact list_drain_ok. Qed.
Print Assumptions C01_list.

(* a list of one part is that part *)
Theorem C01_list_single : forall p, valid p -> list_drain [p] = drain p.
Proof. exact list_single. Qed.
Print Assumptions C01_list_single.

(* Meaning of the executable specification the correspondence run evaluates on the tokens of the
   implementation for list cases (Model/SchedList.v list_spec_b): at zero tolerance an accepted
   observation of a list of const / line / once parts is exactly that succession of streams
   (Left = number of tokens, finish = sum of the durations).  Step parts are judged by step_spec_b,
   whose splitting into level windows is not proved (as for spec_b). *)
Theorem C01_list_spec_b_meaning : forall ps left xs fin, Forall valid ps -> forallb simple ps = true ->
  list_spec_b (map (fun p => (p, 0)) ps) 0 left xs fin = true ->
  left = Z.of_nat (length xs) /\ fin = list_spec_finish ps /\ map Some xs = list_tokens ps 0.
Proof. exact list_spec_b_sound. Qed.
Print Assumptions C01_list_spec_b_meaning.

(* non-vacuity: 2 operations at once, then 2 rps for 1 s, then a 0.5 s pause - the stream
   0, 0, 0, 0.5 s with finish 1.5 s is accepted and is the model's own drain *)
Example C01_list_example :
  let ps := [POnce 2; PConst (2 # 1) 1000000000; PConst 0 500000000] in
  Forall valid ps /\ forallb simple ps = true /\
  list_spec_b (map (fun p => (p, 0)) ps) 0 4 [0; 0; 0; 500000000] 1500000000 = true /\
  option_map d_tokens (list_drain ps) = Some [Some 0; Some 0; Some 0; Some 500000000] /\
  option_map d_finish (list_drain ps) = Some 1500000000.
Proof. cbn zeta. split; [repeat constructor; easy|]. split; [reflexivity|]. vm_compute. repeat split; reflexivity. Qed.

(* The leaves of any composite (step levels, list parts) SHARED by any number of consumers, each
   running any program of Next / Left calls, under EVERY interleaving of composite.go's
   lock-delimited sections and any non-decreasing clock (Model/SchedConc.v; the leaves' atomic
   counters are single atomic actions): composite.go never panics nor runs out of retries, and
   there is one start instant s such that all Next answers, in linearisation order, are the
   profile's operations started at s - part after part, each exactly once - followed by nothing
   but (s + total duration, false); so whoever is told "exhausted" is told start + duration, and
   only after all operations have been handed out.  [defined] = every operation has an instant
   (no NaN), which C01_at_bracket gives for the leaves of valid profiles. *)
Theorem C01_shared : forall ls fuel lo0 ths st,
  (2 <= length ls)%nat -> Forall defined ls -> (length ls <= fuel)%nat -> init_threads ths ->
  ireach fuel (share_init ls lo0 ths) st ->
  shared_conclusion ls fuel ths st.
Proof. exact shared_profile. Qed.
Print Assumptions C01_shared.

(* step profile with at least two levels: exhausted exactly at start + levels * D *)
Theorem C01_step_shared : forall f t st D ls fuel lo0 ths sta,
  valid (PStep f t st D) -> leaves (PStep f t st D) = Some ls -> (2 <= length ls)%nat ->
  (length ls <= fuel)%nat -> init_threads ths ->
  ireach fuel (share_init ls lo0 ths) sta ->
  shared_conclusion ls fuel ths sta /\
  comp_finish ls 0 = Z.of_nat (length (spec_levels f t st)) * D /\
  length ls = length (spec_levels f t st).
Proof. exact step_shared. Qed.
Print Assumptions C01_step_shared.

(* list profile: exhausted exactly at start + the sum of the parts' durations; the operations are
   the parts' streams one after another *)
Theorem C01_list_shared : forall ps ls fuel lo0 ths sta,
  Forall valid ps -> list_leaves ps = Some ls -> (2 <= length ls)%nat ->
  (length ls <= fuel)%nat -> init_threads ths ->
  ireach fuel (share_init ls lo0 ths) sta ->
  shared_conclusion ls fuel ths sta /\
  comp_finish ls 0 = list_spec_finish ps /\
  (forall s, comp_tokens ls s = list_tokens ps s).
Proof. exact list_shared. Qed.
Print Assumptions C01_list_shared.

(* the executable scheduler used by the example only produces reachable states *)
Theorem C01_iplay_reach : forall fuel sch st st', iplay fuel st sch = Some st' -> ireach fuel st st'.
Proof. exact iplay_reach. Qed.
Print Assumptions C01_iplay_reach.

(* non-vacuity: pause 1 s, then 1 operation at once, then 10 rps for 1 s; two consumers.  Both
   find the pause over (sections 1, 2: pc N1), consumer 0 hands the list over to the once part and
   takes its only operation (3), consumer 1 finds that somebody switched before it and that the new
   part is already drained: it is NOT told "exhausted", it starts over (4: pc PIdle, nothing
   returned), finds the once part over (5), switches to the last part and gets its first operation
   (6) - at start + 1 s as well.  The hypotheses of C01_list_shared hold. *)
Example C01_shared_example :
  let ps := [PConst 0 1000000000; POnce 1; PConst (10 # 1) 1000000000] in
  let th := {| t_pc := PIdle; t_todo := [ONext]; t_hist := [] |} in
  let view := fun st => map (fun t => (t_pc t, t_todo t, t_hist t)) (g_threads (i_g st)) in
  Forall valid ps /\ init_threads [th; th] /\ list_spec_finish ps = 2000000000 /\
  match list_leaves ps with
  | Some ls =>
      length ls = 3%nat /\
      option_map view (iplay 3 (share_init ls 0 [th; th]) [(0%nat, 0); (1%nat, 0); (0%nat, 0); (1%nat, 0)]) =
        Some [(PIdle, [], [RNext 1000000000 true]); (PIdle, [ONext], [])] /\
      option_map view (iplay 3 (share_init ls 0 [th; th]) [(0%nat, 0); (1%nat, 0); (0%nat, 0); (1%nat, 0); (1%nat, 0); (1%nat, 0)]) =
        Some [(PIdle, [], [RNext 1000000000 true]); (PIdle, [], [RNext 1000000000 true])]
  | None => False
  end.
Proof.
  cbn zeta. split; [repeat constructor; easy|]. split; [repeat constructor|]. split; [reflexivity|].
  vm_compute. repeat split; reflexivity.
Qed.
