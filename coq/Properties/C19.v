(* Property C19 — no response from the target can abort or crash the run. Statements only; proofs in
   Proofs/RobustProofs.v.  Model: Model/Robust.v (response handling of BaseGun.Shoot, ScenarioGun.shoot/shootStep and
   instance.Run over an abstract response; the scenario postprocessors with Go's partial operations explicit). *)
From Coq Require Import List ZArith NArith Bool.
From PV Require Import Model.Robust Proofs.RobustProofs.
Import ListNotations.
Local Open Scope Z_scope.

(* var/header substr: for every configured (start, end) — any integers — and every header value, every call in any
   sequence of calls of one closure returns a value (no slice-bounds panic); the captured bounds never change, so each
   result is the one the configured bounds give for that call's value alone. *)
Theorem C19_substr_safe : forall st inputs,
  Forall (fun o => o <> Panicked) (substr_seq st inputs) /\
  Forall2 (fun s o => o = fst (substr_call st s) /\ exists r, o = Done r) inputs (substr_seq st inputs).
Proof. intros st inputs. split; [apply substr_seq_no_panic|apply substr_seq_safe]. Qed.
Print Assumptions C19_substr_safe.

(* and what it returns is a contiguous piece of the value *)
Theorem C19_substr_is_slice : forall st s, exists r pre post,
  substr_call st s = (Done r, st) /\ s = pre ++ r ++ post.
Proof. exact substr_is_slice. Qed.
Print Assumptions C19_substr_is_slice.

(* every modelled postprocessor, for every configuration and every response view: never a panic
   (var/header with any modifier chain incl. unparsable ones, assert/response with any size/op,
   var/xpath whatever kind of value the expression has, var/jsonpath whatever the libraries answer) *)
Theorem C19_postprocessors_never_panic : forall p, pp_eval p <> Panicked.
Proof. exact pp_eval_not_panic. Qed.
Print Assumptions C19_postprocessors_never_panic.

Theorem C19_var_header_outcome : forall chain value,
  (parse_chain chain = None /\ var_header_one chain value = Failed) \/
  (exists ms, parse_chain chain = Some ms /\ exists v, var_header_one chain value = Done v).
Proof. exact var_header_one_spec. Qed.
Print Assumptions C19_var_header_outcome.

(* variables a step takes from an earlier RESPONSE and indexes (lib/mp calcIndex + the slice access): for every
   index form (number, next, rand, last, malformed), every list length incl. 0, every [next] counter and random
   draw: an error or an element, never a divide-by-zero / Intn(0) / index-out-of-range panic *)
Theorem C19_response_list_index_safe : forall ix len counter rnd, 0 <= len -> 0 <= counter ->
  extract_elem ix len counter rnd <> Panicked.
Proof. exact extract_elem_not_panic. Qed.
Print Assumptions C19_response_list_index_safe.

Theorem C19_grpc_assert_never_panics : forall st p code out, grpc_assert st p code out <> Panicked.
Proof. exact grpc_assert_not_panic. Qed.
Print Assumptions C19_grpc_assert_never_panics.

(* the dump / trace / answlog / debug-logging branches of Shoot and shootStep, for every combination of the gun
   options and every abstract response: none of them panics (each use of the response is behind a nil check or
   after the error return) *)
Theorem C19_option_branches_never_panic : forall o r, is_panic (side_branches o r) = false.
Proof. exact side_branches_no_panic. Qed.
Print Assumptions C19_option_branches_never_panic.

(* BaseGun.Shoot is total: for every gun option combination (part of c) and every abstract response (any status, body read ok or failing, connection ok /
   refused / reset / timeout / eof / protocol error) a bound gun without a failing Connect hook returns with exactly
   one sample: the received status without error for a clean exchange, an error otherwise (with the received status
   whenever a response arrived). http2 guns: under the documented condition only (target speaks HTTP/2). *)
Theorem C19_gun_total : forall c r,
  bc_bound c = true -> bc_connect c <> Some false -> (bc_http2 c = true -> rs_h2 r = true) ->
  exists sm, base_shoot c false r = Returned [sm] /\
    (clean r = true -> sm = {| sm_code := rs_status r; sm_err := false |}) /\
    (clean r = false -> sm_err sm = true) /\
    (conn_ok (rs_conn r) = true -> sm_code sm = rs_status r).
Proof. exact base_shoot_total. Qed.
Print Assumptions C19_gun_total.

(* the only panic leaves of Shoot: a gun that was never bound, or the documented-fatal HTTP/2 condition
   (http2 gun, target reached, no HTTP/2 negotiated); any other connection failure of an http2 gun is a sample *)
Theorem C19_gun_panic_only_documented : forall c inv r l, base_shoot c inv r = ShotPanic l ->
  bc_bound c = false \/ (bc_http2 c = true /\ rs_h2 r = false /\ conn_ok (rs_conn r) = true).
Proof. exact base_shoot_panic_only. Qed.
Print Assumptions C19_gun_panic_only_documented.

(* ScenarioGun.shoot: whatever the responses, preprocessor/template/prepare results and postprocessor results
   (none of which panics), the shot returns; it reports exactly one sample per executed step — steps run up to and
   including the first failing one — each either error-free or the (0, error) sample of reportErr. *)
Theorem C19_scenario_total : forall steps, Forall pps_safe steps ->
  exists l, scenario_shoot true steps = Returned l /\ length l = executed steps /\ Forall sample_ok_or_failure l.
Proof. exact scenario_shoot_total. Qed.
Print Assumptions C19_scenario_total.

(* ... in particular with the modelled postprocessors in any configuration *)
Theorem C19_scenario_total_modelled : forall o (specs : list (pre_cfg * bool * bool * response * list pp_cfg)),
  Forall (fun '(pre, _, _, _, _) => pre_wf pre) specs ->
  let steps := map (fun '(pre, tmpl, prep, r, pps) => mk_step o pre tmpl prep r pps) specs in
  exists l, scenario_shoot true steps = Returned l /\ length l = executed steps /\ Forall sample_ok_or_failure l.
Proof. exact scenario_total_modelled. Qed.
Print Assumptions C19_scenario_total_modelled.

(* the instance goes on with the next ammo: over any history of responses an instance with an http gun (not http2)
   never fails and reports one sample per ammo; with a scenario gun one sample per executed step *)
Theorem C19_instance_survives_http : forall c rs,
  bc_bound c = true -> bc_connect c <> Some false -> bc_http2 c = false ->
  snd (instance_run (map (base_shoot c false) rs)) = false /\
  length (fst (instance_run (map (base_shoot c false) rs))) = length rs.
Proof. exact instance_http_survives. Qed.
Print Assumptions C19_instance_survives_http.

Theorem C19_instance_survives_scenario : forall scenarios,
  Forall (Forall pps_safe) scenarios ->
  snd (instance_run (map (scenario_shoot true) scenarios)) = false /\
  length (fst (instance_run (map (scenario_shoot true) scenarios))) = fold_right (fun st n => (executed st + n)%nat) O scenarios.
Proof. exact instance_scenario_survives. Qed.
Print Assumptions C19_instance_survives_scenario.

(* grpc gun: over any history of call results (unknown method, unfit payload, any status incl. Unavailable from a
   refusing target) the instance never fails and reports one sample per ammo; binding a new instance does not depend
   on the target accepting connections at that moment (non-blocking dial) *)
Theorem C19_instance_survives_grpc : forall rs,
  snd (instance_run (map grpc_shoot rs)) = false /\ length (fst (instance_run (map grpc_shoot rs))) = length rs.
Proof. exact instance_grpc_survives. Qed.
Print Assumptions C19_instance_survives_grpc.

Theorem C19_grpc_bind_ignores_target_state : forall w a b, grpc_bind w a = grpc_bind w b.
Proof. exact grpc_bind_ignores_target. Qed.
Print Assumptions C19_grpc_bind_ignores_target_state.

(* non-vacuity / the inputs of DESIGN.md section 6 #24 on the repaired closure *)
Example C19_example_substr :
  substr_seq {| sb_start := -10; sb_end := 0 |} [[97%N; 98%N; 99%N]] = [Done [97%N; 98%N; 99%N]] /\
  substr_seq {| sb_start := 5; sb_end := 8 |} [[97%N; 98%N; 99%N]] = [Done []] /\
  substr_seq {| sb_start := -1; sb_end := 0 |} [[97%N; 98%N; 99%N]; [97%N; 98%N; 99%N; 100%N; 101%N; 102%N]] = [Done [99%N]; Done [102%N]] /\
  substr_seq {| sb_start := 1; sb_end := 3 |} [[97%N; 98%N; 99%N; 100%N]] = [Done [98%N; 99%N]].
Proof. vm_compute. repeat split. Qed.

Example C19_example_scenario :
  let ok := {| rs_conn := ConnOk; rs_status := 200; rs_body_ok := true; rs_h2 := false |} in
  let cut := {| rs_conn := ConnOk; rs_status := 200; rs_body_ok := false; rs_h2 := false |} in
  let mk_step := mk_step {| go_dump := true; go_trace := true; go_answlog := Some AnswAll; go_debug := true |} in
  scenario_shoot true [mk_step PreNone true true ok [PPHeader [([SSubstr [[53%N]; [56%N]]], [97%N; 98%N; 99%N])]; PPXpath [(true, XNumber)]];
                       mk_step PreNone true true ok []]
  = Returned [{| sm_code := 0; sm_err := true |}] /\
  scenario_shoot true [mk_step PreNone true true ok []; mk_step PreNone true true cut []; mk_step PreNone true true ok []]
  = Returned [{| sm_code := 200; sm_err := false |}; {| sm_code := 0; sm_err := true |}] /\
  (* a later step indexing an EMPTY list the first response delivered: one failed sample, the third step is skipped *)
  scenario_shoot true [mk_step PreNone true true ok []; mk_step (PreIndex INext 0 0 0) true true ok []; mk_step PreNone true true ok []]
  = Returned [{| sm_code := 200; sm_err := false |}; {| sm_code := 0; sm_err := true |}].
Proof. vm_compute. repeat split; reflexivity. Qed.
