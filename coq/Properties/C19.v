(* Property C19 — no response from the target can abort or crash the run. Statements only. *)
From Coq Require Import List ZArith NArith Bool.
From PV Require Import Model.Robust Proofs.RobustProofs.
Import ListNotations.
Local Open Scope Z_scope.

(* C19_substr_safe (full statement): forall st inputs, Forall (fun o => o <> Panicked) (substr_seq st inputs).
   FALSE of the code as it is: *)
Theorem C19_substr_safe_refuted : exists st s, fst (substr_call st s) = Panicked.
Proof. exact substr_refuted. Qed.
Print Assumptions C19_substr_safe_refuted.

Theorem C19_xpath_safe_refuted : exists k, xpath_values true k = Panicked.
Proof. exact xpath_refuted. Qed.
Print Assumptions C19_xpath_safe_refuted.
