(* Property C14 — preload is behaviour-preserving; chosencases selects exactly the listed tags.
   (work in progress) *)
From Coq Require Import List Arith Bool.
From PV Require Import Model.Provider Model.Preload.
Import ListNotations.

Example C14_example :
  let es := [ {| e_tag := 1; e_id := 0 |}; {| e_tag := 2; e_id := 1 |}; {| e_tag := 2; e_id := 2 |} ] in
  ids (delivered (deliver DUri true {| limit := 2; passes := 0; chosen := [2] |} es None 100)) = [1; 2].
Proof. reflexivity. Qed.
