(* Property C14 — preload is behaviour-preserving; chosencases selects exactly the listed tags.

   Statements only; proofs in Proofs/PreloadProofs.v (on top of Proofs/ProviderProofs.v), model in
   Model/Provider.v + Model/Preload.v.  [deliver k preload cfg es cancel fuel] is the http
   provider of decoder kind k (uri, uripost, raw, jsonline stream, jsonline array) with the
   chosencases filter placed where the code places it (streaming: runFullScan after Scan, with
   the provider's own count of delivered ammo; preload: loadAmmo before the cyclic replay).
   Quantified over every kind, file of n >= 1 entries, limit, passes, list of chosen tags
   (empty = no filter, tags that do not occur, repetitions), fuel, cancellation point.
   [c14_const n] = 2n + 4. *)
From Coq Require Import List Arith Bool.
From PV Require Import Model.Provider Model.Preload Proofs.ProviderProofs Proofs.PreloadProofs.
Import ListNotations.

(* With chosencases set exactly the entries whose tag is listed are delivered, in file order,
   cyclically; limit counts delivered entries (the bound is min of the non-zero bounds among
   limit and passes * number of chosen entries); the number of steps is linear in deliveries
   (no rescanning without a delivery). A filter matching nothing delivers nothing and ends with
   "no ammo", sink closed, within c14_const n * (n+1) steps. Holds for preload on and off. *)
Theorem C14_filter : forall k preload es lim pas ch,
  es <> [] ->
  let n := length es in
  let src := chosen_entries ch es in
  let C := c14_const n in
  let runp := deliver k preload (cfgc lim pas ch) es in
  (forall e, In e src <-> In e es /\ (ch = [] \/ In (e_tag e) ch))
  /\ (src <> [] ->
      (forall b fuel, bound lim pas (length src) = Some b -> C * (b + n + 1) < fuel ->
         delivered (runp None fuel) = cyc_prefix src b /\ out (runp None fuel) = Ok /\ closed (runp None fuel) = true)
      /\ (forall cancel fuel,
            delivered (runp cancel fuel) = cyc_prefix src (length (delivered (runp cancel fuel)))
            /\ le_opt (length (delivered (runp cancel fuel))) (bound lim pas (length src))
            /\ steps (runp cancel fuel) <= C * (length (delivered (runp cancel fuel)) + n + 1))
      /\ (bound lim pas (length src) = None -> forall m, exists fuel,
            m <= length (delivered (runp None fuel))))
  /\ (src = [] -> forall cancel fuel, is_cancelled cancel 0 = false ->
      delivered (runp cancel fuel) = [] /\ steps (runp cancel fuel) <= C * (n + 1)
      /\ (C * (n + 1) < fuel -> out (runp cancel fuel) = Failed ENoAmmo /\ closed (runp cancel fuel) = true)).
Proof. exact c14_filter. Qed.
Print Assumptions C14_filter.

(* Preload on = preload off: when the run ends by itself (a bound exists, or nothing matches)
   the delivered sequences, Run's results and the sink states are equal; any two runs deliver
   prefixes of one and the same sequence; cancelled at the same point they deliver the same
   sequence and both return with the sink closed. *)
Theorem C14_equiv : forall k es lim pas ch,
  es <> [] ->
  let n := length es in
  let src := chosen_entries ch es in
  let C := c14_const n in
  let on := deliver k true (cfgc lim pas ch) es in
  let off := deliver k false (cfgc lim pas ch) es in
  (forall b f1 f2, ((src <> [] /\ bound lim pas (length src) = Some b) \/ (src = [] /\ b = n)) ->
     C * (b + n + 1) < f1 -> C * (b + n + 1) < f2 ->
     delivered (on None f1) = delivered (off None f2)
     /\ out (on None f1) = out (off None f2) /\ closed (on None f1) = closed (off None f2))
  /\ (forall c1 c2 f1 f2,
        let a := delivered (on c1 f1) in let b := delivered (off c2 f2) in
        a = firstn (length a) b \/ b = firstn (length b) a)
  /\ (forall j f1 f2, src <> [] -> C * (j + n + 1) < f1 -> C * (j + n + 1) < f2 ->
        delivered (on (Some j) f1) = delivered (off (Some j) f2)
        /\ closed (on (Some j) f1) = true /\ closed (off (Some j) f2) = true
        /\ clean_or_cancelled (out (on (Some j) f1)) /\ clean_or_cancelled (out (off (Some j) f2))).
Proof. exact c14_equiv. Qed.
Print Assumptions C14_equiv.

(* A file without entries (only header or blank lines, or nothing) is outside the quantifier of
   the property (how it is rejected is C13's); the model of the current code says that both paths
   of every kind deliver nothing and fail with "no ammo" (wrapped by loadAmmo for the array form
   with preload), sink closed — so they also end the same way. (A jsonline stream file without
   any JSON value never gets that far: the constructor refuses it, [constructor_refuses].) *)
Theorem C14_empty_file : forall k preload lim pas ch fuel,
  3 <= fuel ->
  let x := deliver k preload (cfgc lim pas ch) [] None fuel in
  delivered x = [] /\ closed x = true
  /\ (out x = Failed ENoAmmo \/ out x = Failed (ELoad ENoAmmo)).
Proof. exact deliver_empty_file. Qed.
Print Assumptions C14_empty_file.

(* Non-vacuity. DESIGN.md section 6 #21: /a y, /b x, /c x, chosen x, limit 2 delivers /b /c on
   both paths (y = tag 1, x = tag 2); interleaved tags stay in file order whatever the order in
   which they are listed; a filter matching nothing ends with "no ammo" on both paths. *)
Example C14_examples :
  let e t i := {| e_tag := t; e_id := i |} in
  ids (delivered (deliver DUri false (cfgc 2 0 [2]) [e 1 0; e 2 1; e 2 2] None 200)) = [1; 2]
  /\ ids (delivered (deliver DUri true (cfgc 2 0 [2]) [e 1 0; e 2 1; e 2 2] None 200)) = [1; 2]
  /\ ids (delivered (deliver DJsonArr false (cfgc 0 1 [2; 1; 2]) [e 1 0; e 2 1; e 1 2; e 2 3; e 3 4] None 200)) = [0; 1; 2; 3]
  /\ ids (delivered (deliver DJsonArr true (cfgc 0 1 [2; 1; 2]) [e 1 0; e 2 1; e 1 2; e 2 3; e 3 4] None 200)) = [0; 1; 2; 3]
  /\ out (deliver DRaw false (cfgc 0 0 [9]) [e 1 0; e 2 1] None 200) = Failed ENoAmmo
  /\ out (deliver DRaw true (cfgc 0 0 [9]) [e 1 0; e 2 1] None 200) = Failed ENoAmmo.
Proof. repeat split; reflexivity. Qed.
