From Coq Require Import List.
Theorem C13_placeholder : True. Proof. exact I. Qed.
