(* Property C13 — malformed input is rejected, never crashes, never hangs, never alters earlier
   well-formed entries. Statements only; proofs in Proofs/AmmoSafetyProofs.v,
   Proofs/AmmoPrefixProofs.v, Proofs/AmmoRobustProofs.v, Proofs/AmmoConfigInputProofs.v,
   Proofs/AmmoJsonRejectProofs.v, Proofs/AmmoVarSourceProofs.v,
   Proofs/AmmoConfigValueProofs.v, Proofs/AmmoHostileConfigProofs.v. Every theorem about a decoder
   quantifies over ALL byte strings (no well-formedness hypothesis) and over the third-party
   parser oracles. *)
From Coq Require Import List NArith ZArith Bool.
From PV Require Import Lib.AmmoBytes Lib.AmmoDecimal Lib.AmmoLines Model.AmmoCommon Model.AmmoUri
  Model.AmmoUripost Model.AmmoRaw Model.AmmoJson Model.AmmoRobust Model.AmmoConfigInput Model.AmmoJsonReject Model.AmmoVarSource Model.AmmoConfigValue Model.AmmoHostileConfig Model.AmmoCliConfig
  Proofs.AmmoSafetyProofs Proofs.AmmoPrefixProofs Proofs.AmmoRobustProofs Proofs.AmmoConfigInputProofs
  Proofs.AmmoJsonRejectProofs Proofs.AmmoVarSourceProofs Proofs.AmmoConfigValueProofs Proofs.AmmoHostileConfigProofs Proofs.AmmoCliConfigProofs.
Import ListNotations.

(* [bad r] = the Scan ended in a panic or ran out of fuel. The fuel of every loop is linear
   in the input: the structural pass over the scanned lines (uri), length+1 ReadString chunks
   (uripost, raw) and at most one wrap-around per Scan. *)

Theorem C13_no_panic_terminates_uri :
  forall url_parse maxtok c k (file : bytes),
    Forall (fun r => bad r = false) (uri_decode url_parse maxtok c k file).
Proof. exact uri_decode_safe. Qed.
Print Assumptions C13_no_panic_terminates_uri.

(* uripost: for every reachable or unreachable decoder state; with it, C13_alloc_bounded:
   every allocation sized by the input is at most max(1 MiB, bytes of input left) *)
Theorem C13_no_panic_terminates_alloc_uripost :
  forall url_parse k c (s : pstate),
    Forall (fun ra => bad (fst ra) = false /\ alloc_ok (snd ra)) (up_run url_parse k c s).
Proof. exact up_run_safe. Qed.
Print Assumptions C13_no_panic_terminates_alloc_uripost.

Theorem C13_no_panic_terminates_alloc_raw :
  forall k c (file : bytes),
    Forall (fun ra => bad (fst ra) = false /\ alloc_ok (snd ra)) (raw_run k c (raw_init file)).
Proof. exact raw_decode_safe. Qed.
Print Assumptions C13_no_panic_terminates_alloc_raw.

Theorem C13_no_panic_terminates_json :
  forall url_parse c k (ents : list entity) (e : jend) (es : list entry) a p,
    Forall (fun r => bad r = false) (json_stream_decode url_parse c k ents e) /\
    Forall (fun r => bad r = false) (array_run k c es a p).
Proof. intros. split; [apply json_stream_safe|apply array_run_safe]. Qed.
Print Assumptions C13_no_panic_terminates_json.

(* the body reader itself: never a panic, the allocation bounded, for every size and input *)
Theorem C13_alloc_bounded :
  forall (size : Z) (rest : bytes),
    alloc_read size rest <> APanic /\
    match alloc_read size rest with
    | AOk _ _ a | AShort a => (a <= N.max max_prealloc (nlen rest))%N
    | _ => True
    end.
Proof. intros. split; [apply alloc_read_no_panic|apply alloc_read_bound]. Qed.
Print Assumptions C13_alloc_bounded.

(* a well-formed file (final newline) followed by ANY tail: the first deliveries are exactly
   the entries of the well-formed part *)
Theorem C13_prefix_preserved_uri :
  forall url_parse maxtok (items : list (uitem * lay)) (tail : bytes) (k : nat),
    forallb (wf_uitem url_parse maxtok) items = true ->
    (k <= length (uri_entries (map fst items) []))%nat ->
    uri_decode url_parse maxtok cfg0 k (render_uri items true ++ tail) =
      map SDeliver (firstn k (uri_entries (map fst items) [])).
Proof. exact uri_prefix_preserved. Qed.
Print Assumptions C13_prefix_preserved_uri.

Theorem C13_prefix_preserved_uripost :
  forall url_parse (items : list (pitem * lay)) (tail : bytes) (k : nat),
    forallb (wf_pitem url_parse) items = true ->
    (k <= length (uripost_entries (map fst items) []))%nat ->
    uripost_decode url_parse cfg0 k (render_uripost items true ++ tail) =
      map SDeliver (firstn k (uripost_entries (map fst items) [])).
Proof. exact uripost_prefix_preserved. Qed.
Print Assumptions C13_prefix_preserved_uripost.

Theorem C13_prefix_preserved_raw :
  forall (items : list (ritem * lay)) (tail : bytes) (k : nat),
    forallb wf_ritem items = true ->
    (k <= length (raw_entries (map fst items)))%nat ->
    raw_decode cfg0 k (render_raw items true ++ tail) =
      map SDeliver (firstn k (raw_entries (map fst items))).
Proof. exact raw_prefix_preserved. Qed.
Print Assumptions C13_prefix_preserved_raw.

(* scenario request lists: ParseShootName and convertScenarioToAmmo never panic (a leading
   sleep() is an error); every allocation is a count written in the input *)
Theorem C13_no_panic_scenario_requests :
  forall known (reqs : list bytes) acc allocs,
    (forall s, parse_shoot_name s <> VPanic) /\ convert known reqs acc allocs <> VPanic.
Proof. intros. split; [apply parse_shoot_name_no_panic|apply convert_no_panic]. Qed.
Print Assumptions C13_no_panic_scenario_requests.

Theorem C13_scenario_allocs_are_input_counts :
  forall known reqs acc allocs steps allocs',
    convert known reqs acc allocs = VOk (steps, allocs') ->
    exists extra, allocs' = allocs ++ extra /\
      Forall (fun n => exists sh name sl, In sh reqs /\ parse_shoot_name sh = VOk (name, n, sl) /\ (0 < n)%Z) extra.
Proof. exact convert_allocs. Qed.
Print Assumptions C13_scenario_allocs_are_input_counts.

(* the count is not bounded by anything but the text: the full "allocation bounded" statement
   is refuted for this component (known finding: name(999999999999)) *)
Theorem C13_scenario_alloc_bounded_refuted :
  exists reqs steps allocs,
    convert (fun _ => true) reqs [] [] = VOk (steps, allocs) /\ In 999999999999%Z allocs /\
    (length (concat reqs) <= 16)%nat.
Proof.
  exists [[97; 40; 57; 57; 57; 57; 57; 57; 57; 57; 57; 57; 57; 57; 41]%N]. eexists. eexists.
  split; [vm_compute; reflexivity|]. split; [left; reflexivity|vm_compute; repeat constructor].
Qed.
Print Assumptions C13_scenario_alloc_bounded_refuted.

(* scenario weights: a makeslice failure can only come from an absurd total (negative weights
   are rejected at decode time, the gcd is positive, the copies are non-negative) *)
Theorem C13_weights_panic_only_if_huge :
  forall ws, spread_counts ws = VPanic ->
    exists g cs, (0 < g)%Z /\ Forall (fun c => (0 <= c)%Z) cs /\ (max_alloc < 8 * fold_left Z.add cs 0)%Z.
Proof. exact spread_counts_panic. Qed.
Print Assumptions C13_weights_panic_only_if_huge.

(* index arithmetic of mp.GetMapValue: for every index text, every list length, every
   iterator value: no panic, and a returned index is inside the list *)
Theorem C13_no_panic_index :
  forall idx len nxt rnd,
    (0 <= len)%Z -> (0 <= nxt)%Z -> ((0 < len)%Z -> (0 <= rnd < len)%Z) ->
    idx_ok len (extract_index idx len nxt rnd).
Proof. exact extract_index_safe. Qed.
Print Assumptions C13_no_panic_index.

Theorem C13_no_panic_property :
  forall file_lines inp, property_resolve file_lines inp <> VPanic.
Proof. exact property_resolve_no_panic. Qed.
Print Assumptions C13_no_panic_property.

Theorem C13_no_panic_rand_string :
  forall n, (4 * n <= max_alloc)%Z -> rand_string_alloc n <> VPanic.
Proof. exact rand_string_alloc_safe. Qed.
Print Assumptions C13_no_panic_rand_string.

(* templater.randInt: for all int64 arguments no panic; a value is between the bounds (an empty
   range is that number, (0,0) means 0..9, a width beyond int64 is an error) *)
Theorem C13_no_panic_rand_int :
  forall f t, (min_int <= f <= max_int)%Z -> (min_int <= t <= max_int)%Z ->
    match rand_int_range f t with
    | VPanic => False
    | VErr => True
    | VOk (lo, w) => (0 < w /\ Z.min f t <= lo /\ lo + w - 1 <= Z.max (Z.max f t) 10)%Z
    end.
Proof. exact rand_int_range_safe. Qed.
Print Assumptions C13_no_panic_rand_int.

(* MultiPassReader: a Read that returns (0, nil) is always followed by a Read that returns data
   or io.EOF: consumers cannot spin *)
Theorem C13_multipass_progress :
  forall len limit m s, (0 < m)%Z ->
    let '(n1, e1, s1) := mp_read len limit m s in
    n1 = 0%Z -> e1 = false ->
    let '(n2, e2, _) := mp_read len limit m s1 in (0 < n2)%Z \/ e2 = true.
Proof. exact mp_read_progress. Qed.
Print Assumptions C13_multipass_progress.

(* grpc/json: the pass loop never repeats without delivering *)
Theorem C13_grpcjson_no_spin :
  forall unmarshal continue_on_error maxtok k (file : bytes),
    ~ In GSpin (grpc_decode unmarshal continue_on_error maxtok k file).
Proof.
  intros um ce maxtok k file. unfold grpc_decode. destruct (scan_lines maxtok file) as [ls e].
  apply grpc_run_no_spin.
Qed.
Print Assumptions C13_grpcjson_no_spin.

(* ---------- the `headers` list of the http provider config ----------
   [wf_header_entry h]: h = "[" k ":" v "]" with no colon in k and a name k that is not blank (the
   documented form).  DecodeHeader accepts exactly these; the executable specification used by
   the correspondence run ([header_entry_okb], written from the text with cut/trim) says the same. *)
Theorem C13_config_header_entry_spec :
  forall h, (header_entry_okb h = true <-> wf_header_entry h) /\
            ((exists kv, decode_header h = inl kv) <-> wf_header_entry h).
Proof. intros h. split; [apply header_entry_okb_iff|apply decode_header_accepts_iff]. Qed.
Print Assumptions C13_config_header_entry_spec.

(* a malformed entry is rejected with an error at ANY position of the list: after any number of
   well-formed entries, before any entries at all (these cannot overwrite the error); the error is
   that of the first malformed entry *)
Theorem C13_config_headers_rejected_at_any_position :
  forall (a : list bytes) (bad : bytes) (b : list bytes) acc,
    Forall wf_header_entry a -> ~ wf_header_entry bad ->
    exists e, decode_header bad = inr e /\ config_headers (a ++ bad :: b) acc = inr e.
Proof. exact config_headers_rejects_at. Qed.
Print Assumptions C13_config_headers_rejected_at_any_position.

(* the list is accepted exactly when every entry is well-formed; provider construction fails
   exactly when the executable specification rejects the list *)
Theorem C13_config_headers_accepted_iff_all_wellformed :
  forall hs acc url_host,
    ((exists m, config_headers hs acc = inl m) <-> Forall wf_header_entry hs) /\
    (provider_new_headers url_host hs = NewErr <-> header_list_okb hs = false).
Proof. intros. split; [apply config_headers_ok_iff|apply provider_new_headers_spec]. Qed.
Print Assumptions C13_config_headers_accepted_iff_all_wellformed.

(* an accepted list loses no entry: the value of every entry is among the values of its key *)
Theorem C13_config_headers_none_lost :
  forall hs m, config_headers hs [] = inl m ->
    forall h k v, In h hs -> decode_header h = inl (k, v) ->
      exists vs, In (canon_key k, vs) m /\ In v vs.
Proof. exact config_headers_none_lost. Qed.
Print Assumptions C13_config_headers_none_lost.

(* ---------- the scenario description file: every format validates the weights ----------
   ReadAmmoConfig dispatches on the extension; the HCL path (ParseHCLFile, ConvertHCLToAmmo) and
   the YAML path (ParseAmmoConfig) both end in DecodeMap: a negative weight is an error for
   .hcl, .yaml and .yml alike (any other extension is an error anyway) *)
Theorem C13_negative_weight_rejected_in_every_format :
  forall f ws, (exists w, In w ws /\ (w < 0)%Z) -> scenario_weights f ws = VErr.
Proof. exact scenario_weights_negative. Qed.
Print Assumptions C13_negative_weight_rejected_in_every_format.

Theorem C13_scenario_file_panic_only_if_huge :
  forall f ws, scenario_weights f ws = VPanic ->
    exists g cs, (0 < g)%Z /\ Forall (fun c => (0 <= c)%Z) cs /\ (max_alloc < 8 * fold_left Z.add cs 0)%Z.
Proof. exact scenario_weights_panic. Qed.
Print Assumptions C13_scenario_file_panic_only_if_huge.

(* the two parsers agree on every weight list, and the request list of a scenario never panics
   whatever the format of the description *)
Theorem C13_scenario_formats_agree :
  forall f g ws known reqs, f <> FOther -> g <> FOther ->
    scenario_weights f ws = scenario_weights g ws /\ scenario_requests f known reqs <> VPanic.
Proof. intros. split; [apply scenario_formats_agree; assumption|apply scenario_requests_no_panic]. Qed.
Print Assumptions C13_scenario_formats_agree.

(* the validation is what keeps SpreadNames / decodeAmmo safe: without it the statement is false
   (weights -3 and 1: total -2, makeslice panics) *)
Theorem C13_unvalidated_weights_refuted :
  exists ws, spread_raw ws = VPanic /\ (length ws <= 2)%nat /\ Forall (fun w => (-3 <= w <= 1)%Z) ws.
Proof.
  exists [(-3)%Z; 1%Z]. split; [vm_compute; reflexivity|]. split; [cbn; auto|].
  repeat constructor; cbv; discriminate.
Qed.
Print Assumptions C13_unvalidated_weights_refuted.

(* non-vacuity of the hypotheses above, evaluated in the model *)
Example C13_config_examples :
  (* "[Host: a]" "[X b]" "[Y: c]": the middle entry has no colon: an error although a well-formed entry follows *)
  config_headers [[91;72;111;115;116;58;32;97;93]; [91;88;32;98;93]; [91;89;58;32;99;93]]%N [] = inr EHeaderFormat /\
  header_list_okb [[91;72;111;115;116;58;32;97;93]; [91;88;32;98;93]; [91;89;58;32;99;93]]%N = false /\
  (* "[x-a: 1]" "[X-A:2]" "[host: h]": accepted; both values under the canonical key, Host moved *)
  provider_new_headers [] [[91;120;45;97;58;32;49;93]; [91;88;45;65;58;50;93]; [91;104;111;115;116;58;32;104;93]]%N
    = NewOk [104]%N [([88;45;65]%N, [[49]%N; [50]%N])] /\
  wf_header_entry [91;89;58;32;99;93]%N /\ ~ wf_header_entry [91;88;32;98;93]%N /\
  (* weights -3 and 1 in an .hcl file: an error, not a panic *)
  scenario_weights FHcl [(-3)%Z; 1%Z] = VErr /\ scenario_weights FYml [2%Z; 4%Z] = VOk [1%Z; 2%Z].
Proof.
  repeat split; try (vm_compute; reflexivity).
  - apply header_entry_okb_iff. vm_compute. reflexivity.
  - intros H. apply header_entry_okb_iff in H. vm_compute in H. discriminate.
Qed.

(* non-vacuity / regression witnesses of the repaired defects, evaluated in the model *)
Definition ex_url13 (u : bytes) : option (bytes * bytes) := Some (u, []).
Example C13_examples :
  (* "-5 tag\n..." : rejected, not a panic *)
  raw_decode cfg0 2 [45; 53; 32; 116; 10; 71; 10]%N = [SErr EBadSize] /\
  (* "99999999999 /a t\nabc\n": short read, and the allocation stays small *)
  map snd (up_run ex_url13 1 cfg0 (up_init [57;57;57;57;57;57;57;57;57;57;57;32;47;97;32;116;10;97;98;99;10]%N))
    = [Some (1048576, 4)%N] /\
  (* sleep(10) first: an error *)
  convert (fun _ => true) [[115;108;101;101;112;40;49;48;41]%N; [97]%N] [] [] = VErr /\
  (* users[next] on an empty list: an error *)
  extract_index NEXT 0 0 0 = VErr /\
  (* ${property:/file} without #key: an error *)
  property_resolve (fun _ => Some []) [47; 102]%N = VErr /\
  (* an empty source ends with io.EOF at the first Read *)
  mp_reads 2 0 0 16 {| mp_pos := 0; mp_passes := 0; mp_read_in_pass := false |} = [(0%Z, true); (0%Z, true)].
Proof. repeat split; vm_compute; reflexivity. Qed.

(* ---------- round 6: http/json entries that are JSON but not entries ---------- *)

(* the specification of an entity (method empty or a token, "http://" ++ host ++ uri a URL) is exactly what
   the decoder accepts, for every url parser *)
Theorem C13_json_entity_spec :
  forall url_parse (d : entity),
    entity_okb url_parse d = true <-> exists e, entity_entry url_parse d = inl e.
Proof. exact entity_spec. Qed.
Print Assumptions C13_json_entity_spec.

(* line form, streaming: for EVERY list of entities with a malformed one, whatever follows it and however
   the stream ends: the provider delivers exactly the entries in front of the first malformed entity and
   then fails (as long as Limit does not stop the run before it is reached) *)
Theorem C13_json_malformed_entity_rejected_stream :
  forall url_parse (ents : list entity) (e : jend) (limit passes : N) (k : nat),
    entities_okb url_parse ents = false ->
    (length (good_prefix url_parse ents) < k)%nat ->
    (limit = 0%N \/ (length (good_prefix url_parse ents) < N.to_nat limit)%nat) ->
    exists es er, read_array url_parse (good_prefix url_parse ents) = Some es /\
      length es = length (good_prefix url_parse ents) /\
      json_provider url_parse false limit passes k (JFStream e) ents = Some (map SDeliver es ++ [SErr er]).
Proof. exact stream_malformed_rejected. Qed.
Print Assumptions C13_json_malformed_entity_rejected_stream.

(* with preload the whole file is refused: Run fails, nothing is delivered *)
Theorem C13_json_malformed_entity_rejected_preload :
  forall url_parse (ents : list entity) (e : jend) (limit passes : N) (k : nat),
    entities_okb url_parse ents = false ->
    exists er, json_provider url_parse true limit passes k (JFStream e) ents = Some [SErr er].
Proof. exact preload_malformed_rejected. Qed.
Print Assumptions C13_json_malformed_entity_rejected_preload.

(* array form: the constructor fails exactly when an element is malformed, at any position *)
Theorem C13_json_array_accepted_iff_all_wellformed :
  forall url_parse (ents : list entity) pre limit passes k,
    (entities_okb url_parse ents = false -> json_provider url_parse pre limit passes k JFArray ents = None) /\
    (entities_okb url_parse ents = true -> json_provider url_parse pre limit passes k JFArray ents <> None).
Proof. intros. split; [apply array_malformed_rejected|apply array_wellformed_accepted]. Qed.
Print Assumptions C13_json_array_accepted_iff_all_wellformed.

(* the provider model (construction, LoadAmmo, runPreloaded, runFullScan) never panics or runs out of fuel *)
Theorem C13_json_provider_no_panic :
  forall url_parse pre limit passes k form (ents : list entity) rs,
    json_provider url_parse pre limit passes k form ents = Some rs ->
    Forall (fun r => bad r = false) rs.
Proof. exact json_provider_safe. Qed.
Print Assumptions C13_json_provider_no_panic.

(* non-vacuity: a url parser that refuses a space; {host "a b"} between two good entities *)
Definition ex_url_nospace (u : bytes) : option (bytes * bytes) :=
  if has 32%N u then None else Some (u, []).
Definition ex_ent (host : bytes) : entity :=
  {| j_host := host; j_method := GET; j_uri := [47]%N; j_headers := []; j_tag := []; j_body := [] |}.
Example C13_json_examples :
  let ents := [ex_ent [97]%N; ex_ent [97; 32; 98]%N; ex_ent [99]%N] in
  entities_okb ex_url_nospace ents = false /\
  length (good_prefix ex_url_nospace ents) = 1%nat /\
  (exists e1, json_provider ex_url_nospace false 0 0 5 (JFStream JEof) ents = Some [SDeliver e1; SErr EUrlParse]) /\
  json_provider ex_url_nospace true 0 0 5 (JFStream JEof) ents = Some [SErr EUrlParse] /\
  json_provider ex_url_nospace false 0 0 5 JFArray ents = None /\
  (exists e1 e3, json_provider ex_url_nospace true 3 0 5 (JFStream JEof) [ex_ent [97]%N; ex_ent [99]%N]
     = Some [SDeliver e1; SDeliver e3; SDeliver e1; SAmmoLimit]).
Proof.
  repeat split; try (vm_compute; reflexivity).
  - eexists. vm_compute. reflexivity.
  - eexists. eexists. vm_compute. reflexivity.
Qed.

(* ---------- round 6: the file/csv variable source of a scenario description ---------- *)

(* for EVERY field list of the description (shorter, equal, longer than the records), every list of records
   the csv reader yields (also ragged ones, also records without fields), with or without a reading error,
   file present or not: initialising the source does not panic *)
Theorem C13_csv_source_no_panic :
  forall file_exists (fields : list bytes) ignore_first (recs : list (list bytes)) ends_in_error,
    csv_source file_exists fields ignore_first recs ends_in_error <> VPanic.
Proof. exact csv_source_no_panic. Qed.
Print Assumptions C13_csv_source_no_panic.

(* what the statement rests on: the same loop without the `i >= len(record)` guard panics as soon as the
   description names more fields than the file has columns *)
Theorem C13_csv_source_unguarded_refuted :
  exists (fields : list bytes) (recs : list (list bytes)),
    read_csv false fields false recs false [] = VPanic /\
    read_csv true fields false recs false [] <> VPanic.
Proof.
  exists [[97]; [98]; [99]]%N, [[[120]; [121]]]%N. split; [vm_compute; reflexivity|apply read_csv_no_panic].
Qed.
Print Assumptions C13_csv_source_unguarded_refuted.

(* the outcome is the specification: a reading error anywhere is the error of the source; otherwise one row
   per record that is not skipped, built by the total function [row_spec] *)
Theorem C13_csv_source_is_spec :
  forall (fields : list bytes) ignore_first (recs : list (list bytes)) ends_in_error,
    Forall (fun rc : list bytes => rc <> []) recs ->
    csv_source true fields ignore_first recs ends_in_error =
      if ends_in_error then VErr else VOk (rows_spec fields ignore_first recs).
Proof. exact csv_source_rows. Qed.
Print Assumptions C13_csv_source_is_spec.

(* a missing column reads as the empty string, a present one as itself (for a key no later field re-uses) *)
Theorem C13_csv_row_missing_column_reads_empty :
  forall (fields record : list bytes) j f,
    nth_error fields j = Some f ->
    (forall j' f', (j < j')%nat -> nth_error fields j' = Some f' ->
                   beq (field_key j f) (field_key j' f') = false) ->
    hget (field_key j f) (row_spec fields 0 record []) = Some (nth j record []).
Proof. exact row_spec_value. Qed.
Print Assumptions C13_csv_row_missing_column_reads_empty.

(* the constructor initialises the sources in order: it panics only if a source does *)
Theorem C13_variable_sources_no_panic :
  forall srcs, Forall (fun s : rres (list vrow) => s <> VPanic) srcs -> init_sources srcs <> VPanic.
Proof. exact init_sources_no_panic. Qed.
Print Assumptions C13_variable_sources_no_panic.

Example C13_csv_examples :
  (* fields a, b, c over the two-column records x,y and 1,2; first line ignored: one row, c reads as "" *)
  csv_source true [[97]; [98]; [99]]%N true [[[120]; [121]]; [[49]; [50]]]%N false
    = VOk [[([97], [49]); ([98], [50]); ([99], [])]]%N /\
  (* no field list: names from the first record ("user id" -> "user_id"), an empty name is the column index *)
  csv_source true [] false [[[117; 32; 105]; []]]%N false = VOk [[([117; 95; 105], [117; 32; 105]); ([49], [])]]%N /\
  (* reading error after a good record: the error of the source *)
  csv_source true [[97]]%N false [[[120]]]%N true = VErr /\
  csv_source false [[97]]%N false [] false = VErr.
Proof. repeat split; vm_compute; reflexivity. Qed.

(* ---------- round 6: a configuration value given through a placeholder, cast to an integer field ---------- *)

(* whatever is accepted is the number written and lies in the range of the field's type *)
Theorem C13_config_value_cast_exact :
  forall unsigned (bits z r : Z),
    cast_int unsigned bits z = Some r ->
    r = z /\ (if unsigned then (0 <= r < 2 ^ bits)%Z else (- 2 ^ (bits - 1) <= r < 2 ^ (bits - 1))%Z).
Proof. exact cast_int_exact. Qed.
Print Assumptions C13_config_value_cast_exact.

(* unsigned field: accepted exactly for the numbers of the type's range, so never for a negative one *)
Theorem C13_config_value_unsigned_accepts_iff_in_range :
  forall bits z : Z, (exists r, cast_int true bits z = Some r) <-> (0 <= z < 2 ^ bits)%Z.
Proof. exact cast_int_unsigned_iff. Qed.
Print Assumptions C13_config_value_unsigned_accepts_iff_in_range.

(* the former code (ParseInt, then the conversion to the unsigned type) accepted -1 as 255: the defect repaired
   in /repo df402fa *)
Theorem C13_config_value_wrapping_refuted :
  exists z r : Z, cast_int_wrapping true 8 z = Some r /\ r <> z /\ cast_int true 8 z = None.
Proof. exists (-1)%Z, 255%Z. repeat split; try (vm_compute; reflexivity). discriminate. Qed.
Print Assumptions C13_config_value_wrapping_refuted.

Example C13_config_value_examples :
  cast_int true 8 200 = Some 200%Z /\ cast_int true 8 300 = None /\ cast_int false 8 200 = None /\
  cast_int true 64 18446744073709551615 = Some 18446744073709551615%Z /\ cast_int false 64 (-1) = Some (-1)%Z.
Proof. repeat split; vm_compute; reflexivity. Qed.

(* ---------- round 7: hostile numeric options of a provider, descriptions that are not HCL / YAML at all ---------- *)

(* the http providers (uri, uripost, raw, http/json) for EVERY value of limit / passes / maxammosize the config
   decoder can hand over: construction never panics and reserves no memory from those numbers *)
Theorem C13_http_provider_options_no_panic :
  forall limit passes max : Z,
    http_provider_opts false limit passes max <> VPanic /\
    (forall n, http_provider_opts false limit passes max = VOk n -> n = 0%Z).
Proof. exact (fun l p m => conj (http_provider_opts_no_panic l p m) (http_provider_opts_reserves_nothing l p m)). Qed.
Print Assumptions C13_http_provider_options_no_panic.

(* a negative limit or passes is rejected by every provider: unsigned fields (http/*, */scenario) and the
   validated int fields of grpc/json *)
Theorem C13_negative_limit_or_passes_rejected :
  forall (f : ofield) (z : Z), f <> OInt -> (z < 0)%Z -> opt_accept f z = None.
Proof. exact opt_accept_negative_rejected. Qed.
Print Assumptions C13_negative_limit_or_passes_rejected.

Theorem C13_provider_rejects_negative_limit_or_passes :
  forall unmarshal cont (limit passes max : Z) k file,
    (limit < 0 \/ passes < 0)%Z ->
    http_provider_opts false limit passes max = VErr /\
    grpc_provider unmarshal cont limit passes max k file = None.
Proof.
  exact (fun u c l p m k f H => conj (http_provider_opts_negative_rejected l p m H)
                                      (grpc_provider_negative_rejected u c l p m k f H)).
Qed.
Print Assumptions C13_provider_rejects_negative_limit_or_passes.

(* an accepted option value is the number written *)
Theorem C13_option_value_exact :
  forall f z v, opt_accept f z = Some v -> v = z /\ (int_min <= z <= uint_max)%Z.
Proof. exact opt_accept_exact. Qed.
Print Assumptions C13_option_value_exact.

(* the same scanner set up with a buffer ALLOCATED from the option (make([]byte, 0, max)) panics for every
   negative and every absurdly large value: the statement above is false of that code *)
Theorem C13_scanner_buffer_from_option_refuted :
  forall max : Z, (max < 0 \/ max_alloc < max)%Z -> max <> 0%Z -> scanner_setup true max = VPanic.
Proof. exact scanner_setup_prealloc_panics. Qed.
Print Assumptions C13_scanner_buffer_from_option_refuted.

(* grpc/json, negative maxammosize: an error at once for every file, nothing delivered, no panic *)
Theorem C13_grpcjson_negative_max_ammo_size :
  forall unmarshal cont (limit passes max : Z) k file rs,
    (max < 0)%Z -> grpc_provider unmarshal cont limit passes max (S k) file = Some rs -> rs = [PErr].
Proof. exact grpc_provider_negative_max. Qed.
Print Assumptions C13_grpcjson_negative_max_ammo_size.

(* grpc/json, EVERY maxammosize (any sign, any magnitude), limit and passes: the lines in front of the first line
   the limit refuses are delivered exactly as under the default limit — a too-long line or a hostile limit never
   alters how the entries before it are delivered *)
Theorem C13_grpcjson_max_ammo_size_keeps_prefix :
  forall unmarshal cont (limit passes max : Z) m (a b : list bytes) k,
    scan_limit max = Some m ->
    forallb (fun l => N.ltb (nlen l) m) a = true ->
    forallb (fun l => N.ltb (nlen l) max_token) a = true ->
    (k <= length a)%nat ->
    (let '(ls, e) := cap_lines m (a ++ b) in grpc_run_opts unmarshal cont limit passes k ls e 0 1 ls) =
    (let '(ls, e) := cap_lines max_token (a ++ b) in grpc_run_opts unmarshal cont limit passes k ls e 0 1 ls).
Proof. exact grpc_max_ammo_size_prefix. Qed.
Print Assumptions C13_grpcjson_max_ammo_size_keeps_prefix.

(* the pass loop with Limit / Passes / MaxAmmoSize never produces more than it was asked for (each step of the
   model is one Acquire: no pass repeats without delivering) *)
Theorem C13_grpcjson_options_no_spin :
  forall unmarshal cont (limit passes : Z) k all e ammo pass left,
    (length (grpc_run_opts unmarshal cont limit passes k all e ammo pass left) <= k)%nat.
Proof. exact grpc_run_opts_length. Qed.
Print Assumptions C13_grpcjson_options_no_spin.

(* a description the HCL parser reports errors for is rejected — whatever the error-recovering parser returned
   as the file, whatever the later stages would make of it; the same for a text yaml.Unmarshal refuses *)
Theorem C13_syntax_error_rejected :
  forall (A : Type) (hcl : bytes -> hcl_parse A) yaml decode text,
    (hp_errors (hcl text) = true -> read_description A true FHcl hcl yaml decode text = VErr) /\
    (forall f, f = FYaml \/ f = FYml -> yaml text = None -> read_description A true f hcl yaml decode text = VErr).
Proof.
  exact (fun A hcl yaml decode text => conj (hcl_syntax_error_rejected A hcl yaml decode text)
                                            (fun f => yaml_syntax_error_rejected A f hcl yaml decode text)).
Qed.
Print Assumptions C13_syntax_error_rejected.

Theorem C13_hcl_accepted_iff_syntax_ok_and_decoded :
  forall (A : Type) (hcl : bytes -> hcl_parse A) yaml decode text cs,
    read_description A true FHcl hcl yaml decode text = VOk cs <->
    hp_errors (hcl text) = false /\ exists a, hp_file (hcl text) = Some a /\ decode a = VOk cs.
Proof. exact hcl_accepted_iff. Qed.
Print Assumptions C13_hcl_accepted_iff_syntax_ok_and_decoded.

Theorem C13_description_syntax_stage_no_panic :
  forall (A : Type) f (hcl : bytes -> hcl_parse A) yaml decode text,
    (forall t, hp_errors (hcl t) = false -> hp_file (hcl t) <> None) ->
    (forall a, decode a <> VPanic) ->
    read_description A true f hcl yaml decode text <> VPanic.
Proof. exact read_description_no_panic. Qed.
Print Assumptions C13_description_syntax_stage_no_panic.

(* with the nil check in place of the diagnostics the statement is false *)
Theorem C13_hcl_nil_check_refuted :
  exists (hcl : bytes -> hcl_parse unit) text,
    hp_errors (hcl text) = true /\
    read_description unit false FHcl hcl (fun _ => None) (fun _ => VOk [1%Z]) text = VOk [1%Z].
Proof. exact hcl_nil_check_refuted. Qed.
Print Assumptions C13_hcl_nil_check_refuted.

Example C13_hostile_config_examples :
  (* maxammosize -1 / MaxInt64 on an http provider: constructed, nothing reserved; as a preallocated buffer: panic *)
  http_provider_opts false 0 0 (-1) = VOk 0%Z /\ http_provider_opts false 0 0 9223372036854775807 = VOk 0%Z /\
  http_provider_opts true 0 0 (-1) = VPanic /\ http_provider_opts true 0 0 9223372036854775807 = VPanic /\
  http_provider_opts true 0 0 4096 = VOk 4096%Z /\
  (* limit -1: rejected; limit 2^64: rejected; 2^64 - 1: accepted *)
  http_provider_opts false (-1) 0 0 = VErr /\ http_provider_opts false 18446744073709551616 0 0 = VErr /\
  http_provider_opts false 18446744073709551615 0 0 = VOk 0%Z /\
  (* grpc/json on the lines "ab", "abcdef": maxammosize 3 admits the first line only; 7 both; passes 1 ends the run *)
  grpc_provider (fun l => Some (l, [])) false 0 0 3 4 [97; 98; 10; 97; 98; 99; 100; 101; 102; 10]%N
    = Some [PDeliver [97; 98]%N []; PErr] /\
  grpc_provider (fun l => Some (l, [])) false 0 1 7 4 [97; 98; 10; 97; 98; 99; 100; 101; 102; 10]%N
    = Some [PDeliver [97; 98]%N []; PDeliver [97; 98; 99; 100; 101; 102]%N []; PDone] /\
  grpc_provider (fun l => Some (l, [])) false 1 0 0 4 [97; 98; 10; 97; 98; 99; 100; 101; 102; 10]%N
    = Some [PDeliver [97; 98]%N []; PDone] /\
  grpc_provider (fun l => Some (l, [])) false 0 0 (-5) 4 [97; 98; 10]%N = Some [PErr] /\
  grpc_provider (fun l => Some (l, [])) false (-1) 0 0 4 [97; 98; 10]%N = None.
Proof. repeat split; vm_compute; reflexivity. Qed.

(* ---------- round 8 (second part): an entry the line scanner refuses (grpc/json) ----------
   Model/AmmoHostileConfig.v (4): [refused_spec] = the specification of a run over a file whose next line the
   scanner refuses (longer than MaxAmmoSize / 64 KiB), [grpc_run_ord] = the pass loop with the ORDER of the
   checks behind the line loop as a parameter. *)

(* on a file with a refused entry the pass loop IS the specification — for every Passes, every pass counter,
   every start of a pass: the refused entry ends the run with an error, it is never skipped, the file is never
   rewound over it and Passes can not turn the error into a successful end *)
Theorem C13_grpcjson_refused_entry_run_is_spec :
  forall unmarshal cont (limit passes : Z) k all ammo pass left,
    grpc_run_opts unmarshal cont limit passes k all STooLong ammo pass left =
    firstn k (refused_spec unmarshal cont limit ammo left).
Proof. exact grpc_refused_run. Qed.
Print Assumptions C13_grpcjson_refused_entry_run_is_spec.

(* the provider as the plugin factory builds it, for every accepted option triple and every file *)
Theorem C13_grpcjson_provider_refused_entry :
  forall unmarshal cont (limit passes max l p m : Z) a k file,
    opt_accept OIntMin0 limit = Some l -> opt_accept OIntMin0 passes = Some p -> opt_accept OInt max = Some m ->
    scan_lines_opt m file = (a, STooLong) ->
    grpc_provider unmarshal cont limit passes max k file = Some (firstn k (refused_spec unmarshal cont l 0 a)).
Proof. exact grpc_provider_refused. Qed.
Print Assumptions C13_grpcjson_provider_refused_entry.

(* unless the limit ends the run in front of it, the refused entry is REJECTED WITH AN ERROR after exactly the
   accepted lines were delivered in order *)
Theorem C13_grpcjson_refused_entry_rejected :
  forall unmarshal cont (limit : Z) left ammo,
    (0 <= ammo)%Z ->
    (limit = 0 \/ ammo + Z.of_nat (length left) <= limit)%Z ->
    (cont = true \/ Forall (decodable unmarshal) left) ->
    refused_spec unmarshal cont limit ammo left = map (deliver_of unmarshal) left ++ [PErr].
Proof. exact refused_spec_reaches_error. Qed.
Print Assumptions C13_grpcjson_refused_entry_rejected.

(* a successful end of such a run is the limit's doing: it is set and smaller than the number of accepted lines *)
Theorem C13_grpcjson_refused_entry_success_needs_limit :
  forall unmarshal cont (limit : Z) left ammo,
    (0 <= ammo)%Z -> In PDone (refused_spec unmarshal cont limit ammo left) ->
    limit <> 0%Z /\ (limit < ammo + Z.of_nat (length left))%Z.
Proof. exact refused_spec_done_needs_limit. Qed.
Print Assumptions C13_grpcjson_refused_entry_success_needs_limit.

(* the expectation the driver judges grpc/json runs by is the model's answer whenever it has one *)
Theorem C13_grpcjson_refused_expected_is_model :
  forall unmarshal cont (limit passes max : Z) k file rs,
    grpc_refused_expected unmarshal cont limit passes max k file = Some rs ->
    grpc_provider unmarshal cont limit passes max k file = Some rs.
Proof. exact grpc_refused_expected_sound. Qed.
Print Assumptions C13_grpcjson_refused_expected_is_model.

(* the order of the checks behind the line loop: scanner.Err() first is the model ... *)
Theorem C13_grpcjson_scanner_error_first_is_model :
  forall unmarshal cont (limit passes : Z) k all e ammo pass left,
    grpc_run_ord unmarshal cont limit true passes k all e ammo pass left =
    grpc_run_opts unmarshal cont limit passes k all e ammo pass left.
Proof. exact grpc_run_ord_code. Qed.
Print Assumptions C13_grpcjson_scanner_error_first_is_model.

(* ... on files the scanner reads to the end the order is invisible (well-formed files can not tell) ... *)
Theorem C13_grpcjson_check_order_invisible_on_wellformed :
  forall unmarshal cont (limit passes : Z) b k all ammo pass left,
    grpc_run_ord unmarshal cont limit b passes k all SEof ammo pass left =
    grpc_run_opts unmarshal cont limit passes k all SEof ammo pass left.
Proof. exact grpc_run_ord_wellformed. Qed.
Print Assumptions C13_grpcjson_check_order_invisible_on_wellformed.

(* ... and with Limit / Passes looked at before the scanner the statement is refuted: passes 1, one entry, then a
   refused one: delivered, then a successful end *)
Theorem C13_grpcjson_scanner_error_after_bounds_refuted :
  let u := fun l : bytes => Some (l, @nil N) in
  grpc_run_ord u false 0 false 1 4 [[97%N]] STooLong 0 1 [[97%N]] = [PDeliver [97%N] []; PDone] /\
  grpc_run_ord u false 0 true 1 4 [[97%N]] STooLong 0 1 [[97%N]] = [PDeliver [97%N] []; PErr].
Proof. exact grpc_err_after_bounds_refuted. Qed.
Print Assumptions C13_grpcjson_scanner_error_after_bounds_refuted.

Example C13_grpcjson_refused_entry_examples :
  let u := fun l : bytes => Some (l, @nil N) in
  let file := [97; 98; 10; 97; 98; 99; 100; 101; 102; 10; 97; 98; 10]%N in   (* "ab", "abcdef", "ab" *)
  (* maxammosize 3 refuses the second line: passes 1, 2, 0 and limit 1 all end with the error after "ab" *)
  grpc_provider u false 0 1 3 4 file = Some [PDeliver [97; 98]%N []; PErr] /\
  grpc_provider u false 0 2 3 4 file = Some [PDeliver [97; 98]%N []; PErr] /\
  grpc_provider u false 0 0 3 4 file = Some [PDeliver [97; 98]%N []; PErr] /\
  grpc_provider u false 1 1 3 4 file = Some [PDeliver [97; 98]%N []; PErr] /\
  grpc_refused_expected u false 0 1 3 4 file = Some [PDeliver [97; 98]%N []; PErr] /\
  (* maxammosize 7 refuses nothing: no expectation of this kind, the run ends by passes *)
  grpc_refused_expected u false 0 1 7 4 file = None /\
  (* two accepted lines in front of the refused one and limit 1: the limit ends the run first *)
  grpc_provider u false 1 1 3 4 [97; 10; 98; 10; 97; 98; 99; 100; 10]%N = Some [PDeliver [97]%N []; PDone].
Proof. repeat split; vm_compute; reflexivity. Qed.

(* ---------- round 8 (second part): a source that fails while it is read (grpc/json) ----------
   Model/AmmoHostileConfig.v (5): [rerr_spec] = what a consumer sees when Read returns an I/O error after the
   complete lines [a] and an unterminated rest. *)

(* an error on a line boundary is the refused-entry case — and through C13_grpcjson_refused_entry_run_is_spec the
   pass loop's end at a scanner error *)
Theorem C13_grpcjson_read_error_on_boundary :
  forall unmarshal cont (limit : Z) a ammo p,
    p = None \/ p = Some [] ->
    rerr_spec unmarshal cont limit ammo a p = refused_spec unmarshal cont limit ammo a.
Proof. exact rerr_spec_boundary. Qed.
Print Assumptions C13_grpcjson_read_error_on_boundary.

(* a run over a failing source ends successfully only when the limit is set and smaller than the number of
   COMPLETE lines read before the failure: otherwise the I/O error is reported *)
Theorem C13_grpcjson_read_error_success_needs_limit :
  forall unmarshal cont (limit : Z) p a ammo,
    (0 <= ammo)%Z -> In PDone (rerr_spec unmarshal cont limit ammo a p) ->
    limit <> 0%Z /\ (limit < ammo + Z.of_nat (length a))%Z.
Proof. exact rerr_spec_done_needs_limit. Qed.
Print Assumptions C13_grpcjson_read_error_success_needs_limit.

(* all complete lines are delivered in order, then what the scanner hands out after the error, which ends with
   the error and contains no successful end *)
Theorem C13_grpcjson_read_error_reported :
  forall unmarshal cont (limit : Z) p a ammo,
    (0 <= ammo)%Z ->
    (limit = 0 \/ ammo + Z.of_nat (length a) <= limit)%Z ->
    (cont = true \/ Forall (decodable unmarshal) a) ->
    rerr_spec unmarshal cont limit ammo a p =
      map (deliver_of unmarshal) a ++ rerr_tail unmarshal cont limit (ammo + Z.of_nat (length a)) p /\
    exists pre, rerr_tail unmarshal cont limit (ammo + Z.of_nat (length a)) p = pre ++ [PErr] /\ ~ In PDone pre.
Proof.
  exact (fun u c l p a ammo H0 Hl Hd =>
           conj (rerr_spec_reaches_error u c l p a ammo H0 Hl Hd)
                (rerr_tail_ends_with_error u c l (ammo + Z.of_nat (length a))%Z p)).
Qed.
Print Assumptions C13_grpcjson_read_error_reported.

Example C13_grpcjson_read_error_examples :
  let u := fun l : bytes => Some (l, @nil N) in
  let file := [97; 98; 10; 99; 100; 10; 101; 102; 10]%N in   (* "ab", "cd", "ef" *)
  (* the read fails after 4 bytes ("ab\nc"): "ab", the rest "c", then the error — for passes 1 as for passes 0 *)
  grpc_read_error_expected u false 0 1 0 8 file 4 = Some [PDeliver [97; 98]%N []; PDeliver [99]%N []; PErr] /\
  grpc_read_error_expected u false 0 0 0 8 file 4 = Some [PDeliver [97; 98]%N []; PDeliver [99]%N []; PErr] /\
  (* after 3 bytes (a line boundary): "ab", then the error *)
  grpc_read_error_expected u false 0 1 0 8 file 3 = Some [PDeliver [97; 98]%N []; PErr] /\
  (* limit 1, failure after 7 bytes: the limit ends the run within the complete lines: successful *)
  grpc_read_error_expected u false 1 1 0 8 file 7 = Some [PDeliver [97; 98]%N []; PDone] /\
  (* limit 1, failure after 4 bytes: the scanner has met the error when the limit ends the run: error *)
  grpc_read_error_expected u false 1 1 0 8 file 4 = Some [PDeliver [97; 98]%N []; PErr] /\
  (* failure at byte 0: the error at once *)
  grpc_read_error_expected u false 0 1 0 8 file 0 = Some [PErr].
Proof. repeat split; vm_compute; reflexivity. Qed.

(* ---------- round 8: the top-level config file as `pandora config.yaml` reads it (cli/cli.go readConfig) ----------
   Model/AmmoCliConfig.v: a config value tree, the discard_overflow pre-pass with its two type assertions as
   partial operations ([checked] = the comma-ok form of the repaired code), the decoder a parameter. *)

(* the pre-pass itself never panics, whatever the tree *)
Theorem C13_cli_prepass_no_panic :
  forall s, prepass true s <> VPanic.
Proof. exact prepass_checked_no_panic. Qed.
Print Assumptions C13_cli_prepass_no_panic.

(* for EVERY document and every decoder that refuses a tree of the wrong structure (mapstructure / validator:
   `pools` missing or no list, an entry that is no mapping, log / monitoring that is no mapping): the reader
   answers what the specification demands - an error for a document that is no mapping or has the wrong
   structure, otherwise the decoder's answer on the tree with the defaults written in *)
Theorem C13_cli_reader_meets_spec :
  forall (R : Type) (decode : settings -> rres R),
    decoder_rejects_bad_shape decode ->
    forall top, cli_read true decode top = cli_expected decode top.
Proof. exact cli_read_meets_spec. Qed.
Print Assumptions C13_cli_reader_meets_spec.

(* malformed => Err (never Panic, never accepted): the pre-pass does not hide a wrong structure from the decoder *)
Theorem C13_cli_malformed_config_rejected :
  forall (R : Type) (decode : settings -> rres R),
    decoder_rejects_bad_shape decode ->
    forall top,
      match read_settings top with VOk s => shape_okb s = false | _ => True end ->
      cli_read true decode top = VErr.
Proof. exact cli_malformed_rejected. Qed.
Print Assumptions C13_cli_malformed_config_rejected.

(* never a panic, provided the decoder has none *)
Theorem C13_cli_reader_no_panic :
  forall (R : Type) (decode : settings -> rres R),
    (forall s, decode s <> VPanic) -> forall top, cli_read true decode top <> VPanic.
Proof. exact cli_no_panic. Qed.
Print Assumptions C13_cli_reader_no_panic.

(* well-formed => the decoder sees the tree with the defaults, which is still well-formed *)
Theorem C13_cli_wellformed_config_defaults :
  forall (R : Type) (decode : settings -> rres R) top s,
    read_settings top = VOk s -> shape_okb s = true ->
    cli_read true decode top = decode (spec_default s) /\ shape_okb (spec_default s) = true.
Proof. exact cli_wellformed_defaults. Qed.
Print Assumptions C13_cli_wellformed_config_defaults.

(* what the pre-pass changes, property by property: no key other than `pools`; a `pools` value that is no
   list not at all; in a list every entry that is no mapping stays as it is, every mapping keeps all its keys
   and has discard_overflow = its own value, or true when it had none *)
Theorem C13_cli_prepass_defaults_exactly :
  forall s s',
    prepass true s = VOk s' ->
    (forall k, k <> k_pools -> lookup k s' = lookup k s) /\
    match lookup k_pools s with
    | Some (CList l) => exists l', lookup k_pools s' = Some (CList l') /\ Forall2 pool_rel l l'
    | _ => s' = s
    end.
Proof. exact prepass_exact. Qed.
Print Assumptions C13_cli_prepass_defaults_exactly.

(* the repair changes nothing for configs whose `pools` is a list of mappings *)
Theorem C13_cli_repair_keeps_wellformed_behaviour :
  forall (R : Type) (decode : settings -> rres R) top s,
    read_settings top = VOk s -> pools_okb s = true ->
    cli_read false decode top = cli_read true decode top.
Proof. exact cli_unchecked_same. Qed.
Print Assumptions C13_cli_repair_keeps_wellformed_behaviour.

(* the unchecked assertions (`v.Get("pools").([]any)`, `pool.(map[string]any)`) panic exactly on the malformed values *)
Theorem C13_cli_unchecked_prepass_panics_iff :
  forall s, prepass false s = VPanic <-> pools_okb s = false.
Proof. exact prepass_unchecked_panics_iff. Qed.
Print Assumptions C13_cli_unchecked_prepass_panics_iff.

(* ... so with them the statement is false: an empty file, `pools: 5`, `pools: [1]` *)
Theorem C13_cli_unchecked_reader_refuted :
  exists (decode : settings -> rres unit) top1 top2 top3,
    decoder_rejects_bad_shape decode /\ (forall s, decode s <> VPanic) /\
    top1 = CNull /\ top2 = CMap [(k_pools, CInt 5)] /\ top3 = CMap [(k_pools, CList [CInt 1])] /\
    cli_read false decode top1 = VPanic /\ cli_read false decode top2 = VPanic /\
    cli_read false decode top3 = VPanic.
Proof. exact cli_unchecked_refuted. Qed.
Print Assumptions C13_cli_unchecked_reader_refuted.

Example C13_cli_config_examples :
  let dec := fun s : settings => if shape_okb s then VOk (spec_default s) else VErr in
  let pool := CMap [([105; 100]%N, CStr [112]%N)] in
  (* pools: [{id: p}, {id: p, discard_overflow: false}] -> true written into the first only *)
  cli_read true dec (CMap [(k_pools, CList [pool; CMap [([105; 100]%N, CStr [112]%N); (k_discard, CBool false)]])])
    = VOk [(k_pools, CList [CMap [([105; 100]%N, CStr [112]%N); (k_discard, CBool true)];
                            CMap [([105; 100]%N, CStr [112]%N); (k_discard, CBool false)]])] /\
  (* empty file, pools: 5, pools: {id: p}, pools: [{id: p}, 1], log: 5 -> rejected *)
  cli_read true dec CNull = VErr /\
  cli_read true dec (CMap [(k_pools, CInt 5)]) = VErr /\
  cli_read true dec (CMap [(k_pools, pool)]) = VErr /\
  cli_read true dec (CMap [(k_pools, CList [pool; CInt 1])]) = VErr /\
  cli_read true dec (CMap [(k_pools, CList [pool]); (k_log, CInt 5)]) = VErr /\
  (* a top-level list is no config at all *)
  cli_read true dec (CList [pool]) = VErr /\
  decoder_rejects_bad_shape dec.
Proof.
  repeat split; try (vm_compute; reflexivity).
  intros s H. cbv beta. rewrite H. reflexivity.
Qed.
