(* Property C08 — limit/passes semantics and clean end of ammo on every provider.

   Statements only; proofs live in Proofs/ProviderProofs.v, the model in Model/Provider.v.
   Quantified over: every provider kind [k : pkind] (uri, uripost, raw, jsonline stream,
   jsonline array, each with and without preload; the scenario loop shared by http/scenario
   and grpc/scenario; grpc/json; the generic decode provider over MultiPassReader), every
   limit and passes in nat, every file [es] of n >= 1 entries, every fuel, every cancellation
   point.  The number of consumers does not occur: what is sent to the sink does not depend
   on who receives it.  [cfg0 lim pas] is the configuration without a chosencases filter
   (the filter is property C14).  [step_const] = 4. *)
From Coq Require Import List Arith Bool.
From PV Require Import Model.Provider Proofs.ProviderProofs.
Import ListNotations.

(* Exactly min of the non-zero bounds among limit and passes*n items are delivered, and they
   are the cyclic prefix of the file; never more than a bound or than the cancellation point;
   with no bound every prefix of the cyclic sequence is delivered. *)
Theorem C08_count : forall (k : pkind) es lim pas,
  es <> [] ->
  let n := length es in
  let runk := run k (cfg0 lim pas) es in
  (forall b fuel, bound lim pas n = Some b -> step_const * (b + n + 1) < fuel ->
     delivered (runk None fuel) = cyc_prefix es b /\ length (delivered (runk None fuel)) = b)
  /\ (forall cancel fuel,
        delivered (runk cancel fuel) = cyc_prefix es (length (delivered (runk cancel fuel)))
        /\ le_opt (length (delivered (runk cancel fuel))) (bound lim pas n)
        /\ (forall j, cancel = Some j -> length (delivered (runk cancel fuel)) <= j))
  /\ (bound lim pas n = None -> forall m, exists fuel,
        m <= length (delivered (runk None fuel))
        /\ firstn m (delivered (runk None fuel)) = cyc_prefix es m).
Proof. exact c08_count. Qed.
Print Assumptions C08_count.

(* When a bound exists the provider's Run returns nil and the sink is closed, so the next
   Acquire of every instance reports end of ammo. *)
Theorem C08_clean_end : forall (k : pkind) es lim pas b fuel,
  es <> [] -> bound lim pas (length es) = Some b -> step_const * (b + length es + 1) < fuel ->
  let r := run k (cfg0 lim pas) es None fuel in
  out r = Ok /\ closed r = true /\ acquire_after r = AcqEndOfAmmo.
Proof. exact c08_clean_end. Qed.
Print Assumptions C08_clean_end.

(* No spinning: the number of loop iterations is at most step_const*(deliveries + n + 1);
   a bounded run never runs out of that budget; after cancellation the provider returns
   within the budget with its sink closed, nil or context.Canceled, nothing delivered beyond
   the cancellation point. *)
Theorem C08_no_spin : forall (k : pkind) es lim pas,
  es <> [] ->
  let n := length es in
  let runk := run k (cfg0 lim pas) es in
  (forall cancel fuel,
      steps (runk cancel fuel) <= step_const * (length (delivered (runk cancel fuel)) + n + 1)
      /\ (out (runk cancel fuel) = OutOfFuel -> steps (runk cancel fuel) = fuel))
  /\ (forall b fuel, bound lim pas n = Some b -> step_const * (b + n + 1) < fuel ->
        out (runk None fuel) <> OutOfFuel)
  /\ (forall j fuel, step_const * (j + n + 1) < fuel ->
        let r := runk (Some j) fuel in
        out r <> OutOfFuel /\ closed r = true /\ acquire_after r = AcqEndOfAmmo
        /\ clean_or_cancelled (out r) /\ length (delivered r) <= j).
Proof. exact c08_no_spin. Qed.
Print Assumptions C08_no_spin.

(* The bound is what the property text says: min of the non-zero bounds. *)
Theorem C08_bound_is_min_of_nonzero : forall lim pas n,
  bound 0 0 n = None
  /\ (lim <> 0 -> bound lim 0 n = Some lim)
  /\ (pas <> 0 -> bound 0 pas n = Some (pas * n))
  /\ (lim <> 0 -> pas <> 0 -> bound lim pas n = Some (Nat.min lim (pas * n))).
Proof. exact bound_is_min. Qed.
Print Assumptions C08_bound_is_min_of_nonzero.

(* Non-vacuity: concrete runs of the model. A single-element JSON array with passes = 1
   delivers one item (defect #9 of DESIGN.md, fixed); preload + limit ends Ok (#8, fixed);
   grpc/json with a limit and no passes terminates (#10, fixed); the scenario loop closes its
   sink (#11, fixed). *)
Example C08_examples :
  let e i := {| e_tag := i; e_id := i |} in
  ids (delivered (run (KHttp DJsonArr false) (cfg0 0 1) [e 0] None 100)) = [0]
  /\ out (run (KHttp DUri true) (cfg0 3 0) [e 0; e 1] None 100) = Ok
  /\ ids (delivered (run (KHttp DUri true) (cfg0 3 0) [e 0; e 1] None 100)) = [0; 1; 0]
  /\ out (run KGrpcJson (cfg0 3 0) [e 0; e 1] None 100) = Ok
  /\ closed (run KScenario (cfg0 0 2) [e 0; e 1] None 100) = true
  /\ ids (delivered (run KDecode (cfg0 5 2) [e 0; e 1; e 2] None 100)) = [0; 1; 2; 0; 1].
Proof. repeat split; reflexivity. Qed.
