(* Property C08 — limit/passes semantics and clean end of ammo on every provider.

   Statements only; proofs live in Proofs/ProviderProofs.v, the model in Model/Provider.v.
   Quantified over: every provider kind [k : pkind] (uri, uripost, raw, jsonline stream,
   jsonline array, each with and without preload; the scenario loop shared by http/scenario
   and grpc/scenario; grpc/json; the generic decode provider over MultiPassReader), every
   limit and passes in nat, every file [es] of n >= 1 entries, every fuel, every cancellation
   point.  The number of consumers does not occur: what is sent to the sink does not depend
   on who receives it.  [cfg0 lim pas] is the configuration without a chosencases filter
   (the filter is property C14).  [step_const] = 4. *)
From Coq Require Import List Arith Bool.
From PV Require Import Model.Provider Model.ProviderFile Proofs.ProviderProofs Proofs.ProviderFileProofs.
Import ListNotations.

(* Exactly min of the non-zero bounds among limit and passes*n items are delivered, and they
   are the cyclic prefix of the file; never more than a bound or than the cancellation point;
   with no bound every prefix of the cyclic sequence is delivered. *)
Theorem C08_count : forall (k : pkind) es lim pas,
  es <> [] ->
  let n := length es in
  let runk := run k (cfg0 lim pas) es in
  (forall b fuel, bound lim pas n = Some b -> step_const * (b + n + 1) < fuel ->
     delivered (runk None fuel) = cyc_prefix es b /\ length (delivered (runk None fuel)) = b)
  /\ (forall cancel fuel,
        delivered (runk cancel fuel) = cyc_prefix es (length (delivered (runk cancel fuel)))
        /\ le_opt (length (delivered (runk cancel fuel))) (bound lim pas n)
        /\ (forall j, cancel = Some j -> length (delivered (runk cancel fuel)) <= j))
  /\ (bound lim pas n = None -> forall m, exists fuel,
        m <= length (delivered (runk None fuel))
        /\ firstn m (delivered (runk None fuel)) = cyc_prefix es m).
Proof. exact c08_count. Qed.
Print Assumptions C08_count.

(* When a bound exists the provider's Run returns nil and the sink is closed, so the next
   Acquire of every instance reports end of ammo. *)
Theorem C08_clean_end : forall (k : pkind) es lim pas b fuel,
  es <> [] -> bound lim pas (length es) = Some b -> step_const * (b + length es + 1) < fuel ->
  let r := run k (cfg0 lim pas) es None fuel in
  out r = Ok /\ closed r = true /\ acquire_after r = AcqEndOfAmmo.
Proof. exact c08_clean_end. Qed.
Print Assumptions C08_clean_end.

(* No spinning: the number of loop iterations is at most step_const*(deliveries + n + 1);
   a bounded run never runs out of that budget; after cancellation the provider returns
   within the budget with its sink closed, nil or context.Canceled, nothing delivered beyond
   the cancellation point. *)
Theorem C08_no_spin : forall (k : pkind) es lim pas,
  es <> [] ->
  let n := length es in
  let runk := run k (cfg0 lim pas) es in
  (forall cancel fuel,
      steps (runk cancel fuel) <= step_const * (length (delivered (runk cancel fuel)) + n + 1)
      /\ (out (runk cancel fuel) = OutOfFuel -> steps (runk cancel fuel) = fuel))
  /\ (forall b fuel, bound lim pas n = Some b -> step_const * (b + n + 1) < fuel ->
        out (runk None fuel) <> OutOfFuel)
  /\ (forall j fuel, step_const * (j + n + 1) < fuel ->
        let r := runk (Some j) fuel in
        out r <> OutOfFuel /\ closed r = true /\ acquire_after r = AcqEndOfAmmo
        /\ clean_or_cancelled (out r) /\ length (delivered r) <= j).
Proof. exact c08_no_spin. Qed.
Print Assumptions C08_no_spin.

(* The bound is what the property text says: min of the non-zero bounds. *)
Theorem C08_bound_is_min_of_nonzero : forall lim pas n,
  bound 0 0 n = None
  /\ (lim <> 0 -> bound lim 0 n = Some lim)
  /\ (pas <> 0 -> bound 0 pas n = Some (pas * n))
  /\ (lim <> 0 -> pas <> 0 -> bound lim pas n = Some (Nat.min lim (pas * n))).
Proof. exact bound_is_min. Qed.
Print Assumptions C08_bound_is_min_of_nonzero.

(* Non-vacuity: concrete runs of the model. A single-element JSON array with passes = 1
   delivers one item (defect #9 of DESIGN.md, fixed); preload + limit ends Ok (#8, fixed);
   grpc/json with a limit and no passes terminates (#10, fixed); the scenario loop closes its
   sink (#11, fixed). *)
Example C08_examples :
  let e i := {| e_tag := i; e_id := i |} in
  ids (delivered (run (KHttp DJsonArr false) (cfg0 0 1) [e 0] None 100)) = [0]
  /\ out (run (KHttp DUri true) (cfg0 3 0) [e 0; e 1] None 100) = Ok
  /\ ids (delivered (run (KHttp DUri true) (cfg0 3 0) [e 0; e 1] None 100)) = [0; 1; 0]
  /\ out (run KGrpcJson (cfg0 3 0) [e 0; e 1] None 100) = Ok
  /\ closed (run KScenario (cfg0 0 2) [e 0; e 1] None 100) = true
  /\ ids (delivered (run KDecode (cfg0 5 2) [e 0; e 1; e 2] None 100)) = [0; 1; 2; 0; 1].
Proof. repeat split; reflexivity. Qed.

(* ---- the handle of the ammo file (Model/ProviderFile.v) --------------------------------------

   "finishes without error ... the run ends successfully" is about what Provider.Run RETURNS, and
   the http providers return the error of their deferred Close of the ammo file.  [run_file fs k]
   is the run of [k] with the operations on the file handle replayed around it (constructor, Run
   before the loop, every loop iteration, deferred calls), on a real file ([FsOS]: every
   operation on a closed handle fails, Close included) or on an afero mem file ([FsMem]: Close
   of a closed file is nil). *)

(* A bounded run ends cleanly WITH the handle taken into account, on both kinds of file system:
   Run returns nil (nothing from the loop, nothing from Close), the sink is closed, the file was
   opened once, closed once and never touched after it was closed. *)
Theorem C08_clean_end_file : forall (fs : fskind) (k : pkind) es lim pas b fuel,
  es <> [] -> bound lim pas (length es) = Some b -> step_const * (b + length es + 1) < fuel ->
  let fr := run_file fs k (cfg0 lim pas) es None fuel in
  f_clean fr = true /\ closed (f_base fr) = true /\ acquire_after (f_base fr) = AcqEndOfAmmo
  /\ f_construct_ok fr = true /\ h_released_once (f_handle fr) = true.
Proof. exact c08_clean_end_file. Qed.
Print Assumptions C08_clean_end_file.

(* Every run of every provider, any configuration (filter included), any cancellation point, any
   fuel: the handle never adds anything to Run's result, no operation is ever issued on a closed
   handle, and when Run returns the handle has been released exactly once. *)
Theorem C08_handle_every_run : forall (fs : fskind) (k : pkind) cf es cancel fuel,
  let fr := run_file fs k cf es cancel fuel in
  f_out fr = FAs (out (run k cf es cancel fuel))
  /\ h_late (f_handle fr) = 0
  /\ (out (run k cf es cancel fuel) <> OutOfFuel -> h_released_once (f_handle fr) = true).
Proof. exact c08_handle_every_run. Qed.
Print Assumptions C08_handle_every_run.

(* Why it matters (and why the correspondence runs on real files too).  Take ANY provider whose
   Run returns the error of its deferred Close and let its constructor release the handle as well:
   on a real file no run of it ends cleanly, whatever the loop returned ... *)
Theorem C08_close_early_not_clean_on_real_file : forall p r,
  out r <> OutOfFuel -> fp_start p = [] -> fp_exit p = [FClose] -> fp_policy p = CloseReturned ->
  f_clean (replay FsOS (close_early p) r) = false
  /\ 1 <= h_late (f_handle (replay FsOS (close_early p) r)).
Proof. exact close_early_not_clean_os. Qed.
Print Assumptions C08_close_early_not_clean_on_real_file.

(* ... while on a mem file the JSON-array provider changed that way still ends cleanly: only the
   count of operations on a closed handle tells it from the present code. *)
Theorem C08_close_early_invisible_on_mem_file : forall n r,
  out r = Ok ->
  f_clean (replay FsMem (close_early (http_plan DJsonArr n)) r) = true
  /\ h_late (f_handle (replay FsMem (close_early (http_plan DJsonArr n)) r)) = 1.
Proof. exact jsonarr_close_early_clean_mem. Qed.
Print Assumptions C08_close_early_invisible_on_mem_file.

(* Non-vacuity: a single-element JSON array with limit 2 on a real file ends cleanly with the
   handle released once; with the early Close the same run fails through the deferred Close. *)
Example C08_file_examples :
  let e i := {| e_tag := i; e_id := i |} in
  let fr := run_file FsOS (KHttp DJsonArr false) (cfg0 2 0) [e 0] None 100 in
  f_out fr = FAs Ok /\ f_handle fr = {| h_open := false; h_opens := 1; h_closes := 1; h_late := 0 |}
  /\ f_out (replay FsOS (close_early (http_plan DJsonArr 1)) (f_base fr)) = FCloseErr Ok
  /\ f_out (run_file FsOS KGrpcJson (cfg0 0 2) [e 0; e 1] None 100) = FAs Ok
  /\ h_released_once (f_handle (run_file FsMem KScenario (cfg0 3 0) [e 0; e 1] None 100)) = true.
Proof. repeat split; reflexivity. Qed.
