(* Property C08 — limit/passes semantics and clean end of ammo on every provider.
   Statements only; proofs live in Proofs/ProviderProofs.v.  (work in progress: the kinds
   whose current code satisfies the property) *)
From Coq Require Import List Arith Bool.
From PV Require Import Model.Provider Proofs.ProviderProofs.
Import ListNotations.

Theorem C08_http_streaming : forall k es lim pas,
  (k = DUri \/ k = DUripost \/ k = DRaw \/ k = DJsonl) -> es <> [] ->
  c08_spec (http_run k false (cfg0 lim pas) es) es (bound lim pas (length es)) (length es) 2.
Proof.
  intros k es lim pas Hk Hn.
  destruct Hk as [->|[->|[->| ->]]].
  - exact (http_stream_c08 DUri es lim pas _ (uri_contract es lim pas Hn)).
  - exact (http_stream_c08 DUripost es lim pas _ (uripost_contract es lim pas Hn)).
  - exact (http_stream_c08 DRaw es lim pas _ (raw_contract es lim pas Hn)).
  - exact (http_stream_c08 DJsonl es lim pas _ (jsonl_contract es lim pas Hn)).
Qed.
Print Assumptions C08_http_streaming.

Theorem C08_decode_provider : forall es lim pas, es <> [] ->
  c08_spec (decode_run (cfg0 lim pas) es) es (bound lim pas (length es)) (length es) 2.
Proof. exact decode_c08. Qed.
Print Assumptions C08_decode_provider.

Example C08_example :
  let es := [ {| e_tag := 0; e_id := 0 |}; {| e_tag := 1; e_id := 1 |} ] in
  ids (delivered (run (KHttp DUri false) (cfg0 3 0) es None 100)) = [0; 1; 0]
  /\ out (run (KHttp DUri false) (cfg0 3 0) es None 100) = Ok.
Proof. split; reflexivity. Qed.
