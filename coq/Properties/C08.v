(* Property C08 — limit/passes semantics and clean end of ammo on every provider.

   Statements only; proofs live in Proofs/ProviderProofs.v, the model in Model/Provider.v.
   Quantified over: every provider kind [k : pkind] (uri, uripost, raw, jsonline stream,
   jsonline array, each with and without preload; the scenario loop shared by http/scenario
   and grpc/scenario; grpc/json; the generic decode provider over MultiPassReader), every
   limit and passes in nat, every file [es] of n >= 1 entries, every fuel, every cancellation
   point.  The number of consumers does not occur: what is sent to the sink does not depend
   on who receives it.  [cfg0 lim pas] is the configuration without a chosencases list;
   the statements under a list ([cfgc lim pas ch], any list) are C08_filtered and
   C08_nothing_chosen_ends at the end of this file.  [step_const] = 4. *)
From Coq Require Import List Arith Bool NArith.
From PV Require Import Model.Provider Model.ProviderFile Model.ProviderScan Model.ProviderFrame Model.Preload Model.ProviderProbe Proofs.ProviderProofs Proofs.ProviderFileProofs Proofs.ProviderScanProofs Proofs.ProviderFrameProofs Proofs.PreloadProofs Proofs.ProviderFilterProofs.
Import ListNotations.

(* Exactly min of the non-zero bounds among limit and passes*n items are delivered, and they
   are the cyclic prefix of the file; never more than a bound or than the cancellation point;
   with no bound every prefix of the cyclic sequence is delivered. *)
Theorem C08_count : forall (k : pkind) es lim pas,
  es <> [] ->
  let n := length es in
  let runk := run k (cfg0 lim pas) es in
  (forall b fuel, bound lim pas n = Some b -> step_const * (b + n + 1) < fuel ->
     delivered (runk None fuel) = cyc_prefix es b /\ length (delivered (runk None fuel)) = b)
  /\ (forall cancel fuel,
        delivered (runk cancel fuel) = cyc_prefix es (length (delivered (runk cancel fuel)))
        /\ le_opt (length (delivered (runk cancel fuel))) (bound lim pas n)
        /\ (forall j, cancel = Some j -> length (delivered (runk cancel fuel)) <= j))
  /\ (bound lim pas n = None -> forall m, exists fuel,
        m <= length (delivered (runk None fuel))
        /\ firstn m (delivered (runk None fuel)) = cyc_prefix es m).
Proof. exact c08_count. Qed.
Print Assumptions C08_count.

(* When a bound exists the provider's Run returns nil and the sink is closed, so the next
   Acquire of every instance reports end of ammo. *)
Theorem C08_clean_end : forall (k : pkind) es lim pas b fuel,
  es <> [] -> bound lim pas (length es) = Some b -> step_const * (b + length es + 1) < fuel ->
  let r := run k (cfg0 lim pas) es None fuel in
  out r = Ok /\ closed r = true /\ acquire_after r = AcqEndOfAmmo.
Proof. exact c08_clean_end. Qed.
Print Assumptions C08_clean_end.

(* No spinning: the number of loop iterations is at most step_const*(deliveries + n + 1);
   a bounded run never runs out of that budget; after cancellation the provider returns
   within the budget with its sink closed, nil or context.Canceled, nothing delivered beyond
   the cancellation point. *)
Theorem C08_no_spin : forall (k : pkind) es lim pas,
  es <> [] ->
  let n := length es in
  let runk := run k (cfg0 lim pas) es in
  (forall cancel fuel,
      steps (runk cancel fuel) <= step_const * (length (delivered (runk cancel fuel)) + n + 1)
      /\ (out (runk cancel fuel) = OutOfFuel -> steps (runk cancel fuel) = fuel))
  /\ (forall b fuel, bound lim pas n = Some b -> step_const * (b + n + 1) < fuel ->
        out (runk None fuel) <> OutOfFuel)
  /\ (forall j fuel, step_const * (j + n + 1) < fuel ->
        let r := runk (Some j) fuel in
        out r <> OutOfFuel /\ closed r = true /\ acquire_after r = AcqEndOfAmmo
        /\ clean_or_cancelled (out r) /\ length (delivered r) <= j).
Proof. exact c08_no_spin. Qed.
Print Assumptions C08_no_spin.

(* The bound is what the property text says: min of the non-zero bounds. *)
Theorem C08_bound_is_min_of_nonzero : forall lim pas n,
  bound 0 0 n = None
  /\ (lim <> 0 -> bound lim 0 n = Some lim)
  /\ (pas <> 0 -> bound 0 pas n = Some (pas * n))
  /\ (lim <> 0 -> pas <> 0 -> bound lim pas n = Some (Nat.min lim (pas * n))).
Proof. exact bound_is_min. Qed.
Print Assumptions C08_bound_is_min_of_nonzero.

(* Non-vacuity: concrete runs of the model. A single-element JSON array with passes = 1
   delivers one item (defect #9 of DESIGN.md, fixed); preload + limit ends Ok (#8, fixed);
   grpc/json with a limit and no passes terminates (#10, fixed); the scenario loop closes its
   sink (#11, fixed). *)
Example C08_examples :
  let e i := {| e_tag := i; e_id := i |} in
  ids (delivered (run (KHttp DJsonArr false) (cfg0 0 1) [e 0] None 100)) = [0]
  /\ out (run (KHttp DUri true) (cfg0 3 0) [e 0; e 1] None 100) = Ok
  /\ ids (delivered (run (KHttp DUri true) (cfg0 3 0) [e 0; e 1] None 100)) = [0; 1; 0]
  /\ out (run KGrpcJson (cfg0 3 0) [e 0; e 1] None 100) = Ok
  /\ closed (run KScenario (cfg0 0 2) [e 0; e 1] None 100) = true
  /\ ids (delivered (run KDecode (cfg0 5 2) [e 0; e 1; e 2] None 100)) = [0; 1; 2; 0; 1].
Proof. repeat split; reflexivity. Qed.

(* ---- the handle of the ammo file (Model/ProviderFile.v) --------------------------------------

   "finishes without error ... the run ends successfully" is about what Provider.Run RETURNS, and
   the http providers return the error of their deferred Close of the ammo file.  [run_file fs k]
   is the run of [k] with the operations on the file handle replayed around it (constructor, Run
   before the loop, every loop iteration, deferred calls), on a real file ([FsOS]: every
   operation on a closed handle fails, Close included) or on an afero mem file ([FsMem]: Close
   of a closed file is nil). *)

(* A bounded run ends cleanly WITH the handle taken into account, on both kinds of file system:
   Run returns nil (nothing from the loop, nothing from Close), the sink is closed, the file was
   opened once, closed once and never touched after it was closed. *)
Theorem C08_clean_end_file : forall (fs : fskind) (k : pkind) es lim pas b fuel,
  es <> [] -> bound lim pas (length es) = Some b -> step_const * (b + length es + 1) < fuel ->
  let fr := run_file fs k (cfg0 lim pas) es None fuel in
  f_clean fr = true /\ closed (f_base fr) = true /\ acquire_after (f_base fr) = AcqEndOfAmmo
  /\ f_construct_ok fr = true /\ h_released_once (f_handle fr) = true.
Proof. exact c08_clean_end_file. Qed.
Print Assumptions C08_clean_end_file.

(* Every run of every provider, any configuration (filter included), any cancellation point, any
   fuel: the handle never adds anything to Run's result, no operation is ever issued on a closed
   handle, and when Run returns the handle has been released exactly once. *)
Theorem C08_handle_every_run : forall (fs : fskind) (k : pkind) cf es cancel fuel,
  let fr := run_file fs k cf es cancel fuel in
  f_out fr = FAs (out (run k cf es cancel fuel))
  /\ h_late (f_handle fr) = 0
  /\ (out (run k cf es cancel fuel) <> OutOfFuel -> h_released_once (f_handle fr) = true).
Proof. exact c08_handle_every_run. Qed.
Print Assumptions C08_handle_every_run.

(* Why it matters (and why the correspondence runs on real files too).  Take ANY provider whose
   Run returns the error of its deferred Close and let its constructor release the handle as well:
   on a real file no run of it ends cleanly, whatever the loop returned ... *)
Theorem C08_close_early_not_clean_on_real_file : forall p r,
  out r <> OutOfFuel -> fp_start p = [] -> fp_exit p = [FClose] -> fp_policy p = CloseReturned ->
  f_clean (replay FsOS (close_early p) r) = false
  /\ 1 <= h_late (f_handle (replay FsOS (close_early p) r)).
Proof. exact close_early_not_clean_os. Qed.
Print Assumptions C08_close_early_not_clean_on_real_file.

(* ... while on a mem file the JSON-array provider changed that way still ends cleanly: only the
   count of operations on a closed handle tells it from the present code. *)
Theorem C08_close_early_invisible_on_mem_file : forall n r,
  out r = Ok ->
  f_clean (replay FsMem (close_early (http_plan DJsonArr n)) r) = true
  /\ h_late (f_handle (replay FsMem (close_early (http_plan DJsonArr n)) r)) = 1.
Proof. exact jsonarr_close_early_clean_mem. Qed.
Print Assumptions C08_close_early_invisible_on_mem_file.

(* Non-vacuity: a single-element JSON array with limit 2 on a real file ends cleanly with the
   handle released once; with the early Close the same run fails through the deferred Close. *)
Example C08_file_examples :
  let e i := {| e_tag := i; e_id := i |} in
  let fr := run_file FsOS (KHttp DJsonArr false) (cfg0 2 0) [e 0] None 100 in
  f_out fr = FAs Ok /\ f_handle fr = {| h_open := false; h_opens := 1; h_closes := 1; h_late := 0 |}
  /\ f_out (replay FsOS (close_early (http_plan DJsonArr 1)) (f_base fr)) = FCloseErr Ok
  /\ f_out (run_file FsOS KGrpcJson (cfg0 0 2) [e 0; e 1] None 100) = FAs Ok
  /\ h_released_once (f_handle (run_file FsMem KScenario (cfg0 3 0) [e 0; e 1] None 100)) = true.
Proof. repeat split; reflexivity. Qed.

(* ---- the size of the entries and the `maxammosize` option (Model/ProviderScan.v) ---------------

   "every combination of limit and passes" is meant for every valid configuration of the provider
   and every file it accepts.  grpc/json reads lines through a bufio.Scanner whose token limit
   belongs to the scanner object, and makes a new scanner for every pass: [run_sz KGrpcJson maxsz]
   carries the limit of the scanner in use as state ([gz_step]); [szs] are the sizes of the
   entries' lines, [all_fit_b]: every entry fits the limit the configuration asks for
   ([new_scanner_cap maxsz]: `maxammosize`, 64 KiB when it is not set). *)

(* For every provider kind, every `maxammosize`, every sizes the configuration accepts, every
   configuration (filter included), cancellation point and fuel: the run with the scanner is the
   run of Model/Provider.v — every pass reads every entry, so C08_count / C08_clean_end /
   C08_no_spin / C08_handle_every_run hold of it verbatim. *)
Theorem C08_sizes_change_nothing : forall (k : pkind) (maxsz : N) cf es (szs : list N) cancel fuel,
  all_fit_b k maxsz szs = true ->
  run_sz k maxsz cf es szs cancel fuel = run k cf es cancel fuel
  /\ forall fs, run_file_sz fs k maxsz cf es szs cancel fuel = run_file fs k cf es cancel fuel.
Proof. exact c08_sizes_change_nothing. Qed.
Print Assumptions C08_sizes_change_nothing.

(* The bounded run with the option and the sizes spelled out: exactly the cyclic prefix of length
   min of the non-zero bounds, Run nil, sink closed, end of ammo — in whichever pass the large
   entries are met. *)
Theorem C08_clean_end_any_max_ammo_size : forall (k : pkind) (maxsz : N) es (szs : list N) lim pas b fuel,
  es <> [] -> all_fit_b k maxsz szs = true ->
  bound lim pas (length es) = Some b -> step_const * (b + length es + 1) < fuel ->
  let r := run_sz k maxsz (cfg0 lim pas) es szs None fuel in
  delivered r = cyc_prefix es b /\ out r = Ok /\ closed r = true /\ acquire_after r = AcqEndOfAmmo.
Proof. exact c08_sized. Qed.
Print Assumptions C08_clean_end_any_max_ammo_size.

(* The mechanism, for ANY way [capf] of setting up the scanner of pass p: if every entry fits the
   scanner of every pass the run is the one of Model/Provider.v; and a scanner that cannot hold the
   next entry ends the run there with the scanner's error. *)
Theorem C08_scanner_of_every_pass : forall (capf : nat -> N) cf es (szs : list N),
  ((forall p i, token_fits (capf p) (nth i szs 0%N) = true) ->
   forall cancel fuel, gz_run capf cf es szs cancel fuel = grpcjson_run cf es cancel fuel)
  /\ (forall c z e, g_inner (z_g z) = true -> nth_error es (g_pos (z_g z)) = Some e ->
        token_fits (z_cap z) (nth (g_pos (z_g z)) szs 0%N) = false ->
        gz_step capf cf es szs c z = Stop (Failed EScan) true).
Proof. exact c08_scanner_of_every_pass. Qed.
Print Assumptions C08_scanner_of_every_pass.

(* Non-vacuity, and the semantics discriminate: maxammosize = 1 MiB, two entries of 50 and 100000
   bytes, three passes: all six items, Run nil.  A provider that configures the scanner of the
   first pass only ([first_pass_only_capf]) fails at the large entry of the second pass with three
   items delivered; with limit 3 it has delivered the right count and still fails (the loop
   condition scans the next line before it tests the limit). An entry the configuration refuses
   (100000 bytes, maxammosize not set) fails in the first pass: outside C08 ([all_fit_b] = false). *)
Example C08_size_examples :
  let e i := {| e_tag := i; e_id := i |} in
  let es := [e 0; e 1] in
  let szs := [50%N; 100000%N] in
  let mx := 1048576%N in
  all_fit_b KGrpcJson mx szs = true
  /\ ids (delivered (run_sz KGrpcJson mx (cfg0 0 3) es szs None 100)) = [0; 1; 0; 1; 0; 1]
  /\ out (run_sz KGrpcJson mx (cfg0 0 3) es szs None 100) = Ok
  /\ ids (delivered (gz_run (first_pass_only_capf mx) (cfg0 0 3) es szs None 100)) = [0; 1; 0]
  /\ out (gz_run (first_pass_only_capf mx) (cfg0 0 3) es szs None 100) = Failed EScan
  /\ ids (delivered (gz_run (first_pass_only_capf mx) (cfg0 3 4) es szs None 100)) = [0; 1; 0]
  /\ out (gz_run (first_pass_only_capf mx) (cfg0 3 4) es szs None 100) = Failed EScan
  /\ all_fit_b KGrpcJson 0%N szs = false
  /\ out (run_sz KGrpcJson 0%N (cfg0 0 3) es szs None 100) = Failed EScan
  /\ ids (delivered (run_sz KGrpcJson 0%N (cfg0 0 3) es szs None 100)) = [0].
Proof. vm_compute. repeat split; reflexivity. Qed.

(* ---- the frame of Run around the loop (Model/ProviderFrame.v) -----------------------------------

   Acquire is a bare receive from the sink: only the close of the sink releases a waiting instance,
   and the close is a deferred call — it runs only if Run returns after the `defer` statement.
   [run_framed k opens] = the statements of Run in front of the loop, in source order
   ([prologue_of k]), then the loop [run k]; "sink closed" is computed from where Run returned.
   [cancel = Some 0]: the context is already done when Run starts. *)

(* EVERY return of Run closes the sink: every kind, every configuration, every cancellation point
   — before Run started included —, every fuel, whether the ammo source opens or not. *)
Theorem C08_every_return_closes_sink : forall (k : pkind) (opens : bool) cf es cancel fuel,
  let r := run_framed k opens cf es cancel fuel in
  out r <> OutOfFuel -> closed r = true /\ acquire_after r = AcqEndOfAmmo.
Proof. exact c08_every_return_closes. Qed.
Print Assumptions C08_every_return_closes_sink.

(* With a source that opens the frame adds nothing: Run IS the loop the theorems above speak about. *)
Theorem C08_frame_adds_nothing : forall (k : pkind) cf es cancel fuel,
  run_framed k true cf es cancel fuel = run k cf es cancel fuel.
Proof. exact run_framed_is_run. Qed.
Print Assumptions C08_frame_adds_nothing.

(* The order of the statements is what does it: in ANY Run whose context test stands above the
   `defer` of the close, a run whose context is already done on entry returns with the sink open
   and every waiting instance stays blocked — whatever the loop is. *)
Theorem C08_ctx_check_above_defer_blocks : forall ps1 ps2 opens loop,
  (forall p, In p ps1 -> p = PPrepare) ->
  let r := frame_run (ps1 ++ PCtxCheck :: ps2) opens (Some 0) loop in
  out r = Failed ECtx /\ closed r = false /\ acquire_after r = AcqBlocked.
Proof. exact ctx_check_above_defer_blocks. Qed.
Print Assumptions C08_ctx_check_above_defer_blocks.

(* Non-vacuity: the scenario provider cancelled before Run starts returns context.Canceled with
   the sink closed; with the context test moved above the defer the sink stays open; grpc/json
   whose file does not open fails with the sink closed. *)
Example C08_frame_examples :
  let e i := {| e_tag := i; e_id := i |} in
  let r := run_framed KScenario true (cfg0 3 0) [e 0; e 1] (Some 0) 100 in
  out r = Failed ECtx /\ closed r = true /\ delivered r = []
  /\ closed (frame_run [PPrepare; PCtxCheck; PDeferCloseSink] true (Some 0)
               (run KScenario (cfg0 3 0) [e 0; e 1] (Some 0) 100)) = false
  /\ out (run_framed KGrpcJson false (cfg0 3 0) [e 0] None 100) = Failed EOpen
  /\ closed (run_framed KGrpcJson false (cfg0 3 0) [e 0] None 100) = true
  /\ ids (delivered (run_framed KDecode true (cfg0 3 0) [e 0; e 1] None 100)) = [0; 1; 0].
Proof. repeat split; reflexivity. Qed.

(* ---- the chosencases filter (round 8; Proofs/ProviderFilterProofs.v) ---------------------------

   The http providers and grpc/json carry a `chosencases` list; "exactly min(limit, passes x
   entries) items ... after which the provider finishes without error" and "never keeps consumers
   blocked, never spins" are then about the entries the list selects.  [has_filter k]: the http
   kinds (streaming and preloaded) and grpc/json; [cfgc lim pas ch]: the configuration with the
   list [ch] (any list: tags that do not occur, repetitions); [chosen_entries ch es]: the entries
   of the file the list selects, in file order; [c14_const n] = 2n + 4 (between two deliveries a
   provider may have to read to the end of the file and on to the next chosen entry). *)

(* Something is chosen: the bounds count what is delivered.  A bounded run delivers exactly the
   cyclic prefix of the chosen entries of length min of the non-zero bounds among limit and
   passes * (number of chosen entries), returns nil, closes the sink; every run delivers such a
   prefix, within the bound and the cancellation point, in a number of loop iterations linear in
   the deliveries (no spinning); cancelled after j items it returns within the budget, sink closed. *)
Theorem C08_filtered : forall (k : pkind) es lim pas ch,
  has_filter k = true ->
  let src := chosen_entries ch es in
  src <> [] ->
  let n := length es in
  let C := c14_const n in
  let runk := run k (cfgc lim pas ch) es in
  (forall b fuel, bound lim pas (length src) = Some b -> C * (b + n + 1) < fuel ->
     let r := runk None fuel in
     delivered r = cyc_prefix src b /\ out r = Ok /\ closed r = true /\ acquire_after r = AcqEndOfAmmo)
  /\ (forall cancel fuel,
        let r := runk cancel fuel in
        delivered r = cyc_prefix src (length (delivered r))
        /\ le_opt (length (delivered r)) (bound lim pas (length src))
        /\ (forall j, cancel = Some j -> length (delivered r) <= j)
        /\ steps r <= C * (length (delivered r) + n + 1)
        /\ (out r = OutOfFuel -> steps r = fuel))
  /\ (forall j fuel, C * (j + n + 1) < fuel ->
        let r := runk (Some j) fuel in
        out r <> OutOfFuel /\ closed r = true /\ acquire_after r = AcqEndOfAmmo /\ clean_or_cancelled (out r)).
Proof. exact c08_filtered. Qed.
Print Assumptions C08_filtered.

(* Nothing is chosen (a misspelt tag): there is nothing to deliver whatever limit and passes say
   — also when both are 0.  Every provider with the option then ends BY ITSELF within
   (2n+4)(n+1) loop iterations: nothing delivered, Run returns "no ammo" (the decoders' sentinel
   for the http kinds, grpc/json's own error), the sink is closed and every waiting instance
   sees end of ammo.  (How the run is reported to the user is C13's; that it ends is C08's.) *)
Theorem C08_nothing_chosen_ends : forall (k : pkind) es lim pas ch cancel fuel,
  has_filter k = true -> es <> [] -> chosen_entries ch es = [] -> is_cancelled cancel 0 = false ->
  let x := run k (cfgc lim pas ch) es cancel fuel in
  let C := c14_const (length es) * (length es + 1) in
  delivered x = [] /\ steps x <= C
  /\ (C < fuel -> no_ammo_outcome (out x) /\ closed x = true /\ acquire_after x = AcqEndOfAmmo).
Proof. exact filtered_nomatch. Qed.
Print Assumptions C08_nothing_chosen_ends.

(* The providers without the option ignore the list. *)
Theorem C08_list_ignored_without_option : forall k lim pas ch es cancel fuel,
  has_filter k = false -> run k (cfgc lim pas ch) es cancel fuel = run k (cfg0 lim pas) es cancel fuel.
Proof. exact no_filter_ignores_list. Qed.
Print Assumptions C08_list_ignored_without_option.

(* Why the streaming http path ends when nothing is chosen and passes = 0: only through its
   whole-pass probe (`delivered == 0 && p.fullPassDone()`), whose answer hangs on a type assertion
   to `interface{ PassNum() uint }` (Model/ProviderProbe.v).  With the probe the code has, the
   parametrised loop is the streaming provider of the theorems above; with a probe that never
   fires (the assertion does not hold for the decoder type) the loop is a `continue` for ever:
   for EVERY fuel Run has not returned, nothing was delivered, the sink is open, every instance
   is blocked in Acquire — for every decoder kind, every file, every limit. *)
Theorem C08_probe_of_the_code : forall k cf es cancel fuel,
  stream_run_p probe_code k cf es cancel fuel = run (KHttp k false) cf es cancel fuel.
Proof. exact stream_run_p_code. Qed.
Print Assumptions C08_probe_of_the_code.

Theorem C08_dead_probe_never_ends : forall k es lim ch fuel,
  es <> [] -> chosen_entries ch es = [] ->
  let r := stream_run_p probe_dead k (cfgc lim 0 ch) es None fuel in
  out r = OutOfFuel /\ delivered r = [] /\ closed r = false /\ acquire_after r = AcqBlocked /\ steps r = fuel.
Proof. exact dead_probe_spins. Qed.
Print Assumptions C08_dead_probe_never_ends.

(* Non-vacuity: three entries, tags 0 1 2.  grpc/json, list [2;0], limit 5: entries 0 2 0 2 0, nil;
   passes 2: 0 2 0 2; uri streaming with limit 3 and list [7]: nothing, "no ammo", sink closed after
   one pass; grpc/json likewise; the same uri run with a dead probe is still going after 2000
   iterations with the sink open; the scenario loop ignores the list. *)
Example C08_filter_examples :
  let e i := {| e_tag := i; e_id := i |} in
  let es := [e 0; e 1; e 2] in
  ids (delivered (run KGrpcJson (cfgc 5 0 [2; 0]) es None 200)) = [0; 2; 0; 2; 0]
  /\ out (run KGrpcJson (cfgc 5 0 [2; 0]) es None 200) = Ok
  /\ ids (delivered (run KGrpcJson (cfgc 0 2 [2; 0]) es None 200)) = [0; 2; 0; 2]
  /\ chosen_entries [7] es = []
  /\ out (run (KHttp DUri false) (cfgc 3 0 [7]) es None 200) = Failed ENoAmmo
  /\ closed (run (KHttp DUri false) (cfgc 3 0 [7]) es None 200) = true
  /\ steps (run (KHttp DUri false) (cfgc 3 0 [7]) es None 200) <= 5
  /\ out (run KGrpcJson (cfgc 0 0 [7]) es None 200) = Failed ENoAmmoText
  /\ out (stream_run_p probe_dead DUri (cfgc 3 0 [7]) es None 2000) = OutOfFuel
  /\ closed (stream_run_p probe_dead DUri (cfgc 3 0 [7]) es None 2000) = false
  /\ ids (delivered (run KScenario (cfgc 2 0 [7]) es None 200)) = [0; 1].
Proof. vm_compute. repeat split; repeat constructor. Qed.
