(* Property C02 - the order clauses for the schedules the configuration REALLY describes.

   Properties/C02.v states "times never decrease" / "each part starts at the finish of the part before
   it" over leaves with an abstract offset function, under the hypothesis [leaf_ok] (offsets
   non-decreasing, inside [0, duration]).  Here the hypothesis is discharged: a configuration tree
   ([pcfg]: const / line / step / once / unlimited / instance_step parts, composites nested at will) is
   compiled to the tree of Model/SchedTree.v with the counts and the offset formulas of NewConst /
   NewLine / lineDoAt / NewOnce / the NewStep loop (Model/Sched.v, exact arithmetic; re-read from
   core/schedule/{const,line,once,step}.go on every run, Gen/Sched_bridge.v), and for EVERY valid
   configuration every leaf is well behaved.  The count of a line part (the integral of the rate) and
   its offsets (the inverse of the integral) are two formulas at two places of line.go; that they agree -
   no token of the count falls outside the part's window - is what makes the composite ordered.
   Statements only; proofs in Proofs/SchedProfileTreeProofs.v (on top of C01's range / monotonicity
   theorems, Proofs/SchedProofs.v). *)
From Coq Require Import List ZArith QArith Bool.
From PV Require Import Model.Sched Model.SchedTree Model.SchedProfileTree.
From PV Require Import Model.SchedConc Model.SchedNested.
From PV Require Import Proofs.SchedTreeSpec Proofs.SchedConcProofs Proofs.SchedConcCor Proofs.SchedNestedProofs Proofs.SchedNestedCor.
From PV Require Import Proofs.SchedProfileTreeProofs Proofs.SchedProfileConc.
Import ListNotations.
Local Open Scope Z_scope.

(* Every valid configuration compiles (no NaN offset, the NewStep loop terminates) and every leaf of the
   resulting tree satisfies the hypotheses of C02_stream_ordered / C02_mono / C02_conc_thread_mono /
   C02_conc_nested_thread_mono: fresh, offsets non-decreasing and inside [0, duration]. *)
Theorem C02_profile_leaves_ok : forall pc, pvalid pc ->
  exists c, compile pc = Some c /\
            Forall leaf_ok (flatten_cfg c) /\ Forall unstarted (flatten_cfg c).
Proof. exact compile_ok. Qed.
Print Assumptions C02_profile_leaves_ok.

(* ... so for every valid configuration, every start instant p and every non-decreasing clock the
   times handed out by successive Next calls never decrease. *)
Theorem C02_profile_mono : forall pc c p m nows, pvalid pc -> compile pc = Some c -> clock_mono m nows ->
  nondecr p (nexts nows (snd (items_from p (flatten_cfg c))) (fst (items_from p (flatten_cfg c)))).
Proof. exact profile_mono. Qed.
Print Assumptions C02_profile_mono.

(* Every token of a part lies inside the part's window: in a list of well-behaved parts, the part
   (n, d, a) that follows the parts [pre] starts at s = the finish of [pre]; its tokens are s + a k with
   s <= s + a k <= s + d; everything handed out before it lies in [p, s] and everything after it in
   [s + d, finish]. *)
Theorem C02_part_window : forall pre n d a post p,
  Forall leaf_ok (pre ++ DoAt n d a 0 None :: post) ->
  Forall unstarted (pre ++ DoAt n d a 0 None :: post) ->
  let s := snd (items_from p pre) in
  let f := snd (items_from (s + d) post) in
  items_from p (pre ++ DoAt n d a 0 None :: post) =
    (fst (items_from p pre) ++ map (fun k => IT (s + a k)) (seq 0 n) ++ fst (items_from (s + d) post), f) /\
  (forall k, (k < n)%nat -> s <= s + a k <= s + d) /\
  p <= s /\ Forall (item_in p s) (fst (items_from p pre)) /\
  s + d <= f /\ Forall (item_in (s + d) f) (fst (items_from (s + d) post)).
Proof. exact part_window. Qed.
Print Assumptions C02_part_window.

(* the leaves of the rate profiles themselves: count and offsets agree *)
Theorem C02_profile_rate_leaf : forall p, valid p -> is_rate p = true ->
  0 <= l_dur (the_leaf p) /\
  (forall k, 0 <= k < l_n (the_leaf p) -> exists x, l_at (the_leaf p) k = Some x /\ 0 <= x <= l_dur (the_leaf p)) /\
  (forall k k' x x', 0 <= k -> k <= k' -> k' < l_n (the_leaf p) ->
     l_at (the_leaf p) k = Some x -> l_at (the_leaf p) k' = Some x' -> x <= x').
Proof. exact rate_leaf_good. Qed.
Print Assumptions C02_profile_rate_leaf.

(* Under concurrency: the schedule built from any valid configuration (any nesting), any number of callers
   with any programs of Next / Left, every interleaving of the nested steps of Model/SchedNested.v: the
   conclusion of C02_conc_nested holds (linearizable to the abstract stream, nothing panics) and the
   times each caller is given never decrease - with no hypothesis about the leaves left. *)
Theorem C02_profile_conc_thread_mono : forall pc c fuel now0,
  pvalid pc -> compile pc = Some c -> (size_cfg c <= S fuel)%nat ->
  exists c0, build (S fuel) now0 c = Ok c0 /\ flatten c0 = flatten_cfg c /\
    (comp_len c0 <> 0%nat -> forall lo0 ths st, ninit_threads ths ->
       nireach fuel {| ni_g := {| ng_c := c0; ng_lo := lo0; ng_threads := ths |};
                       ni_a := a_init (flatten_cfg c); ni_log := [] |} st ->
       nconc_conclusion fuel c0 lo0 ths st /\
       exists p, forall i th, nth_error (ng_threads (ni_g st)) i = Some th ->
         nondecr p (next_results (n_hist th))).
Proof. exact profile_conc_thread_mono. Qed.
Print Assumptions C02_profile_conc_thread_mono.

(* ------------------------------------------------------------------ non-vacuity *)
(* a long, almost flat, rising line (0.001 -> 0.003 operations per second during 3000 s: six tokens,
   the slope adds two to the four of the initial rate), two tokens at once, a nested composite of a
   step profile and an unlimited part; started at 100 *)
Definition ex_profile : pcfg :=
  PComposite [PRate (PLine (1 # 1000) (3 # 1000) 3000000000000); PRate (POnce 2);
              PComposite [PRate (PStep 1 2 1 1000000000); PUnlimited 5]].

Example C02_profile_example :
  pvalid ex_profile /\
  match compile ex_profile with
  | Some c => items_from 100 (flatten_cfg c) =
      ([IT 100; IT 791287847577; IT 1372281323369; IT 1854101966349; IT 2274917217735; IT 2653311931559;
        IT 3000000000100; IT 3000000000100;
        IT 3000000000100; IT 3001000000100; IT 3001500000100; IW 3002000000100 3002000000105],
       3002000000105)
  | None => False
  end.
Proof.
  split.
  - cbn. unfold min_dur. repeat split; try discriminate; try (intro H; discriminate H).
  - vm_compute. reflexivity.
Qed.

(* Sensitivity: the theorem depends on the count and the offsets being the two sides of ONE integral.
   The same line with its offsets spaced like a const profile of the initial rate (token k at k / from)
   but its count still taken from the integral of the line has tokens after the part's finish:
   tokens 4 and 5 of the six at 4000 s and 5000 s in a part that finishes at 3000 s. *)
Example C02_profile_count_and_offsets_must_agree :
  let f := 1 # 1000 in let t := 3 # 1000 in let D := 3000000000000 in
  let l := {| l_n := line_n f t D; l_dur := D; l_at := fun k => Some (const_at f k) |} in
  l_n l = 6 /\ l_at l 4 = Some 4000000000000 /\ l_at l 5 = Some 5000000000000 /\
  ~ leaf_ok (DoAt (Z.to_nat (l_n l)) (l_dur l) (off_total l) 0 None).
Proof.
  cbn zeta. split; [vm_compute; reflexivity|]. split; [vm_compute; reflexivity|]. split; [vm_compute; reflexivity|].
  intros (_ & B & _). specialize (B 4%nat).
  assert (E : (4 < Z.to_nat (line_n (1 # 1000) (3 # 1000) 3000000000000))%nat) by (vm_compute; repeat constructor).
  specialize (B E). vm_compute in B. destruct B as [_ B]. apply B. reflexivity.
Qed.

(* the hypotheses of C02_profile_conc_thread_mono hold for the example: it fits the fuel and builds to a
   non-empty composite *)
Example C02_profile_conc_example :
  match compile ex_profile with
  | Some c => (size_cfg c <= 10)%nat /\
              match build 10 0 c with Ok c0 => comp_len c0 = 3%nat | _ => False end
  | None => False
  end.
Proof. vm_compute. split; [repeat constructor|reflexivity]. Qed.
