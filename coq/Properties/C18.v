(* Property C18 — plugin registry: every constructor shape yields rightly configured
   components.  Statements only; proofs live in Proofs/RegistryFacts.v, Proofs/RegistryProofs.v.

   Everything is quantified over: the constructor shape (returns plugin/factory x config
   none/struct/pointer x error result or not x produced factory with error result or not x
   default-config function none/value/nil x declared result type), the requested form (New,
   factory without / with error result), fill given or not, the ORACLE (what the user's
   default function, fillConf, constructor and produced factory do at their n-th invocation,
   including at which invocations they fail), the start state of the invocation/allocation
   counters, and the number k of calls (induction on k). *)
From Coq Require Import List Arith Bool NArith.
From PV Require Import Model.Registry Proofs.RegistryFacts Proofs.RegistryProofs Proofs.RegistryNestProofs.
From PV Require Import Model.RegistryConc Proofs.RegistryConcProofs Model.RegisterHelpers Proofs.RegisterHelpersProofs.
From PV Require Import Model.RegistrySection Proofs.RegistrySectionProofs.
From PV Require Import Model.RegistryDecode Proofs.RegistryDecodeProofs.
From PV Require Import Model.RegistryOverlay Proofs.RegistryOverlayProofs Proofs.RegistryOverlayEmbed.
From Coq Require Import String.
Import ListNotations.

(* Every constructor call receives, and every product is built from, a config that was made
   from the registered default (zero value when none is registered or it returned nil; never
   nil) overlaid by the user's fill; for a factory made from a plugin constructor that config
   was made during the same call, for one made from a factory constructor at creation. *)
Theorem C18_configured : forall c o s, configured_b c o (run_case_from c o s) = true.
Proof. exact configured_holds. Qed.
Print Assumptions C18_configured.

(* A failing fill / constructor / produced factory ends the operation, nothing runs after it,
   and that very error is the outcome: the error result of New and NewFactory and of a factory
   type with an error result, a panic carrying it exactly when the requested factory type has
   none; without a failure the outcome is a product. *)
Theorem C18_errors : forall c o s, errors_b c o (run_case_from c o s) = true.
Proof. exact errors_hold. Qed.
Print Assumptions C18_errors.

(* Plugin constructor behind a factory (and repeated New): each call invokes the default
   function once, the fill once, the constructor at most once, on a config whose identity is
   different from that of every other call.  Factory constructor: default, fill and constructor
   run once, at creation; each call is exactly one invocation of the factory it returned. *)
Theorem C18_fresh_per_product : forall c o s, fresh_b c o (run_case_from c o s) = true.
Proof. exact fresh_holds. Qed.
Print Assumptions C18_fresh_per_product.

(* The executable specification the correspondence run evaluates on the implementation's
   observations is the conjunction of the three. *)
Theorem C18_spec : forall c o s, spec_b c o (run_case_from c o s) = true.
Proof. exact spec_holds. Qed.
Print Assumptions C18_spec.

(* Functional reading of "configured": New builds its product from default (or zero)
   overlaid by the fill, evaluated at the counters of this very call. *)
Theorem C18_new_config : forall sh hf o s s1 ev p,
  reg_new sh hf o s = (s1, ev, OOk p) -> p_arg p = expected_arg sh hf o s.
Proof. exact new_product_arg. Qed.
Print Assumptions C18_new_config.

(* ... a factory made from a plugin constructor builds the product of a call from a config
   created and filled during that call (state [s] at the call, not [s0] at creation) ... *)
Theorem C18_plugin_factory_config : forall sh we named hf o s0 s1 cev f s s2 ev p,
  sh_ret sh = RPlugin ->
  reg_new_factory sh we named hf o s0 = (s1, cev, CrOk f) ->
  call_factory sh we hf o s f = (s2, ev, OOk p) ->
  p_arg p = expected_arg sh hf o s.
Proof. exact plugin_factory_product_arg. Qed.
Print Assumptions C18_plugin_factory_config.

(* ... and one made from a factory constructor from the single config decoded at creation. *)
Theorem C18_factory_factory_config : forall sh we named hf o s0 s1 cev f s s2 ev p,
  sh_ret sh = RFactory ->
  reg_new_factory sh we named hf o s0 = (s1, cev, CrOk f) ->
  call_factory sh we hf o s f = (s2, ev, OOk p) ->
  p_arg p = expected_arg sh hf o s0.
Proof. exact factory_factory_product_arg. Qed.
Print Assumptions C18_factory_factory_config.

(* The factory NewFactory hands out has exactly the requested Go type - also when the requested
   type and the registered function's type have the same signature and differ only in one of
   them being a named func type: then it is a MakeFunc of the requested type, never the
   registered function itself (a type assertion to the requested type, or an assignment to a
   config field of that type, succeeds). *)
Theorem C18_factory_type : forall sh we named hf o s0 s1 cev f,
  reg_new_factory sh we named hf o s0 = (s1, cev, CrOk f) -> factory_named sh named f = named.
Proof. exact factory_type. Qed.
Print Assumptions C18_factory_type.

(* Config identities of different calls are pairwise distinct (Prop reading of the check). *)
Theorem C18_fresh_ids : forall c o s calls,
  run_case_from c o s = ObsNew calls \/
  (exists cev e, run_case_from c o s = ObsFactory cev e calls /\ sh_ret (cs_shape c) = RPlugin) ->
  NoDup (flat_map (fun x => round_id (fst x)) calls).
Proof. exact fresh_ids_nodup. Qed.
Print Assumptions C18_fresh_ids.

(* Overlapping creations of the same registered entry: while the fillConf of one creation runs,
   another creation of the same (type, name) runs to completion (a nested component of the same
   entry created from inside the decode, or a second goroutine whose creation falls into the
   first one's decode window).  Each of the two is a correct creation of its own: the outer
   constructor gets the config made from ITS default and ITS fill, the inner one its own; errors
   are routed as in C18_errors.  For k New calls, and for NewFactory + k calls of a factory made
   from a plugin constructor with a config. *)
Theorem C18_overlapping_creations : forall sh rq o k,
  rq = ReqNew \/ (sh_ret sh = RPlugin /\ is_nocfg (sh_cfg sh) = false) ->
  nest_b sh rq o (run_nest sh rq o k) = true.
Proof. exact nest_holds. Qed.
Print Assumptions C18_overlapping_creations.

(* ---- non-vacuity: concrete runs, and observations the specification rejects ---- *)

Definition ex_oracle (ff cf : nat -> bool) : oracle :=
  mkOracle (fun n => mkV (100 + N.of_nat n) (200 + N.of_nat n) 0)
           (fun n v => mkV (va v) (300 + N.of_nat n) (400 + N.of_nat n))
           ff cf (fun _ => false).

(* func(pointer to Cfg) (Impl, error) with a default, requested as func() Iface, three calls, the
   fill failing at its third invocation: creation makes and fills one config (and drops it),
   then product, panic carrying the fill error, product; four configs in all *)
Example C18_example_run :
  run_case (mkCase (mkShape RPlugin CPtr true false DefVal TImpl false) (ReqFactory false false) true 3)
           (ex_oracle (Nat.eqb 2) (fun _ => false)) =
  ObsFactory [EvDefault 0; EvFill 0 (FTConf 0) (mkV 100 200 0)] None
    [ ([EvDefault 1; EvFill 1 (FTConf 1) (mkV 101 201 0); EvCtor 0 (AConf (mkConf 1 (mkV 101 301 401)))],
       OOk (mkProd 0 (AConf (mkConf 1 (mkV 101 301 401))) None));
      ([EvDefault 2; EvFill 2 (FTConf 2) (mkV 102 202 0)], OPanic (EFill 2));
      ([EvDefault 3; EvFill 3 (FTConf 3) (mkV 103 203 0); EvCtor 1 (AConf (mkConf 3 (mkV 103 303 403)))],
       OOk (mkProd 1 (AConf (mkConf 3 (mkV 103 303 403))) None)) ].
Proof. vm_compute. reflexivity. Qed.

(* the specification is not trivially true: a second product sharing the first one's config,
   a swallowed constructor error and a nil config are each rejected *)
Example C18_spec_rejects_shared_config :
  fresh_b (mkCase (mkShape RPlugin CPtr false false DefNone TIface false) (ReqFactory true false) false 2)
          (ex_oracle (fun _ => false) (fun _ => false))
          (ObsFactory [] None
             [ ([EvCtor 0 (AConf (mkConf 0 vzero))], OOk (mkProd 0 (AConf (mkConf 0 vzero)) None));
               ([EvCtor 1 (AConf (mkConf 0 vzero))], OOk (mkProd 1 (AConf (mkConf 0 vzero)) None)) ]) = false.
Proof. vm_compute. reflexivity. Qed.

Example C18_spec_rejects_swallowed_error :
  errors_b (mkCase (mkShape RPlugin NoCfg true false DefNone TIface false) (ReqFactory false false) false 1)
           (ex_oracle (fun _ => false) (Nat.eqb 0))
           (ObsFactory [] None [ ([EvCtor 0 ANone], OOk (mkProd 0 ANone None)) ]) = false.
Proof. vm_compute. reflexivity. Qed.

Example C18_spec_rejects_nil_config :
  configured_b (mkCase (mkShape RPlugin CPtr false false DefNil TIface false) ReqNew false 1)
               (ex_oracle (fun _ => false) (fun _ => false))
               (ObsNew [ ([EvDefault 0; EvCtor 0 ANil], OOk (mkProd 0 ANil None)) ]) = false.
Proof. vm_compute. reflexivity. Qed.

(* an outer constructor that got the inner creation's config is rejected *)
Example C18_spec_rejects_foreign_config :
  reround_ok (mkShape RPlugin CPtr false false DefVal TIface false) (ex_oracle (fun _ => false) (fun _ => false)) true
    (mkRe [EvDefault 0; EvFill 0 (FTConf 0) (mkV 100 200 0)]
          ([EvDefault 1; EvFill 1 (FTConf 1) (mkV 101 201 0); EvCtor 0 (AConf (mkConf 1 (mkV 101 301 401)))],
           OOk (mkProd 0 (AConf (mkConf 1 (mkV 101 301 401))) None))
          [EvCtor 1 (AConf (mkConf 1 (mkV 101 301 401)))]
          (OOk (mkProd 1 (AConf (mkConf 1 (mkV 101 301 401))) None))) = false.
Proof. vm_compute. reflexivity. Qed.


(* ---- concurrent products (Model/RegistryConc.v) ---- *)

(* Creations of the same registered plugin constructor running AT THE SAME TIME (Registry.New from
   several goroutines; calls of one factory made from a plugin constructor, as the engine calls the
   gun factory from one goroutine per instance): each creation cut into its atomic steps - default
   function invoked, fresh config allocated and initialised, decoder made for that config, decoder
   overlays the settings of the creation's own section, constructor called.  For EVERY schedule
   (any interleaving of any number of creations, finished or not), every start value of the shared
   counters and heap: every finished creation built its product from the value of ITS default
   invocation overlaid by ITS settings, no default value and no config is shared by two products. *)
Theorem C18_concurrent_products : forall sh o d m sched G0 T0,
  is_nocfg (sh_cfg sh) = false ->
  (forall t, ct_pc (T0 t) = PcDefault) ->
  conc_b sh o d (observe_conc d m (snd (run_sched sh o d sched G0 T0))) = true.
Proof. exact conc_holds. Qed.
Print Assumptions C18_concurrent_products.

(* functional reading *)
Theorem C18_concurrent_product_config : forall sh o d sched G0 T0 t,
  (forall x, ct_pc (T0 x) = PcDefault) ->
  let T := snd (run_sched sh o d sched G0 T0) in
  ct_pc (T t) = PcDone -> td_trial (d t) = false ->
  ct_arg (T t) = mk_arg (sh_cfg sh) (ct_tgt (T t)) (td_fill (d t) (base_of sh o (ct_def (T t)))).
Proof. exact conc_product_arg. Qed.
Print Assumptions C18_concurrent_product_config.

(* two creations with different settings, steps interleaved one by one: each gets its own *)
Example C18_concurrent_example :
  observe_conc (fun t => mkTD (fun v => mkV (va v) (1000 + N.of_nat t) (vc v)) false) 2
    (snd (run_sched (mkShape RPlugin CPtr true false DefVal TImpl false) (ex_oracle (fun _ => false) (fun _ => false))
                    (fun t => mkTD (fun v => mkV (va v) (1000 + N.of_nat t) (vc v)) false)
                    [1; 0; 0; 1; 1; 0; 1; 0; 0; 1] cstate0 (fun _ => thread0))) =
  [ mkCR 0 (Some 1) (AConf (mkConf 0 (mkV 101 1000 0))); mkCR 1 (Some 0) (AConf (mkConf 1 (mkV 100 1001 0))) ].
Proof. vm_compute. reflexivity. Qed.

(* a product built from the bare default (its section's settings written into another creation's
   config), and two products sharing one config, are rejected *)
Example C18_conc_rejects_lost_settings :
  conc_b (mkShape RPlugin CPtr true false DefVal TImpl false) (ex_oracle (fun _ => false) (fun _ => false))
         (fun t => mkTD (fun v => mkV (va v) 7 (vc v)) false)
         [ mkCR 0 (Some 0) (AConf (mkConf 0 (mkV 100 200 0))); mkCR 1 (Some 1) (AConf (mkConf 1 (mkV 101 7 0))) ] = false.
Proof. vm_compute. reflexivity. Qed.
Example C18_conc_rejects_shared_config :
  conc_b (mkShape RPlugin CPtr true false DefNone TImpl false) (ex_oracle (fun _ => false) (fun _ => false))
         (fun t => mkTD (fun v => mkV (va v) 7 (vc v)) false)
         [ mkCR 0 None (AConf (mkConf 0 (mkV 0 7 0))); mkCR 1 None (AConf (mkConf 0 (mkV 0 7 0))) ] = false.
Proof. vm_compute. reflexivity. Qed.

(* ---- the registration helpers of core/register (Model/RegisterHelpers.v) ---- *)

(* register.Provider / Limiter / Gun / Aggregator / DataSource / DataSink -> RegisterPtr ->
   plugin.Register: for every name, constructor and default-config functions given, plugin.Register
   receives the kind's plugin type and exactly that name, constructor and default-config functions. *)
Theorem C18_register_helpers : forall hk n c defs,
  In hk kind_helpers ->
  register_via hk register_ptr_helper n c defs = Some (mkReq (rh_iface hk) n c defs).
Proof. exact helpers_forward. Qed.
Print Assumptions C18_register_helpers.

(* hence a constructor of shape [sh] registered through a helper yields components (New) and
   factory products configured with the default registered WITH it overlaid by the fill *)
Theorem C18_helper_new_config : forall hk sh sh' hf o s s1 ev p,
  In hk kind_helpers -> shape_via hk register_ptr_helper sh = Some sh' ->
  reg_new sh' hf o s = (s1, ev, OOk p) -> p_arg p = expected_arg sh hf o s.
Proof. exact helper_new_config. Qed.
Print Assumptions C18_helper_new_config.

Theorem C18_helper_factory_config : forall hk sh sh' we named hf o s0 s1 cev f s s2 ev p,
  In hk kind_helpers -> shape_via hk register_ptr_helper sh = Some sh' ->
  sh_ret sh = RPlugin ->
  reg_new_factory sh' we named hf o s0 = (s1, cev, CrOk f) ->
  call_factory sh' we hf o s f = (s2, ev, OOk p) ->
  p_arg p = expected_arg sh hf o s.
Proof. exact helper_factory_config. Qed.
Print Assumptions C18_helper_factory_config.

(* a helper that does not hand the default-config function on is told apart: the registry would
   see a constructor without default *)
Example C18_helper_dropping_default_rejected :
  let bad := mkHelper "DataSink" "DataSink" 3 true "RegisterPtr" [HPtr; HParam 0; HParam 1] in
  helper_forwards register_ptr_helper bad = false /\
  shape_via bad register_ptr_helper (mkShape RPlugin CPtr true false DefVal TImpl false) =
    Some (mkShape RPlugin CPtr true false DefNone TImpl false).
Proof. vm_compute. split; reflexivity. Qed.

(* ---- config sections and lookup (Model/RegistrySection.v) ---- *)

(* pluginconfig.parseConf + Registry.get: a creation through a config section reaches Registry.New
   exactly when the section is a map with string keys holding exactly one (case-insensitive) type
   key whose value is a string naming a registered plugin; EVERY other section is an error result
   of the creation (no event: neither the default function nor the constructor runs). *)
Theorem C18_section_creation : forall sh hf o s sec,
  (section_ok_b sec = true -> create_by_section sh hf o s sec = inr (reg_new sh hf o s)) /\
  (section_ok_b sec = false -> exists e, create_by_section sh hf o s sec = inl e).
Proof. exact section_creation. Qed.
Print Assumptions C18_section_creation.

Theorem C18_section_product_config : forall sh hf o s sec s1 ev p,
  create_by_section sh hf o s sec = inr (s1, ev, OOk p) -> p_arg p = expected_arg sh hf o s.
Proof. exact section_product_config. Qed.
Print Assumptions C18_section_product_config.

(* Registry.New / NewFactory by (plugin type, name) *)
Theorem C18_lookup_creation : forall content t n sh hf o s,
  types_unique content = true ->
  (registered_b content t n = true -> new_by_name content t n sh hf o s = inr (reg_new sh hf o s)) /\
  (registered_b content t n = false -> exists e, new_by_name content t n sh hf o s = inl e).
Proof. exact lookup_creation. Qed.
Print Assumptions C18_lookup_creation.

Example C18_section_examples :
  section_ok_b (mkSec FUntypedMap [TkAbsent; TkName true; TkAbsent] false) = true /\
  section_ok_b (mkSec FStrMap [TkName true; TkName true; TkAbsent] false) = false /\
  section_ok_b (mkSec FStrMap [TkName false; TkAbsent; TkAbsent] false) = false /\
  section_ok_b (mkSec FUntypedMap [TkName true; TkAbsent; TkAbsent] true) = false /\
  parse_section (mkSec FStrMap [TkNonString; TkName true; TkAbsent] false) = inl SeTypeValue.
Proof. vm_compute. repeat split. Qed.

(* ---- the user's settings: the fill the config hooks build from a section (Model/RegistryDecode.v) ---- *)

(* mapstructure as the code goes (each field of the target takes the value under its name and marks
   the key used; ErrorUnused) leaves no key unused exactly when every key of the section names a
   field of the config struct, and writes the default overlaid by the settings; hence the fill
   fails exactly when a key names no field or the validator refuses *)
Theorem C18_decode_keys : forall fl u seen,
  Nat.eqb (snd (decode_map fl u seen)) 0 = settings_accepted_b fl u /\
  fst (decode_map fl u seen) = overlay fl u seen.
Proof. exact (fun fl u seen => conj (decode_unused_accepted fl u seen) (decode_value fl u seen)). Qed.
Print Assumptions C18_decode_keys.

Theorem C18_hook_fill_fails : forall fl u o n,
  o_ffail (hook_oracle fl u o) n = negb (settings_accepted_b fl u) || o_ffail o n.
Proof. exact hook_fill_fails. Qed.
Print Assumptions C18_hook_fill_fails.

(* every constructor shape x component form and every factory form: settings holding a key that
   names no field of the constructor's config - for a constructor WITHOUT config (or with an empty
   config struct): any setting at all - are a config error that reaches the caller as the error
   result of the creation (Decode of the component / of the factory), and nothing is constructed *)
Theorem C18_settings_rejected : forall sh empty o s sec u,
  section_ok_b sec = true ->
  settings_accepted_b (decode_target sh empty) u = false ->
  (exists s1 evs n, create_by_settings sh empty o s sec u = inr (s1, evs, OErr (EFill n)) /\ no_construction evs = true) /\
  (forall we named, exists s1 evs n,
      factory_by_settings sh empty we named o s sec u = inr (s1, evs, CrErr (EFill n)) /\ no_construction evs = true).
Proof. exact settings_rejected_creation. Qed.
Print Assumptions C18_settings_rejected.

Theorem C18_noconfig_accepts_no_setting : forall sh empty u,
  sh_cfg sh = NoCfg -> settings_accepted_b (decode_target sh empty) u = true -> u = no_settings.
Proof. exact nocfg_accepts_only_empty. Qed.
Print Assumptions C18_noconfig_accepts_no_setting.

(* a product that IS created through a section was built from the registered default overlaid
   by the section's settings (field by field: C18_overlay_fields), and the settings were acceptable *)
Theorem C18_settings_new_config : forall sh empty o s sec u s1 ev p,
  create_by_settings sh empty o s sec u = inr (s1, ev, OOk p) ->
  p_arg p = settings_arg sh (decode_target sh empty) u o s /\
  settings_accepted_b (decode_target sh empty) u = true.
Proof. exact settings_new_config. Qed.
Print Assumptions C18_settings_new_config.

(* factory form: per call for plugin constructors, the creation's for factory constructors *)
Theorem C18_settings_factory_config : forall sh empty we named o s0 sec u s1 cev f s s2 ev p,
  factory_by_settings sh empty we named o s0 sec u = inr (s1, cev, CrOk f) ->
  call_factory sh we true (hook_oracle (decode_target sh empty) u o) s f = (s2, ev, OOk p) ->
  p_arg p = settings_arg sh (decode_target sh empty) u o (match sh_ret sh with RPlugin => s | RFactory => s0 end).
Proof. exact settings_factory_config. Qed.
Print Assumptions C18_settings_factory_config.

Theorem C18_overlay_fields : forall u d,
  va (overlay FldABC u d) = or_else (set_a u) (va d) /\
  vb (overlay FldABC u d) = or_else (set_b u) (vb d) /\
  vc (overlay FldABC u d) = or_else (set_c u) (vc d).
Proof. exact overlay_fields. Qed.
Print Assumptions C18_overlay_fields.

(* non-vacuity: {type: x, zz: 1} for a constructor without config is refused, {type: x} accepted;
   {type: x, b: 7} for a Cfg constructor gives the default with b = 7; a fill that skips the empty
   struct (accepts every key) is told apart by the specification *)
Example C18_settings_examples :
  let nocfg := mkShape RPlugin NoCfg true false DefNone TImpl false in
  let withcfg := mkShape RPlugin CPtr true false DefVal TImpl false in
  let o := mkOracle (fun n => mkV 100 200 0) (fun _ v => v) (fun _ => false) (fun _ => false) (fun _ => false) in
  let sec := mkSec FStrMap [TkName true; TkAbsent; TkAbsent] false in
  settings_accepted_b (decode_target nocfg false) (mkSet None None None 1) = false /\
  settings_accepted_b (decode_target nocfg false) (mkSet None (Some 7%N) None 0) = false /\
  settings_accepted_b (decode_target nocfg false) no_settings = true /\
  settings_accepted_b (decode_target withcfg true) (mkSet None (Some 7%N) None 0) = false /\
  create_by_settings nocfg false o st0 sec (mkSet None None None 1) = inr (mkSt 0 0 1 0 0, [EvFill 0 FTEmpty vzero], OErr (EFill 0)) /\
  create_by_settings nocfg false o st0 sec no_settings = inr (mkSt 0 0 1 1 0, [EvFill 0 FTEmpty vzero; EvCtor 0 ANone], OOk (mkProd 0 ANone None)) /\
  create_by_settings withcfg false o st0 sec (mkSet None (Some 7%N) None 0) =
    inr (mkSt 1 1 1 1 0, [EvDefault 0; EvFill 0 (FTConf 0) (mkV 100 200 0); EvCtor 0 (AConf (mkConf 0 (mkV 100 7 0)))],
         OOk (mkProd 0 (AConf (mkConf 0 (mkV 100 7 0))) None)).
Proof. vm_compute. repeat split. Qed.

(* ---- which Go types are requested forms (plugin.go isFactoryType / FactoryPluginType,
   Registry.LookupFactory, the expectation at the head of Registry.NewFactory) ---- *)

(* a type is taken as a factory type exactly when it is one of the two factory forms of the
   property - func() P or func() (P, error) with P an interface - and its plugin type is that P *)
Theorem C18_factory_forms : forall t,
  is_factory_type t = match factory_form t with Some _ => true | None => false end /\
  factory_plugin_type t = option_map fst (factory_form t).
Proof. exact factory_type_forms. Qed.
Print Assumptions C18_factory_forms.

(* NewFactory by requested type: reaches the constructor registered for (P, name) exactly for a
   factory form of it, with that form's error-result flag; a type that is no factory form is
   refused (panic at creation), a form of an unregistered (P, name) is the error result *)
Theorem C18_factory_request : forall content t n,
  types_unique content = true ->
  new_factory_request content t n =
    match factory_form t with
    | None => FqPanic
    | Some (TyIface p, we) => if registered_b content p n then FqReaches p we else FqLookupErr
    | Some (_, _) => FqLookupErr
    end.
Proof. exact new_factory_request_spec. Qed.
Print Assumptions C18_factory_request.

Example C18_factory_form_examples :
  factory_form (mkGt true 0 [TyIface 0]) = Some (TyIface 0, false) /\
  factory_form (mkGt true 0 [TyIface 0; TyError]) = Some (TyIface 0, true) /\
  is_factory_type (mkGt true 0 [TyOther]) = false /\
  is_factory_type (mkGt true 1 [TyIface 0]) = false /\
  is_factory_type (mkGt true 0 [TyIface 0; TyIface 0]) = false /\
  is_factory_type (mkGt false 0 []) = false /\
  new_factory_request [(0, [0])] (mkGt true 0 [TyIface 0; TyError]) 0 = FqReaches 0 true /\
  new_factory_request [(0, [0])] (mkGt true 0 [TyOther]) 0 = FqPanic.
Proof. vm_compute. repeat split. Qed.

(* ---- round 8: config structs with map-, slice- and nested-struct-typed fields whose registered
   default is not empty (Model/RegistryOverlay.v: the decoder of the fill as the code goes,
   ZeroFields = false), and registered names as byte strings ---- *)

(* the fill fails exactly when the settings are not acceptable for the config struct: a key names
   no field (also inside a nested struct) or a value has the wrong kind for its field *)
Theorem C18_overlay_accepts : forall fs sec, ovl_some (dec_cfg fs sec) = ovl_accepted_b fs sec.
Proof. exact dec_cfg_accepts. Qed.
Print Assumptions C18_overlay_accepts.

(* and otherwise what it leaves in the config IS the registered default overlaid by the settings
   (cfg_agrees_b, the verdict function of the ovl cases): numbers and slices the section's where
   given, maps key by key, nested structs field by field, everything else as the default made it *)
Theorem C18_overlay_config : forall fs sec r, dec_cfg fs sec = Some r -> cfg_agrees_b fs sec r = true.
Proof. exact dec_cfg_agrees. Qed.
Print Assumptions C18_overlay_config.

(* a map held by the default: the keys the section's map does not mention keep the default's
   value, the ones it mentions hold the section's *)
Theorem C18_overlay_map_keys : forall dm um k,
  alookup k um = None -> alookup k (dec_map dm um) = alookup k dm.
Proof. exact overlay_map_keeps. Qed.
Theorem C18_overlay_map_sets : forall dm um k v,
  alookup k um = Some (Some v) -> alookup k (dec_map dm um) = Some v.
Proof. exact overlay_map_sets. Qed.
Print Assumptions C18_overlay_map_sets.
Print Assumptions C18_overlay_map_keys.

(* a field - of whatever kind - whose key the section does not have, or has with a nil value,
   stays as the default made it *)
Theorem C18_overlay_absent_or_nil_keeps_default : forall fs sec r f cur,
  dec_cfg fs sec = Some r -> alookup f fs = Some cur ->
  alookup f sec = None \/ alookup f sec = Some UNull ->
  alookup f r = Some cur.
Proof. exact dec_cfg_keeps. Qed.
Print Assumptions C18_overlay_absent_or_nil_keeps_default.

(* registered names are exact: after registering the (name, entry) pairs l one by one (the empty
   name and a name already there are refused), a name finds the entry registered under exactly
   these bytes - whatever other names (differing by case, separators, digits) are registered *)
Theorem C18_name_lookup_exact : forall l r n e,
  nregister_all [] l = Some r -> (nlookup r n = Some e <-> In (n, e) l).
Proof. exact nlookup_exact. Qed.
Print Assumptions C18_name_lookup_exact.

(* creation by name through the config hooks / the registry: judged by named_spec_b (the verdict
   function of the nm cases) *)
Theorem C18_named_creation : forall l r v,
  nregister_all [] l = Some r -> named_spec_b l v (create_named r v) = true.
Proof. exact create_named_spec. Qed.
Print Assumptions C18_named_creation.

(* the round-7 decoder (config = the scalars a, b, c: hook_oracle, the fill of the registry-level
   theorems C18_settings_rejected / C18_settings_new_config / C18_settings_factory_config) IS the
   general decoder on the struct {a; b; c} of number fields: same result, same failures *)
Theorem C18_overlay_extends_settings : forall u seen,
  dec_cfg (embed_cfg seen) (embed_set u) =
    if Nat.eqb (snd (decode_map FldABC u seen)) 0
    then Some (embed_cfg (fst (decode_map FldABC u seen))) else None.
Proof. exact decode_map_is_instance. Qed.
Print Assumptions C18_overlay_extends_settings.

(* non-vacuity: default {labels: {1: 10, 2: 20}, n: 5, l: [1;2;3], sub: (x = 1, y = 2)} under the section
   {labels: {2: 99}, sub: {y: 7}, n: nil}: labels keeps key 1, sub keeps x, n keeps 5, l untouched;
   names "Shout" / "shout" registered: each spelling finds its own entry, "SHOUT" nothing *)
Example C18_overlay_examples :
  dec_cfg [(1, FMap [(1, 10); (2, 20)]); (2, FNum 5); (3, FList [1; 2; 3]); (4, FSub [(1, 1); (2, 2)])]%N
          [(1, UMap [(2, Some 99)]); (4, UMap [(2, Some 7)]); (2, UNull)]%N =
    Some [(1, FMap [(1, 10); (2, 99)]); (2, FNum 5); (3, FList [1; 2; 3]); (4, FSub [(1, 1); (2, 7)])]%N /\
  dec_cfg [(5, FPtr true [(1, 0); (2, 0)]); (6, FPtr false [(1, 4); (2, 5)]); (7, FPtr true [(1, 0)])]%N [(5, UMap [(2, Some 3)]); (6, UMap [(1, Some 9)])]%N =
    Some [(5, FPtr false [(1, 0); (2, 3)]); (6, FPtr false [(1, 9); (2, 5)]); (7, FPtr true [(1, 0)])]%N /\
  dec_cfg [(1, FNum 5)]%N [(9, UNum 1)]%N = None /\
  dec_cfg [(4, FSub [(1, 1)])]%N [(4, UMap [(3, Some 1)])]%N = None /\
  cfg_agrees_b [(1, FMap [(1, 10); (2, 20)])]%N [(1, UMap [(2, Some 99)])]%N [(1, FMap [(2, 99)])]%N = false /\
  cfg_agrees_b [(2, FNum 5)]%N [(2, UNull)]%N [(2, FNum 0)]%N = false /\
  (exists r, nregister_all [] [([83; 104]%N, 0); ([115; 104]%N, 1)] = Some r /\
     create_named r [83; 104]%N = NReaches 0 /\ create_named r [115; 104]%N = NReaches 1 /\
     create_named r [83; 72]%N = NUnknown /\
     named_spec_b [([83; 104]%N, 0); ([115; 104]%N, 1)] [83; 104]%N (NReaches 1) = false /\
     named_spec_b [([83; 104]%N, 0)] [83; 104]%N NUnknown = false).
Proof. vm_compute. repeat split. eexists. repeat split. Qed.
